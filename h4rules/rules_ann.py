"""C11: annotations — type<->tag map agreement (F7b/c), payload-prefix sibling agreement, key macro inverses."""
from .facts import kind, strip, walk, path, render, int_val, is_int, unseen, mem_field
from .codec import ast_walk, ast_exprs
from .rules_conv import switch_arms, _find_switch

# format: annotation type -> tag
SPEC = {0: 104, 1: 105, 2: 100, 3: 101}  # AN_DATA_LABEL->DFTAG_DIL, AN_DATA_DESC->DFTAG_DIA, AN_FILE_LABEL->DFTAG_FID, AN_FILE_DESC->DFTAG_FD
NAMES = {0: "AN_DATA_LABEL", 1: "AN_DATA_DESC", 2: "AN_FILE_LABEL", 3: "AN_FILE_DESC", 104: "DFTAG_DIL", 105: "DFTAG_DIA", 100: "DFTAG_FID", 101: "DFTAG_FD"}
TAGS = {100, 101, 104, 105}
# legitimate groupings of the four tags in a condition
PARTITIONS = [frozenset({104, 105}), frozenset({100, 101}), frozenset({100, 104}), frozenset({101, 105})]
PART_NAMES = {frozenset({104, 105}): "object annotations (carry the 4-byte target tag/ref prefix)", frozenset({100, 101}): "file annotations (no prefix)",
              frozenset({100, 104}): "labels", frozenset({101, 105}): "descriptions"}


def _assigned_const(stmts):
    """the constant assigned to a variable / *out in an arm"""
    vals = []
    for s in stmts:
        def f(n, st):
            if n[0] == "s":
                for x in walk(n[1], True):
                    if x[0] == "asg" and x[1] == "=" and is_int(x[3]):
                        t = strip(x[2])
                        if kind(t) in ("var", "deref"):
                            vals.append((path(t), int_val(x[3])))
            return True
        ast_walk(s, f)
    return vals


def rule_type_tag_maps(ctx):
    prog = ctx.prog
    n = 0
    for f in prog.lib_funcs():
        if not f.rel.endswith(("mfan.c", "mfdatainfo.c", "hdatainfo.c")):
            continue
        ordn = 0
        for sw in _find_switch(f):
            arms = switch_arms(sw)
            labels = {l for ls, st, ft in arms for l in ls if l != "default"}
            if labels and labels <= set(SPEC) and len(labels) >= 2:
                # type -> tag
                ordn += 1
                mp = {}
                problems = []
                for ls, st, ft in arms:
                    vals = [v for p, v in _assigned_const(st) if v in TAGS or (90 <= v <= 120)]
                    for l in ls:
                        if l == "default":
                            continue
                        if ft:
                            problems.append("%s falls through" % NAMES[l])
                        if not vals:
                            continue
                        mp[l] = vals[0]
                if not mp:
                    continue
                n += 1
                key = "MAP:%s:type2tag#%d" % (f.name, ordn)
                for l, v in sorted(mp.items()):
                    if SPEC[l] != v:
                        problems.append("%s -> %s (the format says %s)" % (NAMES[l], NAMES.get(v, v), NAMES[SPEC[l]]))
                if problems:
                    ctx.violated("MAP", key, f.where(sw[3]), "annotation type -> tag switch disagrees with the format: %s — annotations are stored "
                                 "or looked up under the wrong tag" % "; ".join(problems))
                else:
                    ctx.holds("MAP", key, f.where(sw[3]), "maps %s as the format specifies" % ", ".join("%s->%s" % (NAMES[l], NAMES[v]) for l, v in sorted(mp.items())))
            elif labels and labels <= TAGS and len(labels) >= 2:
                ordn += 1
                mp = {}
                for ls, st, ft in arms:
                    vals = [v for p, v in _assigned_const(st) if v in SPEC]
                    rets = []
                    for s in st:
                        def g(nn, stt):
                            if nn[0] == "s" and kind(nn[1]) == "ret" and nn[1][1] is not None and is_int(nn[1][1]):
                                rets.append(int_val(nn[1][1]))
                            return True
                        ast_walk(s, g)
                    vv = vals or [r for r in rets if r in SPEC]
                    for l in ls:
                        if l != "default" and vv:
                            mp[l] = vv[0]
                if not mp:
                    continue
                n += 1
                key = "MAP:%s:tag2type#%d" % (f.name, ordn)
                inv = {v: k for k, v in SPEC.items()}
                bad = ["%s -> %s (must be %s)" % (NAMES[l], NAMES.get(v, v), NAMES[inv[l]]) for l, v in sorted(mp.items()) if inv[l] != v]
                if bad:
                    ctx.violated("MAP", key, f.where(sw[3]), "annotation tag -> type switch is not the inverse of the type -> tag map: %s" % "; ".join(bad))
                else:
                    ctx.holds("MAP", key, f.where(sw[3]), "inverse of the type -> tag map on %s" % ", ".join(NAMES[l] for l in sorted(mp)))
    ctx.floor("MAP", 8, n, "(annotation type/tag switches)")


def _tag_disjunction(c):
    """set of DFTAG constants compared for equality against one expression in an ||-chain, else None"""
    c = strip(c)
    out = set()
    subj = set()

    def rec(e):
        e = strip(e)
        if kind(e) == "bin" and e[1] == "||":
            return rec(e[2]) and rec(e[3])
        if kind(e) == "bin" and e[1] == "==" and is_int(e[3]) and int_val(e[3]) in TAGS:
            out.add(int_val(e[3]))
            subj.add(render(e[2]))
            return True
        return False

    if rec(c) and len(out) >= 2 and len(subj) == 1:
        return frozenset(out)
    return None


def rule_prefix_siblings(ctx):
    """every condition that groups annotation tags uses one of the four legitimate groupings; the payload functions
    (write / read / length) all treat exactly {DIL, DIA} as the tags that carry the target prefix"""
    prog = ctx.prog
    n = 0
    payload = {}
    for f in prog.lib_funcs():
        if not f.rel.endswith(("mfan.c",)):
            continue
        ordn = 0
        conds = []

        def g(node, st):
            if node[0] == "if":
                conds.append((node[1], node[4] if len(node) > 4 else f.line))
            return True
        ast_walk(f.raw["ast"], g)
        for c, line in conds:
            s = _tag_disjunction(c)
            if s is None:
                continue
            ordn += 1
            n += 1
            key = "PREFIX:%s:cond#%d" % (f.name, ordn)
            if s in PARTITIONS:
                ctx.holds("PREFIX", key, f.where(line), "groups %s = %s" % ("/".join(NAMES[t] for t in sorted(s)), PART_NAMES[s]), nontrivial=False)
                payload.setdefault(f.name, []).append(s)
            else:
                ctx.violated("PREFIX", key, f.where(line), "condition groups the tags %s, which is neither {object annotations}, {file annotations}, "
                             "{labels} nor {descriptions}: some annotation kind is handled with the wrong payload layout" % "/".join(NAMES[t] for t in sorted(s)))
    for fn in ("ANIwriteann", "ANIreadann", "ANIannlen"):
        f = prog.func(fn)
        key = "PREFIX:%s:data-set" % fn
        n += 1
        if f is None:
            ctx.unrecognised("PREFIX", key, "-", "payload function %s not found" % fn)
        elif frozenset({104, 105}) in payload.get(fn, []):
            ctx.holds("PREFIX", key, f.where(), "selects the target-prefix layout for exactly DFTAG_DIL and DFTAG_DIA")
        else:
            ctx.violated("PREFIX", key, f.where(), "%s has no branch that selects the 4-byte target prefix for exactly {DFTAG_DIL, DFTAG_DIA}" % fn)
    ctx.floor("PREFIX", 6, n, "(tag groupings in mfan.c)")


def rule_key_macros(ctx):
    """AN_CREATE_KEY, AN_KEY2TYPE and AN_KEY2REF are mutually inverse on 16-bit type and ref"""
    prog = ctx.prog
    create = []
    k2ref = []
    k2type = []
    for f in prog.lib_funcs():
        if not f.rel.endswith("mfan.c"):
            continue
        mm = prog.macros.get(f.tu, {})
        lines = {}
        for (mf, l, c), ms in mm.items():
            for m in ms:
                if m["n"] in ("AN_CREATE_KEY", "AN_KEY2REF", "AN_KEY2TYPE") and f.line <= l <= f.endline:
                    lines.setdefault(l, set()).add(m["n"])
        if not lines:
            continue
        stmts = []
        for bid, i, st in f.stmts():
            if st["l"] in lines and not any(m.startswith(("UINT", "INT")) for m in (st.get("m") or [])):
                stmts.append((st["e"], lines[st["l"]]))
        for e, which in stmts:
            for x in walk(e, True):
                ln = x[4] if x[0] == "asg" else None
                if x[0] == "bin" and x[1] == "|" and "AN_CREATE_KEY" in which:
                    l = strip(x[2])
                    if kind(l) == "bin" and l[1] == "<<" and is_int(l[3]):
                        inner = strip(l[2])
                        if kind(inner) == "bin" and inner[1] == "&" and is_int(inner[3]):
                            create.append((int_val(l[3]), int_val(inner[3]), f))
                if x[0] == "bin" and x[1] == ">>" and is_int(x[3]) and "AN_KEY2TYPE" in which:
                    k2type.append((int_val(x[3]), f))
                if x[0] == "cast" and x[1] == "uint16" and "AN_KEY2REF" in which:
                    y = strip(x[2])
                    if kind(y) == "bin" and y[1] == "&" and is_int(y[3]):
                        k2ref.append((int_val(y[3]), f))
    key = "KEY:macros"
    if not create or not k2ref or not k2type:
        ctx.unrecognised("KEY", key, "hdf/src/mfan_priv.h:57", "expansions of AN_CREATE_KEY/AN_KEY2REF/AN_KEY2TYPE not all found (%d/%d/%d)" % (
            len(create), len(k2ref), len(k2type)))
        return
    shifts = {s for s, m, f in create}
    masks = {m for s, m, f in create}
    rshifts = {s for s, f in k2type}
    rmasks = {m for m, f in k2ref}
    f0 = create[0][2]
    if shifts == {16} and masks == {0xffff} and rshifts == {16} and rmasks == {0xffff}:
        ctx.holds("KEY", key, f0.where(), "key = (type & 0xffff) << 16 | ref; type = key >> 16; ref = key & 0xffff (%d/%d/%d expansions)" % (
            len(create), len(k2type), len(k2ref)))
    else:
        ctx.violated("KEY", key, f0.where(), "annotation key macros are not mutually inverse: create uses shift %s mask %s, KEY2TYPE shifts by %s, "
                     "KEY2REF masks with %s — annotation ids no longer map one-to-one to tag/ref pairs" % (
                         sorted(shifts), [hex(m) for m in sorted(masks)], sorted(rshifts), [hex(m) for m in sorted(rmasks)]))


# ---------------------------------------------------------------------------------------
# one-shot state flags: after a successful call the flag has its consumed value on every path

from .flow import PathAnalysis, fail_values, classify_ret, normalise_cmp, NEG

ONE_SHOT = [
    # (function, record, field, value after success, why)
    ("ANIwriteann", "ANnode", "new_ann", 0,
     "once an annotation has been written it exists in the file: the next write through the same id must reuse its tag/ref "
     "(HDreuse_tagref) instead of writing over the start of the old element"),
]


class OneShot(PathAnalysis):
    def __init__(self, prog, rec, fld, val):
        super().__init__(prog)
        self.rec, self.fld, self.val = rec, fld, val
        self.exits = []

    def init_user(self, func):
        return (None, frozenset())  # (known value of the field, local aliases holding the field's value)

    def on_stmt(self, func, bid, idx, stmt, env, user):
        known, al = user
        al = set(al)
        for n in walk(stmt["e"]):
            if n[0] == "asg" and n[1] == "=":
                t = strip(n[2])
                r = strip(n[3])
                if mem_field(t) == (self.rec, self.fld):
                    known = int_val(r) if is_int(r) else None
                    al = set()
                elif kind(t) == "var":
                    al.discard(t[1])
                    if mem_field(r) == (self.rec, self.fld):
                        al.add(t[1])
        return (known, frozenset(al))

    def on_assume(self, func, bid, cond, pol, env, user):
        known, al = user
        l, op, r = normalise_cmp(cond)
        if l is None or not is_int(r):
            return user
        if not pol:
            op = NEG[op]
        l = strip(l)
        hit = mem_field(l) == (self.rec, self.fld) or (kind(l) == "var" and l[1] in al)
        if hit and op == "==":
            return (int_val(r), al)
        if hit and op == "!=" and int_val(r) in (0, 1):
            new = 1 - int_val(r)  # the flags in the table are booleans
            if known is not None and known != new:
                return self.INFEASIBLE
            if kind(l) == "var":
                v = env.get(l[1])
                if v is not None and v[0] == "ne" and v[1] == new:
                    return self.INFEASIBLE
            return (new, al)
        return user

    def on_exit(self, func, bid, retval, env, user):
        self.exits.append((classify_ret(retval, self.fails), user[0]))


def rule_one_shot_flags(ctx):
    prog = ctx.prog
    n = 0
    for fn, rec, fld, val, why in ONE_SHOT:
        f = prog.func(fn)
        key = "ONESHOT:%s:%s.%s" % (fn, rec, fld)
        n += 1
        if f is None:
            ctx.unrecognised("ONESHOT", key, "-", "function not found")
            continue
        if not any(x[0] == "mem" and (x[3], x[2]) == (rec, fld) for _, _, _, x in f.nodes(True)):
            ctx.unrecognised("ONESHOT", key, f.where(), "%s.%s is no longer used in %s" % (rec, fld, fn))
            continue
        a = OneShot(prog, rec, fld, val)
        a.fails = fail_values(f, prog)
        a.run(f)
        ok_exits = [k for cls, k in a.exits if cls != "fail"]
        bad = [k for k in ok_exits if k != val]
        if not ok_exits:
            ctx.unrecognised("ONESHOT", key, f.where(), "no non-failing exit")
        elif bad:
            ctx.violated("ONESHOT", key, f.where(), "a non-failing path of %s leaves %s.%s %s instead of %d: %s" % (
                fn, rec, fld, "unknown" if bad[0] is None else "== %d" % bad[0], val, why))
        else:
            ctx.holds("ONESHOT", key, f.where(), "%s.%s == %d on every non-failing exit" % (rec, fld, val))
    return n


def rule_lazy_tree(ctx):
    """LAZYTREE (C11): the per-type annotation trees are built lazily; `an_num[type] == -1` means 'not built yet'.  Every
    routine that finds the tree missing must build it *from the file* (ANIcreate_ann_tree); starting an empty tree there makes
    the annotations already in the file invisible.  Only ANIcreate_ann_tree itself may create the tree with tbbtdmake."""
    from .codec import ast_walk, ast_calls
    from .facts import mem_field
    prog = ctx.prog
    n = 0
    for f in prog.lib_funcs():
        if not f.rel.endswith("mfan.c"):
            continue
        found = []

        def vis(nn, st):
            if nn[0] == "if":
                c = strip(nn[1])
                if kind(c) == "bin" and c[1] == "==" and is_int(c[3]) and int_val(c[3]) == -1:
                    l = strip(c[2])
                    if kind(l) == "idx" and (mem_field(l[1]) or (0, 0))[1] == "an_num":
                        found.append(nn)
            return True
        ast_walk(f.raw.get("ast"), vis)
        for i, nn in enumerate(found):
            n += 1
            key = "LAZYTREE:%s#%d" % (f.name, i + 1)
            calls = {c[1] for c in ast_calls(nn[2])}
            if f.name == "ANIcreate_ann_tree":
                if "tbbtdmake" in calls:
                    ctx.holds("LAZYTREE", key, f.where(), "the builder itself creates the tree and then loads the file's annotations", nontrivial=False)
                else:
                    ctx.unrecognised("LAZYTREE", key, f.where(), "ANIcreate_ann_tree no longer creates the tree in its `an_num == -1` branch")
            elif "ANIcreate_ann_tree" in calls:
                ctx.holds("LAZYTREE", key, f.where(), "missing tree is built from the file", nontrivial=True)
            else:
                ctx.violated("LAZYTREE", key, f.where(), "%s finds the annotation tree missing and does not build it with ANIcreate_ann_tree (calls: %s): annotations already in the file become invisible" % (
                    f.name, ", ".join(sorted(c for c in calls if c)) or "none"))
    ctx.floor("LAZYTREE", 5, n, "(tests of `an_num[type] == -1` in mfan.c)")
    return n


def rule_fileinfo_groups(ctx):
    """ANINFO (C11): ANfileinfo answers four counts, one per annotation type, each with the same little group: if the tree of type
    K is not built yet, build it (its size is the count), else take `an_num[K]`.  Within one group the test, the build call and the
    table read must name the same type K, and both arms must store into the same out-parameter; the four groups use four
    different types.  A group that reads another type's count reports the wrong number as soon as the tree exists (i.e. from the
    second call on), and ANselect's index range is wrong with it."""
    from .codec import ast_walk, ast_exprs
    from .facts import base_var
    prog = ctx.prog
    f = prog.func("ANfileinfo")
    if f is None:
        ctx.unrecognised("ANINFO", "ANINFO:ANfileinfo", "-", "ANfileinfo not found")
        return 0
    groups = []

    def an_idx(e):
        return [int_val(x[2]) for x in walk(e, True) if x[0] == "idx" and (mem_field(x[1]) or (0, 0))[1] == "an_num" and is_int(x[2])]

    def vis(nn, st):
        if nn[0] == "if" and an_idx(nn[1]) and not any(a[0] == "if" for a in st):
            groups.append(nn)
        return True
    ast_walk(f.raw.get("ast"), vis)
    seen_types = []
    n = 0
    for k, g in enumerate(groups):
        n += 1
        key = "ANINFO:ANfileinfo#%d" % (k + 1)
        K = an_idx(g[1])[0]
        types = set(an_idx(g[1]))
        outs = set()
        for arm in (g[2], g[3]):
            if arm is None:
                continue
            for e in ast_exprs(arm):
                types |= set(an_idx(e))
                for x in walk(e, True):
                    if x[0] == "call" and x[1] == "ANIcreate_ann_tree" and len(x[3]) >= 2 and is_int(x[3][1]):
                        types.add(int_val(x[3][1]))
                    if x[0] == "asg" and kind(strip(x[2])) == "deref":
                        outs.add(base_var(x[2]))
        problems = []
        if types != {K}:
            problems.append("the group mixes annotation types %s" % sorted(NAMES.get(t, t) for t in types))
        if len(outs) != 1:
            problems.append("its arms store into %s" % (sorted(outs) or "no out-parameter"))
        if K in seen_types:
            problems.append("type %s is answered twice" % NAMES.get(K, K))
        seen_types.append(K)
        if problems:
            ctx.violated("ANINFO", key, f.where(g[4]), "; ".join(problems) + ": the count reported for this kind of annotation is that of another kind")
        else:
            ctx.holds("ANINFO", key, f.where(g[4]), "%s -> *%s, one type throughout" % (NAMES.get(K, K), sorted(outs)[0]), nontrivial=True)
    ctx.floor("ANINFO", 4, n, "(count groups of ANfileinfo)")
    return n


def rule_pending_ref_checked(ctx):
    """PENDINGREF (C11): Htagnewref answers from the directory: it keeps returning the same reference until a descriptor with that
    reference has been written.  An annotation is entered into the in-memory tree at ANcreate and written only at ANwriteann, so
    ANIcreate must step over references that annotations of the same type already hold in the tree before it adds the new entry
    (a tbbtdfind on `an_tree` between the Htagnewref calls and ANIaddentry); otherwise a second ANcreate before the first write
    fails with a duplicate key."""
    prog = ctx.prog
    f = prog.func("ANIcreate")
    key = "PENDINGREF:ANIcreate"
    if f is None:
        ctx.unrecognised("PENDINGREF", key, "-", "ANIcreate not found")
        return 0
    news = [c[5] for _b, _i, _s, c in f.calls() if c[1] == "Htagnewref"]
    adds = [c[5] for _b, _i, _s, c in f.calls() if c[1] == "ANIaddentry"]
    finds = [c[5] for _b, _i, _s, c in f.calls() if c[1] == "tbbtdfind" and c[3] and any(y[0] == "mem" and y[2] == "an_tree" for y in walk(c[3][0], True))]
    if not news or not adds:
        ctx.unrecognised("PENDINGREF", key, f.where(), "ANIcreate no longer takes its reference from Htagnewref / adds the entry with ANIaddentry")
        return 0
    # the look-up has to be repeated after every step: it is the condition of a loop, not of an `if`
    in_loop = False
    if f.raw.get("ast"):
        from .facts import calls_in

        def _vis(nd, st):
            nonlocal in_loop
            if nd[0] in ("while", "do", "for"):
                conds = [nd[1]] if nd[0] == "while" else ([nd[2]] if nd[0] in ("do", "for") else [])
                for c_ in conds:
                    if c_ is not None and any(c[1] == "tbbtdfind" for c in calls_in(c_, True)):
                        in_loop = True
            return True

        ast_walk(f.raw["ast"], _vis)
    if any(max(news) < l < min(adds) for l in finds) and not in_loop:
        ctx.violated("PENDINGREF", key, f.where(min(finds)), "the look-up of the reference in the annotation tree is made once, not repeated after the reference was stepped: the stepped reference may be held by another pending annotation, and the third ANcreate before a write fails")
    elif any(max(news) < l < min(adds) for l in finds):
        ctx.holds("PENDINGREF", key, f.where(min(finds)), "the reference is looked up in the annotation tree, in a loop, before the entry is added", nontrivial=True)
    else:
        ctx.violated("PENDINGREF", key, f.where(min(adds)), "the reference Htagnewref returned goes into the annotation tree without a look-up for annotations that hold it in memory only: "
                     "a second ANcreate of the same type before the first ANwriteann fails")
    return 1


class _Reserve(PathAnalysis):
    """user = frozenset over {'R': length clamped to bound-1, 'C': length clamped to the whole bound, 'T': terminator stored at buf[length]}"""

    def __init__(self, prog, bound):
        super().__init__(prog)
        self.bound = bound
        self.exits = []
        self.seen = set()

    def init_user(self, func):
        return frozenset()

    def on_stmt(self, func, bid, idx, stmt, env, user):
        u = set(user)
        for x in walk(stmt["e"]):
            if x[0] == "asg" and x[1] == "=" and kind(strip(x[2])) == "var":
                r = strip(x[3])
                if kind(r) == "var" and r[1] == self.bound:
                    u.add("C"); u.discard("R"); self.seen.add("C")
                elif kind(r) == "bin" and r[1] == "-" and kind(strip(r[2])) == "var" and strip(r[2])[1] == self.bound and is_int(r[3], 1):
                    u.add("R"); u.discard("C"); self.seen.add("R")
                elif kind(r) == "cond":
                    # length = (length > bound) ? bound : length
                    for y in walk(r):
                        if y[0] == "var" and y[1] == self.bound:
                            self.seen.add("c?")
            if x[0] == "asg" and x[1] == "=" and kind(strip(x[2])) == "idx" and is_int(x[3], 0):
                u.add("T"); self.seen.add("T")
        return frozenset(u)

    def on_exit(self, func, bid, retval, env, user):
        self.exits.append((classify_ret(retval, self.fails), user))


def rule_reserve_iff_terminated(ctx):
    """RESERVENUL (C11): the annotation readers truncate to the caller's buffer.  A label is returned NUL-terminated, so one byte of the
    buffer is reserved (length clamped to maxlen - 1) and the terminator goes to buf[length]; a description is raw bytes and may
    fill the whole buffer.  Both directions are decided on paths: a path that clamped to maxlen - 1 must store the terminator
    (else a description read into a buffer of exactly its length loses its last byte), and a path that clamped to the whole
    maxlen must not store one (it would land at buf[maxlen])."""
    prog = ctx.prog
    n = 0
    for f in prog.lib_funcs():
        if not f.rel.endswith(("mfan.c", "dfan.c")):
            continue
        cand = None
        for q in f.params:
            p = q[0]
            for _b, _i, _s, x in f.nodes(True):
                if x[0] == "asg" and x[1] == "=" and kind(strip(x[2])) == "var":
                    r = strip(x[3])
                    if kind(r) == "bin" and r[1] == "-" and kind(strip(r[2])) == "var" and strip(r[2])[1] == p and is_int(r[3], 1):
                        cand = p
        if cand is None:
            continue
        a = _Reserve(prog, cand)
        a.fails = fail_values(f, prog)
        a.run(f)
        n += 1
        key = "RESERVENUL:%s" % f.name
        ok_exits = [u for cls, u in a.exits if cls != "fail"]
        lost = [u for u in ok_exits if "R" in u and "T" not in u]
        over = [u for u in ok_exits if "C" in u and "T" in u]
        if lost:
            ctx.violated("RESERVENUL", key, f.where(), "%s can return after truncating to `%s - 1` without storing a terminator: raw annotation bytes lose the last byte of a buffer that is exactly long enough" % (f.name, cand))
        elif over:
            ctx.violated("RESERVENUL", key, f.where(), "%s can truncate to the whole `%s` and then store a terminator at buf[length]: one byte past the caller's buffer" % (f.name, cand))
        else:
            ctx.holds("RESERVENUL", key, f.where(), "a buffer byte is reserved exactly on the paths that store the terminator", nontrivial=True)
    ctx.floor("RESERVENUL", 3, n, "(annotation readers that truncate to the caller's buffer)")
    return n


def rule_arm_globals(ctx, files=("hdf/src/dfan.c",)):
    """ARMGLOBAL (C11): the single-file annotation interface keeps one cursor per annotation kind in file-scope variables (next
    label ref, next description ref) and selects between them with `if (type == DFAN_LABEL) .. else ..` in every routine.  Each
    such variable belongs to one kind: it must appear under the same arm of that test everywhere.  A routine that touches the
    label cursor in its description arm advances the wrong walk: listing one kind repeats or skips annotations once calls for
    the two kinds are interleaved."""
    from .facts import int_name
    prog = ctx.prog
    uses = {}  # global -> {(const name, polarity): [(func, line)]}
    for f in prog.lib_funcs():
        if not f.rel.endswith(tuple(files)):
            continue
        ast = f.raw.get("ast")
        if not ast:
            continue

        def vis(nd, st):
            if nd[0] != "s":
                return True
            gl = {x[1] for x in walk(nd[1], True) if x[0] == "var" and len(x) > 2 and x[2] == "g" and x[1] in prog.globals}
            if not gl:
                return True
            chain = st + [nd]
            for i, s_ in enumerate(st):
                if s_[0] != "if":
                    continue
                c = strip(s_[1])
                if not (kind(c) == "bin" and c[1] in ("==", "!=") and kind(strip(c[2])) == "var" and int_name(c[3])):
                    continue
                arm = chain[i + 1]
                pol = (arm is s_[2]) == (c[1] == "==")
                for g in gl:
                    uses.setdefault(g, {}).setdefault((int_name(c[3]), pol), []).append((f, nd[-3] if isinstance(nd[-3], int) else f.line))
            return True

        ast_walk(ast, vis)
    n = 0
    domain = sorted({k[0] for m in uses.values() for k in m})
    if len(domain) == 2:
        # a two-valued kind: "not A" is "B" — express every use as "under kind domain[0]" (True) or "under kind domain[1]" (False)
        for g, m in uses.items():
            nm = {}
            for (cn, pol), sites in m.items():
                nm.setdefault((domain[0], pol if cn == domain[0] else not pol), []).extend(sites)
            uses[g] = nm
    for g, m in sorted(uses.items()):
        total = sum(len(v) for v in m.values())
        if total < 2:
            continue
        n += 1
        key = "ARMGLOBAL:%s" % g
        consts = {k[0] for k in m}
        bad = None
        for cn in consts:
            t, e = m.get((cn, True), []), m.get((cn, False), [])
            if t and e:
                minority = t if len(t) < len(e) else e
                bad = (cn, minority[0], len(t), len(e))
        if bad:
            cn, (bf, bl), nt, ne = bad
            ctx.violated("ARMGLOBAL", key, bf.where(bl), "`%s` is used under the `== %s` arm %d time(s) and under the other arm %d time(s): %s touches the cursor of the other annotation kind" % (g, cn, nt, ne, bf.name))
        else:
            ctx.holds("ARMGLOBAL", key, "-", "`%s` appears under one arm of the kind test in all %d places" % (g, total), nontrivial=True)
    # CURSORABS: such a cursor is set from the ref the routine has just obtained; stepping it relative to its own old value
    # (`cursor++`) depends on what an earlier, unrelated call left in it
    for g in sorted(uses):
        rel = []
        for f in prog.lib_funcs():
            if not f.rel.endswith(tuple(files)):
                continue
            for _b, _i, s_, x in f.nodes(True):
                t = None
                if x[0] == "incdec":
                    t = strip(x[3])
                elif x[0] == "asg" and x[1] != "=":
                    t = strip(x[2])
                if t is not None and kind(t) == "var" and t[1] == g:
                    rel.append((f, s_.get("l", f.line)))
        key = "CURSORABS:%s" % g
        if rel:
            ctx.violated("ARMGLOBAL", key, rel[0][0].where(rel[0][1]), "the cursor `%s` is stepped relative to its own old value in %s: after a call sequence that did not leave the ref just read in it, the step lands on a live annotation and the walk returns it again" % (g, rel[0][0].name))
        else:
            ctx.holds("ARMGLOBAL", key, "-", "`%s` is only ever assigned, never stepped relative to its old value" % g, nontrivial=True)
    ctx.floor("ARMGLOBAL", 2, n, "(per-kind cursor variables selected by a kind test)")
    return n


def rule_rewrite_reuses_element(ctx, files=("hdf/src/dfan.c", "hdf/src/mfan.c"), floor=2):
    """REUSEOLD (C11): rewriting an annotation keeps its tag/ref (its identity) but not its storage: DFANIputann and ANIwriteann call
    HDreuse_tagref, which detaches the old data so that the following write allocates an element of the *new* length.  Whether
    that happens may depend only on whether the annotation already exists in the file (the routine's new/existing flag) — not on
    the lengths involved: an existing annotation that is overwritten in place keeps its old length in the descriptor, so a
    shorter text comes back with the tail of the old one.  The condition of the `if` that contains the call must mention that
    one flag and nothing else (no call, no second variable), and the routine must not write before it."""
    from .facts import calls_in
    prog = ctx.prog
    n = 0
    for f in prog.lib_funcs():
        if not f.rel.endswith(files) or not f.raw.get("ast"):
            continue
        if not any(c[1] == "HDreuse_tagref" for _b, _i, _s, c in f.calls()):
            continue
        found = []

        def vis(nd, st):
            exprs = [nd[1]] if nd[0] in ("s", "if") and nd[1] is not None else []
            for e in exprs:
                if any(c[1] == "HDreuse_tagref" for c in calls_in(e, True)):
                    guards = [s_ for s_ in st if s_[0] == "if" and not any(c[1] == "HDreuse_tagref" for c in calls_in(s_[1], True))]
                    found.append((nd, guards))
            return True

        ast_walk(f.raw["ast"], vis)
        for nd, guards in found[:1]:
            n += 1
            key = "REUSEOLD:%s" % f.name
            line = nd[-3] if isinstance(nd[-3], int) else f.line
            # the expression that contains the call itself: `A && HDreuse_tagref(..) == FAIL` makes the call conditional on A
            own = nd[1]
            others = [c[1] for c in calls_in(own, True) if c[1] != "HDreuse_tagref"]
            has_and = any(y[0] == "bin" and y[1] == "&&" for y in walk(own, True))
            if others and has_and:
                ctx.violated("REUSEOLD", key, f.where(line), "the release of the old element is made conditional on `%s` inside its own test: an existing element can be overwritten in place and keep its old length" % render(own)[:80])
                continue
            if not guards:
                ctx.holds("REUSEOLD", key, f.where(line), "HDreuse_tagref is called unconditionally", nontrivial=True)
                continue
            badg = [g for g in guards if [c[1] for c in calls_in(g[1], True)] or len({x[1] for x in walk(g[1], True) if x[0] == "var"}) != 1]
            if not badg:
                ctx.holds("REUSEOLD", key, f.where(line), "whether the old element is released depends only on the flag test(s) `%s`" % "`, `".join(render(g[1])[:30] for g in guards), nontrivial=True)
            else:
                ctx.violated("REUSEOLD", key, f.where(line), "the release of the old element is conditioned on `%s`: an existing element can be overwritten in place and keep its old length" % render(badg[-1][1])[:80])
    ctx.floor("REUSEOLD", floor, n, "(routines that replace an existing element under its tag/ref)")
    return n


def rule_append_at_walked_tail(ctx, files=("hdf/src/dfan.c", "hdf/src/mfan.c")):
    """APPENDTAIL (C11): the DFAN directory of a file is a singly linked list of blocks of 16 entries.  A routine that needs a new block
    walks to the last block (`for (p = head; p && p->next; p = p->next)`) and links the new block behind it.  The store that
    links the freshly allocated node must go through the variable the walk advanced; linked behind the *head* instead, every
    block between the head and the new one drops out of the list — from the third block on, annotations that are in the file
    are no longer found and a rewrite adds a second annotation instead of replacing the first."""
    from .codec import ast_walk
    from .facts import base_var
    prog = ctx.prog
    n = 0
    for f in prog.lib_funcs():
        if not f.rel.endswith(tuple(files)) or not f.raw.get("ast"):
            continue
        # walk variables: `v = v->next` in a for-increment or loop body
        walkers = set()
        for _b, _i, _s, x in f.nodes(True):
            if x[0] == "asg" and x[1] == "=" and kind(strip(x[2])) == "var":
                r = strip(x[3])
                if kind(r) == "mem" and r[2] == "next" and base_var(r) == strip(x[2])[1]:
                    walkers.add(strip(x[2])[1])
        fresh = set()
        for _b, _i, _s, x in f.nodes(True):
            if x[0] == "asg" and x[1] == "=" and kind(strip(x[2])) == "var" and kind(strip(x[3])) == "call" and strip(x[3])[1] in ("malloc", "calloc"):
                fresh.add(strip(x[2])[1])
        if not walkers or not fresh:
            continue
        k = 0
        for _b, _i, s, x in f.nodes(True):
            if x[0] == "asg" and x[1] == "=" and kind(strip(x[2])) == "mem" and strip(x[2])[2] == "next" and kind(strip(x[3])) == "var" and strip(x[3])[1] in fresh:
                k += 1
                n += 1
                key = "APPENDTAIL:%s#%d" % (f.name, k)
                tgt = strip(strip(x[2])[1])
                if kind(tgt) == "var" and tgt[1] in walkers:
                    ctx.holds("APPENDTAIL", key, f.where(s.get("l", f.line)), "the new node is linked behind `%s`, the variable the walk to the tail advanced" % tgt[1], nontrivial=True)
                else:
                    ctx.violated("APPENDTAIL", key, f.where(s.get("l", f.line)), "the new node is linked with `%s`, not through the variable that walked to the tail (%s): the blocks between are cut out of the list" % (render(x)[:50], ", ".join(sorted(walkers))))
    ctx.floor("APPENDTAIL", 1, n, "(appends of a fresh node to a walked list)")
    return n


def rule_annlist_capacity(ctx):
    """LISTCAP (C11, C02): ANannlist(an, type, tag, ref, list) has no capacity argument: it stores the id of *every* annotation
    of that type on the tag/ref, as many as ANnumann reports.  A caller that allocates the list therefore sizes it with the
    ANnumann result itself; a count that was cut down to the caller's own output arrays in between (`if (n > size) n = size`)
    allocates `size` slots for `n` ids and the heap block is overrun."""
    from .rules_loops import seq_of, redefines
    from .facts import calls_in
    prog = ctx.prog
    n = 0
    for f in prog.funcs:
        ast = f.raw.get("ast")
        if not ast or f.rel.endswith(("mfan.c", "mfanf.c")):
            continue
        seq = seq_of(ast)
        for i, (e, nd) in enumerate(seq):
            for c in calls_in(e, True):
                if c[1] != "ANannlist" or len(c[3]) < 5:
                    continue
                n += 1
                key = "LISTCAP:%s#%d" % (f.name, sum(1 for k in ctx.instances if k.key.startswith("LISTCAP:%s#" % f.name)) + 1)
                line = nd[-3] if isinstance(nd[-3], int) else f.line
                buf = strip(c[3][4])
                if kind(buf) != "var":
                    ctx.unrecognised("LISTCAP", key, f.where(line), "list argument `%s` is not a plain variable" % render(buf)[:40])
                    continue
                # the allocation of the list: last `buf = malloc/calloc(..)` before the call
                alloc = None
                for j in range(i - 1, -1, -1):
                    for x in walk(seq[j][0], True):
                        rhs = None
                        if x[0] == "asg" and x[1] == "=" and kind(strip(x[2])) == "var" and strip(x[2])[1] == buf[1]:
                            rhs = x[3]
                        elif x[0] == "decl":
                            for d in x[1]:
                                if d[0] == buf[1] and d[2] is not None:
                                    rhs = d[2]
                        if rhs is not None:
                            for cc in calls_in(rhs, True):
                                if cc[1] in ("malloc", "calloc", "HDmalloc", "HDcalloc"):
                                    alloc = (j, cc)
                    if alloc:
                        break
                if not alloc:
                    ctx.holds("LISTCAP", key, f.where(line), "`%s` is not allocated in this routine (a fixed or caller-owned list)" % buf[1], nontrivial=False)
                    continue
                j, cc = alloc
                cnt = sorted({y[1] for a_ in cc[3] for y in walk(a_, True) if y[0] == "var"})
                # every variable of the size expression: its last definition before the allocation is the ANnumann result
                bad = None
                for v in cnt:
                    last = None
                    for k2 in range(j - 1, -1, -1):
                        if redefines(seq[k2][0], v) or (kind(seq[k2][0]) == "decl" and any(d[0] == v and d[2] is not None for d in seq[k2][0][1])):
                            last = seq[k2][0]
                            break
                    if last is None:
                        continue
                    if not any(x[1] == "ANnumann" for x in calls_in(last, True)):
                        bad = (v, render(last)[:60])
                if bad:
                    ctx.violated("LISTCAP", key, f.where(line), "the list handed to ANannlist holds `%s` ids, and `%s` was last set by `%s`, not by ANnumann: ANannlist stores every annotation id and overruns the block" % (bad[0], bad[0], bad[1]))
                else:
                    ctx.holds("LISTCAP", key, f.where(line), "the list handed to ANannlist is allocated for the ANnumann count (%s)" % ", ".join(cnt), nontrivial=True)
    ctx.floor("LISTCAP", 4, n, "(ANannlist calls outside the annotation interface)")
    return n


def rule_listing_end_latched(ctx):
    """LISTEND (C11): DFANgetfid/DFANgetfds walk the file labels with a saved "next reference".  When the probe for a further
    element (`Hnextread`) fails there is no reference value that is guaranteed not to exist - "last + 1" may well be an element
    stored earlier in the file - so the end of the listing is a fact of its own: the failing-probe branch sets a file-scope
    flag, and every routine that starts a read from the saved reference (`isfirst ? WILDCARD : Next_.._ref`) tests such a flag
    and leaves before its Hstartread.  Without the flag two labels stored in reverse reference order are returned alternately
    for ever."""
    from .facts import calls_in
    prog = ctx.prog
    n = 0
    funcs = [f for f in prog.lib_funcs() if f.rel.endswith("hdf/src/dfan.c") and f.raw.get("ast")]
    # flags set under a failing Hnextread
    flags = set()
    for f in funcs:
        def vis(nd, st):
            if nd[0] == "if" and nd[1] is not None and any(c[1] == "Hnextread" for c in calls_in(nd[1], True)):
                def inner(k, s2):
                    if k[0] == "s" and k[1] is not None:
                        for x in walk(k[1], True):
                            if x[0] == "asg" and x[1] == "=" and kind(strip(x[2])) == "var" and len(strip(x[2])) > 2 and strip(x[2])[2] == "g" and is_int(x[3]) and int_val(x[3]) != 0:
                                flags.add(strip(x[2])[1])
                    return True
                ast_walk(nd[2], inner)
            return True
        ast_walk(f.raw["ast"], vis)
    for f in funcs:
        order = []
        ast_walk(f.raw["ast"], lambda nd, st: (order.append(nd) if nd[0] in ("s", "if") and nd[1] is not None else None, True)[1])
        cursor_read = False
        guarded = False
        for nd in order:
            for x in walk(nd[1], True):
                if x[0] == "cond" and any(y[0] == "var" and len(y) > 2 and y[2] == "g" and y[1].startswith("Next_") for y in walk(x, True)):
                    cursor_read = True
            if nd[0] == "if" and any(y[0] == "var" and y[1] in flags for y in walk(nd[1], True)):
                from .rules_loops import _terminates
                if _terminates(nd[2]) or (nd[3] is not None and _terminates(nd[3])) or any(k_[0] == "if" for k_ in [nd[3]] if k_):
                    guarded = True
            if cursor_read and any(c[1] == "Hstartread" for c in calls_in(nd[1], True)):
                n += 1
                key = "LISTEND:%s" % f.name
                line = nd[-3] if isinstance(nd[-3], int) else f.line
                if guarded:
                    ctx.holds("LISTEND", key, f.where(line), "the read from the saved reference is preceded by a test of the end-of-listing flag (%s)" % ", ".join(sorted(flags)), nontrivial=True)
                else:
                    ctx.violated("LISTEND", key, f.where(line), "the read starts from the saved next-reference with no end-of-listing flag tested before it%s: after the last element the listing starts over whenever `last + 1` exists earlier in the file" % ("" if flags else " (no flag is set where the Hnextread probe fails)"))
                break
    ctx.floor("LISTEND", 2, n, "(DFAN routines that read from the saved next-reference)")
    return n


def rule_directory_slot_live(ctx):
    """SLOTLIVE (C11): DFAN's in-memory directory is a chain of blocks of DFAN_DEFENTRIES slots; DFANIaddentry marks the unused
    slots of a new block by `annref = 0` and leaves their other fields as malloc returned them.  A reader of a slot's
    `datatag` / `dataref` therefore looks at them only under a test of the same slot's `annref` (as the look-up in
    DFANIlocate does): without it a listing compares uninitialised memory with the caller's tag and, on a match, opens
    reference 0 - "any" - and files that label under an arbitrary object."""
    from .facts import calls_in
    prog = ctx.prog
    n = 0
    for f in prog.lib_funcs():
        ast = f.raw.get("ast")
        if not ast or not f.rel.endswith("hdf/src/dfan.c"):
            continue
        found = []

        def is_slot_field(x, names):
            return x[0] == "mem" and x[2] in names and x[3] in ("DFANdirentry",) and kind(strip(x[1])) == "idx"

        def vis(nd, st):
            if nd[0] in ("s", "if", "for", "while") and nd[1] is not None:
                exprs = [e for e in (nd[1:4] if nd[0] == "for" else [nd[1]]) if isinstance(e, list) and e and isinstance(e[0], str)]
                for e in exprs:
                    # reads only: skip the left-hand side of plain assignments
                    writes = {id(strip(x[2])) for x in walk(e, True) if x[0] == "asg" and x[1] == "="}
                    for x in walk(e, True):
                        if is_slot_field(x, ("datatag", "dataref")) and id(x) not in writes:
                            found.append((nd, list(st), x, e))
            return True

        ast_walk(ast, vis)
        seen = set()
        k = 0
        for nd, st, x, e in found:
            slot = render(strip(x[1]))
            line = nd[-3] if isinstance(nd[-3], int) else f.line
            if (line, slot) in seen:
                continue
            seen.add((line, slot))
            # UINT16DECODE(ptr, slot.datatag) and friends are stores through a macro
            if any(y[0] == "asg" and render(strip(y[2])) == render(x) for y in walk(e, True)):
                continue
            k += 1
            n += 1
            key = "SLOTLIVE:%s#%d" % (f.name, k)
            guarded = False
            # in the same condition, before it (short-circuit), or in an enclosing if
            for c in [e] + [a[1] for a in st if a[0] == "if" and a[1] is not None]:
                for y in walk(c, True):
                    if y[0] == "mem" and y[2] == "annref" and render(strip(y[1])) == slot:
                        guarded = True
            if guarded:
                ctx.holds("SLOTLIVE", key, f.where(line), "`%s.%s` is read under a test of the slot's annref" % (slot[:40], x[2]), nontrivial=True)
            else:
                ctx.violated("SLOTLIVE", key, f.where(line), "`%s.%s` is read with no test of the slot's annref: unused slots of a block DFANIaddentry allocated hold uninitialised memory there" % (slot[:40], x[2]))
    ctx.floor("SLOTLIVE", 2, n, "(reads of a DFAN directory slot's object tag/ref)")
    return n


def rule_annotation_pair_out(ctx):
    """ANNREFOUT (C11): an ANentry names two objects: the annotation itself (`annref`, with a tag that follows from its type) and
    the element it annotates (`elmtag`, `elmref`).  A routine that hands out a tag/ref pair whose *tag* is one of the
    annotation tags (DFTAG_DIL, DFTAG_DIA, DFTAG_FID, DFTAG_FD) is describing the annotation, so the reference stored through
    its out-parameter comes from `annref`.  With `elmref` the pair names nothing (or another annotation): ANtagref2id of the
    reported pair fails and several labels of one object report the same pair."""
    from .facts import int_name
    prog = ctx.prog
    ANN_TAGS = {"DFTAG_DIL", "DFTAG_DIA", "DFTAG_FID", "DFTAG_FD"}
    n = 0
    for f in prog.lib_funcs():
        if not f.rel.endswith("hdf/src/mfan.c"):
            continue
        params = {(p[0] if isinstance(p, (list, tuple)) else p.get("name")) for p in f.params}
        tag_out = False
        ref_stores = []
        for _b, _i, s, x in f.nodes(True):
            if x[0] == "asg" and x[1] == "=" and kind(strip(x[2])) == "deref" and kind(strip(strip(x[2])[1])) == "var" and strip(strip(x[2])[1])[1] in params:
                r = strip(x[3])
                if kind(r) == "int" and int_name(r) in ANN_TAGS:
                    tag_out = True
                mf = mem_field(r)
                if mf and mf[0] == "ANentry":
                    ref_stores.append((s.get("l", f.line), strip(strip(x[2])[1])[1], mf[1]))
        if not tag_out or not ref_stores:
            continue
        for line, p, fld in ref_stores:
            n += 1
            key = "ANNREFOUT:%s:%s" % (f.name, p)
            if fld == "annref":
                ctx.holds("ANNREFOUT", key, f.where(line), "`*%s` is the annotation's own reference, to go with the annotation tag the routine reports" % p, nontrivial=True)
            else:
                ctx.violated("ANNREFOUT", key, f.where(line), "the routine reports an annotation tag but stores `%s` through `*%s`: the pair names the annotated element's reference under the annotation's tag" % (fld, p))
    ctx.floor("ANNREFOUT", 1, n, "(annotation tag/ref pairs handed out through pointers)")
    return n


def rule_length_forwarded(ctx):
    """LENFWD (C11): annotation text is a counted byte string - it may hold NUL bytes, and the caller's count is the length.
    A writer that receives (text, length) hands that length to the element write as it came: the parameter is not given a
    new value on the way (no `strlen` clamp, no rounding).  Cut at the first NUL, a description written with its exact length
    comes back shorter while the call reported success."""
    from .facts import calls_in
    from .rules_loops import redefines
    prog = ctx.prog
    n = 0
    WRITERS = {"Hputelement": 4, "Hwrite": 1}
    for f in prog.lib_funcs():
        if not f.rel.endswith(("hdf/src/dfan.c", "hdf/src/mfan.c")):
            continue
        lens = [(p[0] if isinstance(p, (list, tuple)) else p.get("name")) for p in f.params]
        lens = [p for p in lens if p and "len" in p.lower()]
        if not lens:
            continue
        for p in lens:
            used = None
            for _b, _i, s, c in f.calls():
                if c[1] in WRITERS and len(c[3]) > WRITERS[c[1]]:
                    a = strip(c[3][WRITERS[c[1]]])
                    if kind(a) == "var" and a[1] == p:
                        used = s.get("l", f.line)
            if used is None:
                continue
            n += 1
            key = "LENFWD:%s:%s" % (f.name, p)
            changed = None
            for _b, _i, s, x in f.nodes(True):
                if x[0] in ("asg", "incdec") and redefines(x, p):
                    changed = s.get("l", f.line)
            if changed:
                ctx.violated("LENFWD", key, f.where(changed), "the caller's byte count `%s` is given a new value before it reaches the element write: the stored annotation is not the counted string the caller passed" % p)
            else:
                ctx.holds("LENFWD", key, f.where(used), "`%s` reaches the element write as the caller passed it" % p, nontrivial=True)
    ctx.floor("LENFWD", 2, n, "(annotation writers that take a byte count)")
    return n


def rule_directory_match_both(ctx):
    """DIRMATCH (C11): the DFAN directory maps an annotated object - a tag *and* a reference - to its annotation.  A look-up that
    is given both compares both: wherever a slot's `dataref` is compared with the routine's reference parameter, the same
    condition (or the one directly around it) compares the slot's `datatag` with the tag parameter.  Matched on the
    reference alone, the label of NDG/7 is found for VG/7 and overwritten with the other object's text."""
    from .facts import calls_in
    prog = ctx.prog
    n = 0
    for f in prog.lib_funcs():
        ast = f.raw.get("ast")
        if not ast or not f.rel.endswith("hdf/src/dfan.c"):
            continue
        params = {(p[0] if isinstance(p, (list, tuple)) else p.get("name")) for p in f.params}
        if not ({"tag", "ref"} <= params):
            continue
        found = []

        def vis(nd, st):
            if nd[0] == "if" and nd[1] is not None:
                def cmp_field(c, fld, par):
                    for x in walk(c, True):
                        if x[0] == "bin" and x[1] == "==":
                            for a_, b_ in ((strip(x[2]), strip(x[3])), (strip(x[3]), strip(x[2]))):
                                if kind(a_) == "mem" and a_[2] == fld and kind(b_) == "var" and b_[1] == par:
                                    return True
                    return False
                if cmp_field(nd[1], "dataref", "ref"):
                    conds = [nd[1]] + [a[1] for a in st[-2:] if a[0] == "if" and a[1] is not None]
                    found.append((nd, any(cmp_field(c, "datatag", "tag") for c in conds)))
            return True

        ast_walk(ast, vis)
        for k, (nd, both) in enumerate(found, 1):
            n += 1
            key = "DIRMATCH:%s#%d" % (f.name, k)
            line = nd[-3] if isinstance(nd[-3], int) else f.line
            if both:
                ctx.holds("DIRMATCH", key, f.where(line), "the directory slot is matched on the object's tag and reference", nontrivial=True)
            else:
                ctx.violated("DIRMATCH", key, f.where(line), "the directory slot is matched on the object's reference only: two objects with the same reference under different tags share one annotation")
    ctx.floor("DIRMATCH", 1, n, "(directory look-ups by object tag/ref)")
    return n
