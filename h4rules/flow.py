"""Path-sensitive product-state dataflow over the extracted CFGs.

State = (env, user).  `env` maps *tracked* local scalars (status variables, flags,
pointers that are tested) to small abstract values; `user` is the rule's typestate
(any hashable).  Branch edges refine env (and, through hooks, the typestate), and
edges that contradict env are infeasible.  That is what keeps the repository's
`goto done; ... if (ret_value == FAIL) {cleanup}` idiom from producing
infeasible-path reports.
"""
from .facts import kind, strip, unseen, walk, path, int_val, is_int, AnalysisBroken, render

ERR_MACROS = {"HGOTO_ERROR", "HRETURN_ERROR", "HE_REPORT_GOTO", "HE_REPORT_RETURN", "HGOTO_FAIL",
              "HCLOSE_GOTO_ERROR", "HE_CLOSE_REPORT_GOTO", "HE_CLOSE_REPORT_RETURN"}

TOP = None


def fail_values(func, prog):
    """Set of constants this function returns to signal failure."""
    vals = set()
    for bid, i, s in func.stmts():
        m = s.get("m") or []
        if not any(x in ERR_MACROS for x in m):
            continue
        e = s["e"]
        if kind(e) == "asg" and e[1] == "=" and kind(strip(e[2])) == "var" and is_int(e[3]):
            vals.add(int_val(e[3]))
        elif kind(e) == "ret" and e[1] is not None and is_int(e[1]):
            vals.add(int_val(e[1]))
    if vals:
        return vals
    return default_fail(func.ret, prog)


def default_fail(ret_type, prog):
    ti = prog.types.get(ret_type)
    if ret_type == "void":
        return set()
    if ti and ti[0] == "ptr":
        return {0}
    if ret_type in ("bool_t",):
        return {0}
    if ti and ti[0] == "int" and not ti[2]:
        return {0}  # unsigned results (refs, tags): 0 is the failure value
    return {-1}


class PathAnalysis:
    """Subclass and override the on_* hooks.  All hooks receive and return the user
    typestate; returning the sentinel INFEASIBLE from on_assume prunes the edge."""

    INFEASIBLE = object()
    STATE_CAP = 400
    MAX_STEPS = 400000
    stable_fields = ()  # record fields whose tests may be correlated along a path

    def __init__(self, prog):
        self.prog = prog

    # ---- hooks -----------------------------------------------------------------------
    def init_user(self, func):
        return None

    def on_stmt(self, func, bid, idx, stmt, env, user):
        return user

    def on_assume(self, func, bid, cond, pol, env, user):
        return user

    def on_call_outcome(self, func, call, outcome, env, user):
        """outcome: 'fail' | 'ok' — a branch just decided the result of `call`."""
        return user

    def on_exit(self, func, bid, retval, env, user):
        pass

    # ---- engine ------------------------------------------------------------------------
    def tracked_vars(self, func):
        addr_taken = set()
        assigned = set()
        tested = set()
        for bid, i, s, n in func.nodes(into_seen=True):
            k = n[0]
            if k == "addr":
                t = strip(n[1])
                if kind(t) == "var":
                    addr_taken.add(t[1])
            elif k == "asg" and kind(strip(n[2])) == "var":
                assigned.add(strip(n[2])[1])
            elif k == "decl":
                for d in n[1]:
                    if d[2] is not None:
                        assigned.add(d[0])
            elif k == "ret" and n[1] is not None and kind(strip(n[1])) == "var":
                tested.add(strip(n[1])[1])
        for b in func.blocks.values():
            t = b.get("term")
            if t and t.get("cond") is not None:
                for n in walk(t["cond"], into_seen=True):
                    if n[0] == "var":
                        tested.add(n[1])
        ok = set()
        for p in func.params:
            assigned.add(p[0])
        for v in (assigned & tested) - addr_taken:
            ok.add(v)
        return ok

    def eval(self, e, env):
        """abstract value of expression e under env: ('c',n) | ('r',key) | ('ne',n) | None"""
        e = strip(e)
        k = kind(e)
        if k == "int":
            return ("c", e[1])
        if k == "var":
            return env.get(e[1])
        if k == "asg" and e[1] == "=":
            t = strip(e[2])
            if kind(t) == "var" and t[1] in env:
                return env.get(t[1])
            return self.eval(e[3], env)
        if k == "call":
            ck = "$r:%s:%d:%d" % call_key(e)
            if ck in env:
                return env[ck]
            return ("r", call_key(e))
        if k == "cond":
            t = self.truth(e[1], env)
            if t is True:
                return self.eval(e[2], env)
            if t is False:
                return self.eval(e[3], env)
            a = self.eval(e[2], env)
            b = self.eval(e[3], env)
            return a if a == b else None
        if k == "un" and e[1] == "-":
            v = self.eval(e[2], env)
            if v and v[0] == "c":
                return ("c", -v[1])
        if k == "bin" and e[1] in ("&", "|", "+", "-", "^"):
            a, b = self.eval(e[2], env), self.eval(e[3], env)
            if a and b and a[0] == "c" and b[0] == "c":
                x, y = a[1], b[1]
                return ("c", {"&": x & y, "|": x | y, "+": x + y, "-": x - y, "^": x ^ y}[e[1]])
            if e[1] == "&" and ((a and a[0] == "c" and a[1] == 0) or (b and b[0] == "c" and b[1] == 0)):
                return ("c", 0)
        if k == "idx" or k == "mem" or k == "deref":
            p = path(e)
            if p is not None and ("$" + p) in env:
                return env["$" + p]
        return None

    def truth(self, cond, env):
        """True / False / None for a condition under env (constants, != facts and ranges only)"""
        c = strip(cond)
        if kind(c) == "un" and c[1] == "!":
            t = self.truth(c[2], env)
            return None if t is None else (not t)
        if kind(c) == "bin" and c[1] in CMP:
            v = env.get("$cmp:" + render_key(c))
            if v is not None:
                return bool(v[1])
        l, op, r = normalise_cmp(c)
        if l is None:
            return None
        rv = self.eval(r, env)
        lv = self.eval(l, env)
        if rv is None or rv[0] != "c" or lv is None:
            return None
        n = rv[1]
        if lv[0] == "c":
            return CMP[op](lv[1], n)
        if lv[0] == "ne" and lv[1] == n:
            if op == "==":
                return False
            if op == "!=":
                return True
        if lv[0] == "rng":
            lo, hi = lv[1], lv[2]
            if op == "==" and not _in_rng(lv, n):
                return False
            if op == "!=" and not _in_rng(lv, n):
                return True
            if op == "<" and hi is not None and hi < n:
                return True
            if op == "<" and lo is not None and lo >= n:
                return False
            if op == ">" and lo is not None and lo > n:
                return True
            if op == ">" and hi is not None and hi <= n:
                return False
        return None

    def _set(self, env, name, val, tracked):
        if any(k.startswith(("$" + name + "-", "$" + name + ".", "$" + name + "&", "$" + name + "[")) for k in env if k[0] == "$"):
            env = {k: v for k, v in env.items() if not k.startswith(("$" + name + "-", "$" + name + ".", "$" + name + "&", "$" + name + "["))}
        if name not in tracked:
            return env
        env = dict(env)
        if val is None:
            env.pop(name, None)
        else:
            env[name] = val
        return env

    def transfer(self, func, stmt_e, env, tracked, calls):
        """apply assignments in evaluation order"""
        for n in walk(stmt_e):
            k = n[0]
            if k == "call":
                # the call is executed (again): what an earlier execution returned says nothing about this one
                ck = "$r:%s:%d:%d" % call_key(n)
                tag = "%s@%d:%d" % (n[1], n[5], n[6])
                if ck in env or any(isinstance(x, str) and x.startswith("$cmp:") and tag in x for x in env):
                    env = {x: v for x, v in env.items() if x != ck and not (isinstance(x, str) and x.startswith("$cmp:") and tag in x)}
            if k == "asg":
                t = strip(n[2])
                if kind(t) == "var":
                    if n[1] == "=":
                        rhs = strip(n[3])
                        val = self.eval(rhs, env)
                        if kind(rhs) == "call":
                            calls[call_key(rhs)] = rhs
                        env = self._set(env, t[1], val, tracked)
                    else:
                        env = self._set(env, t[1], None, tracked)
            elif k == "incdec":
                t = strip(n[3])
                if kind(t) == "var":
                    env = self._set(env, t[1], None, tracked)
            elif k == "decl":
                for d in n[1]:
                    if d[2] is not None:
                        rhs = strip(d[2])
                        if kind(rhs) == "call":
                            calls[call_key(rhs)] = rhs
                        env = self._set(env, d[0], self.eval(rhs, env), tracked)
                    else:
                        env = self._set(env, d[0], None, tracked)
        return env

    def assume(self, func, bid, cond, pol, env, user, tracked, calls):
        """returns (env, user) or None when the edge is infeasible"""
        c = strip(cond)
        k = kind(c)
        if k == "un" and c[1] == "!":
            return self.assume(func, bid, c[2], not pol, env, user, tracked, calls)
        if k == "bin" and c[1] in ("&&", "||"):
            # a logical operator used as a value (e.g. under `!`): clang's CFG does not split it
            conj = (c[1] == "&&") == pol  # both operands have polarity `pol`
            if conj:
                r = self.assume(func, bid, c[2], pol, env, user, tracked, calls)
                if r is None:
                    return None
                return self.assume(func, bid, c[3], pol, r[0], r[1], tracked, calls)
            r1 = self.assume(func, bid, c[2], pol, env, user, tracked, calls)
            r2 = self.assume(func, bid, c[3], pol, env, user, tracked, calls)
            if r1 is None:
                return r2
            if r2 is None:
                return r1
            if r1[1] == r2[1]:
                # keep only the environment facts both alternatives agree on
                e = {k2: v for k2, v in r1[0].items() if r2[0].get(k2) == v}
                return e, r1[1]
            return env, user
        u2 = self.on_assume(func, bid, c, pol, env, user)
        if u2 is self.INFEASIBLE:
            return None
        user = u2
        if k == "bin" and c[1] in CMP and any(x[0] == "call" for x in walk(c, True)):
            # remember how this comparison came out (it is re-evaluated when a `?:` built on it is consumed)
            ck = "$cmp:" + render_key(c)
            prev = env.get(ck)
            if prev is not None and prev[1] != (1 if pol else 0):
                return None
            env = dict(env)
            env[ck] = ("c", 1 if pol else 0)
        # stable-field correlation
        lhs, op, rhs = normalise_cmp(c)
        if lhs is None:
            return env, user
        if not pol:
            op = NEG[op]
        rv = self.eval(rhs, env)
        if rv is None or rv[0] != "c":
            return env, user
        if kind(strip(lhs)) == "bin" and strip(lhs)[1] in ("&", "|", "+", "-", "^"):
            lv0 = self.eval(lhs, env)
            if lv0 is not None and lv0[0] == "c":
                if not CMP[op](lv0[1], rv[1]):
                    return None
                return env, user
        n = rv[1]
        l = strip(lhs)
        # assignment inside the condition: the variable was already set by transfer
        target = None
        if kind(l) == "asg" and l[1] == "=" and kind(strip(l[2])) == "var":
            target = strip(l[2])[1]
            lv = env.get(target) if target in tracked else self.eval(l[3], env)
        elif kind(l) == "var":
            target = l[1]
            lv = env.get(target)
        elif kind(l) == "call":
            # a call result compared in place: remember the outcome under a pseudo-variable so that a macro like
            # `(f(x) == 0 ? SUCCEED : FAIL) == FAIL` is evaluated consistently at the join
            target = "$r:%s:%d:%d" % call_key(l)
            lv = env.get(target)
            if lv is None:
                lv = ("r", call_key(l))
                calls.setdefault(call_key(l), l)
        elif kind(l) == "bin" and l[1] == "&" and kind(strip(l[2])) == "var" and is_int(l[3]) and self.eval(l, env) is None:
            # `v & CONST` on a local/parameter: remember the outcome so that a later identical test is correlated
            target = "$%s&%d" % (strip(l[2])[1], int_val(l[3]))
            lv = env.get(target)
        else:
            p = path(l)
            if p is not None and self._is_stable(l):
                target = "$" + p
                lv = env.get(target)
            else:
                lv = self.eval(l, env)
        # decide feasibility / call outcomes
        if lv is not None:
            if lv[0] == "c":
                if not CMP[op](lv[1], n):
                    return None
                return env, user
            if lv[0] == "rng":
                lo, hi = lv[1], lv[2]
                if op == "==" and not _in_rng(lv, n):
                    return None
                if op == "<" and lo is not None and lo >= n:
                    return None
                if op == "<=" and lo is not None and lo > n:
                    return None
                if op == ">" and hi is not None and hi <= n:
                    return None
                if op == ">=" and hi is not None and hi < n:
                    return None
            if lv[0] == "ne":
                if op == "==" and lv[1] == n:
                    return None
                if op == "!=" and lv[1] == n:
                    return env, user
            if lv[0] == "r":
                call = calls.get(lv[1])
                if call is None:
                    cl = strip(l)
                    if kind(cl) == "asg":
                        cl = strip(cl[3])
                    if kind(cl) == "call":
                        call = cl
                if call is not None:
                    out = outcome_of(call, op, n, self.prog)
                    if out:
                        u2 = self.on_call_outcome(func, call, out, env, user)
                        if u2 is self.INFEASIBLE:
                            return None
                        user = u2
        else:
            cl = strip(l)
            if kind(cl) == "asg":
                cl = strip(cl[3])
            if kind(cl) == "call":
                out = outcome_of(cl, op, n, self.prog)
                if out:
                    u2 = self.on_call_outcome(func, cl, out, env, user)
                    if u2 is self.INFEASIBLE:
                        return None
                    user = u2
        # refine
        if target is not None and (target in tracked or target.startswith("$")):
            cur = env.get(target)
            if op == "==":
                if cur is not None and cur[0] == "rng" and not _in_rng(cur, n):
                    return None
                env = dict(env)
                env[target] = ("c", n)
            elif op == "!=":
                if cur is None or cur[0] == "r":
                    env = dict(env)
                    env[target] = ("ne", n)
            elif op in ("<", "<=", ">", ">="):
                lo, hi = (cur[1], cur[2]) if cur is not None and cur[0] == "rng" else (None, None)
                if op == "<":
                    hi = n - 1 if hi is None else min(hi, n - 1)
                elif op == "<=":
                    hi = n if hi is None else min(hi, n)
                elif op == ">":
                    lo = n + 1 if lo is None else max(lo, n + 1)
                else:
                    lo = n if lo is None else max(lo, n)
                if lo is not None and hi is not None and lo > hi:
                    return None
                if cur is None or cur[0] in ("rng", "r"):
                    env = dict(env)
                    env[target] = ("c", lo) if (lo is not None and lo == hi) else ("rng", lo, hi)
        return env, user

    def _is_stable(self, l):
        l = strip(l)
        return kind(l) == "mem" and (l[3], l[2]) in self.stable_fields

    def run(self, func):
        self.hard_degraded = False
        tracked = self.tracked_vars(func)
        retvars = set()
        for _b, _i, _s, _n in func.nodes(into_seen=True):
            if _n[0] == "ret" and _n[1] is not None and kind(strip(_n[1])) == "var":
                retvars.add(strip(_n[1])[1])
        calls = {}
        env0 = {}
        start = (freeze(env0), self.init_user(func))
        seen = {func.entry: {start}}
        work = [(func.entry, start)]
        exits = []
        steps = 0
        while work:
            bid, st = work.pop()
            steps += 1
            if steps > self.MAX_STEPS:
                raise AnalysisBroken("state explosion in %s" % func.name)
            b = func.blocks[bid]
            env = dict(st[0])
            user = st[1]
            retval = "noret"
            for i, s in enumerate(b["s"]):
                env = self.transfer(func, s["e"], env, tracked, calls)
                user = self.on_stmt(func, bid, i, s, env, user)
                if kind(s["e"]) == "ret":
                    retval = self.eval(s["e"][1], env) if s["e"][1] is not None else ("void",)
                    if retval is None:
                        retval = ("top",)
            succs = b["succ"]
            term = b.get("term")
            if retval != "noret" or not succs or bid == func.exit:
                self.on_exit(func, bid, retval if retval != "noret" else ("void",), env, user)
                continue
            outs = []
            if term and term.get("cond") is not None and len(succs) == 2 and term["k"] != "SwitchStmt":
                for pol, sb in ((True, succs[0]), (False, succs[1])):
                    if sb < 0:
                        continue
                    r = self.assume(func, bid, term["cond"], pol, env, user, tracked, calls)
                    if r is None:
                        continue
                    outs.append((sb, r[0], r[1]))
            elif term and term["k"] == "SwitchStmt":
                cases = term.get("cases") or []
                cond = term.get("cond")
                cv = self.eval(cond, env) if cond is not None else None
                for sb, cs in zip(succs, cases):
                    if sb < 0:
                        continue
                    if cs and "case" in cs and cs["case"] is not None and cv is not None and cv[0] == "c" and "hi" not in cs:
                        if cv[1] != cs["case"]:
                            continue
                    u2 = self.on_switch_edge(func, bid, cond, cs, env, user)
                    if u2 is self.INFEASIBLE:
                        continue
                    outs.append((sb, env, u2))
            else:
                for sb in succs:
                    if sb >= 0:
                        outs.append((sb, env, user))
            for sb, e2, u2 in outs:
                ns = (freeze(e2), u2)
                ss = seen.setdefault(sb, set())
                if ns in ss:
                    continue
                if len(ss) >= self.STATE_CAP:
                    # degrade: keep only the returned variables (exit classification), forget the rest
                    ns = (freeze({k2: v for k2, v in e2.items() if k2 in retvars}), u2)
                    if ns in ss:
                        continue
                    if len(ss) >= 4 * self.STATE_CAP:
                        self.hard_degraded = True
                        ns = (freeze({}), u2)
                        if ns in ss:
                            continue
                ss.add(ns)
                work.append((sb, ns))
        return seen

    def on_switch_edge(self, func, bid, cond, case, env, user):
        return user


def _in_rng(r, n):
    return (r[1] is None or r[1] <= n) and (r[2] is None or n <= r[2])


def render_key(c):
    """stable text key of a comparison (call positions make it unique)"""
    out = []
    for x in walk(c, True):
        if x[0] == "call":
            out.append("%s@%d:%d" % (x[1], x[5], x[6]))
        elif x[0] == "int":
            out.append(str(x[1]))
        elif x[0] == "var":
            out.append(x[1])
        elif x[0] == "bin":
            out.append(x[1])
    return "|".join(out)


def freeze(env):
    return tuple(sorted(env.items()))


def call_name(call):
    """callee name, or `<field>` for a call through a record field, `<indirect>` otherwise"""
    if call[1]:
        return call[1]
    ce = strip(call[2])
    while kind(ce) == "deref":
        ce = strip(ce[1])
    if kind(ce) == "mem":
        return "<%s>" % ce[2]
    return "<indirect>"


def call_key(call):
    return (call_name(call), call[5], call[6])


CMP = {
    "==": lambda a, b: a == b,
    "!=": lambda a, b: a != b,
    "<": lambda a, b: a < b,
    "<=": lambda a, b: a <= b,
    ">": lambda a, b: a > b,
    ">=": lambda a, b: a >= b,
}
NEG = {"==": "!=", "!=": "==", "<": ">=", ">=": "<", ">": "<=", "<=": ">"}
SWAP = {"==": "==", "!=": "!=", "<": ">", ">": "<", "<=": ">=", ">=": "<="}


def normalise_cmp(c):
    """cond -> (lhs, op, rhs-const-expr) with the constant on the right; bare e -> (e,'!=',0)"""
    c = strip(c)
    if kind(c) == "bin" and c[1] in CMP:
        l, r = c[2], c[3]
        if kind(strip(r)) == "int" or (kind(strip(r)) == "un"):
            return l, c[1], r
        if kind(strip(l)) == "int":
            return r, SWAP[c[1]], l
        return None, None, None
    if kind(c) in ("var", "mem", "call", "asg", "idx", "deref") or (kind(c) == "bin" and c[1] in ("&", "|", "+", "-", "^")):
        return c, "!=", ["int", 0]
    return None, None, None


def outcome_of(call, op, n, prog):
    """Does `call <op> n` being true mean the call failed / succeeded?"""
    rt = call[4]
    if rt == "hdf_err_code_t":  # returns DFE_NONE (0) on success, an error code otherwise
        if (op == "!=" and n == 0):
            return "fail"
        if (op == "==" and n == 0):
            return "ok"
        return None
    fv = default_fail(rt, prog)
    if not fv:
        return None
    f = next(iter(fv))
    ti = prog.types.get(rt)
    if f == -1:
        if op == "==" and n == -1:
            return "fail"
        if op == "!=" and n == -1:
            return "ok"
        if op == "<" and n == 0:
            return "fail"
        if op == ">=" and n == 0:
            return "ok"
        if op == "==" and n == 0:
            return "ok"  # == SUCCEED
        if op == "!=" and n == 0:
            return "fail"  # != SUCCEED  (also `if (f())` for status functions)
        if op == "<=" and n == 0:
            return "fail?"
        if op == ">" and n == 0:
            return "ok"
        return None
    if f == 0:
        if op == "==" and n == 0:
            return "fail"
        if op == "!=" and n == 0:
            return "ok"
        if ti and ti[0] == "int":
            if op in ("<=",) and n == 0:
                return "fail"
            if op == ">" and n == 0:
                return "ok"
        return None
    return None


def classify_ret(retval, fails):
    """'fail' | 'ok' | 'unknown' for an abstract return value"""
    if retval is None or retval[0] in ("top", "r"):
        return "unknown"
    if retval[0] == "void":
        return "ok"
    if retval[0] == "c":
        return "fail" if retval[1] in fails else "ok"
    if retval[0] == "ne":
        return "ok" if retval[1] in fails and len(fails) == 1 else "unknown"
    return "unknown"
