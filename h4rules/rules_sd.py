"""C03 (rejection clause): a hyperslab request outside the current extent is refused before any element is moved.

COORDCK  in the SD/nc data drivers every data-transfer call for a non-scalar variable is reached, on every path, only after
         a call of NCcoordck that was seen to succeed since the previous transfer (must-pass-through with outcome);
         NCsimplerecio, which relies on its caller for that, is only called after such a check.
BOUNDCMP in NCcoordck, the comparison of a coordinate with the dimension size sends *equality* to the failing return
         (index == extent is outside), and a negative coordinate as well.
STRIDE   SDreaddata/SDwritedata/NCgenio reach the strided driver only after every stride component was compared with a
         lower bound on every path where a stride vector was given.
"""
from .facts import kind, strip, walk, path, render, int_val, is_int, calls_in, mem_field, base_var
from .flow import PathAnalysis, fail_values, classify_ret, call_key

TRANSFER = {"hdf_xdr_NCvdata", "xdr_NCvdata", "nssdc_xdr_NCvdata", "hdf_xdr_NCv1data", "xdr_NCv1data"}
DRIVERS = ("NCvar1io", "NCvario", "NCsimplerecio")
CHECKER = "NCcoordck"


def _fn(prog, name):
    for cand in (name, "H4_" + name, "sd_" + name):
        f = prog.func(cand)
        if f is not None:
            return f
    return None


class _CoordCk(PathAnalysis):
    """user = (checked since last transfer, on the scalar-variable path)"""

    def __init__(self, prog, entry_checked=False):
        super().__init__(prog)
        self.entry_checked = entry_checked
        self.bad = {}
        self.sites = set()
        self.delegations = {}  # calls of NCsimplerecio -> checked?

    def init_user(self, func):
        self.need_edges = func.name.endswith("NCvario")
        return (self.entry_checked, False, False)

    def _names(self, call):
        nm = call[1] or ""
        for pre in ("H4_", "sd_"):
            if nm.startswith(pre):
                return nm[len(pre):]
        return nm

    def on_call_outcome(self, func, call, outcome, env, user):
        if self._names(call) == CHECKER and outcome == "ok":
            return (True, user[1], user[2])
        if self._names(call) == "NCvcmaxcontig" and outcome == "ok":
            return (user[0], user[1], True)
        return user

    def on_assume(self, func, bid, cond, pol, env, user):
        # `vp->assoc->count == 0`: the scalar variable has no coordinates to check
        c = strip(cond)
        if kind(c) == "bin" and c[1] in ("==", "!=") and is_int(c[3]) and int_val(c[3]) == 0:
            p = path(c[2]) or ""
            if p.endswith("assoc->count"):
                if (c[1] == "==") == pol:
                    return (user[0], True, user[2])
                return (user[0], False, user[2])
        return user

    def on_stmt(self, func, bid, idx, stmt, env, user):
        checked, scalar, edges = user
        for c in calls_in(stmt["e"]):
            nm = self._names(c)
            if nm in TRANSFER:
                self.sites.add((nm, c[5], c[6]))
                if not checked and not scalar:
                    self.bad[(nm, c[5], c[6])] = "%s() at line %d can be reached without a successful %s() since the previous transfer" % (nm, c[5], CHECKER)
                if self.need_edges and not edges and not scalar:
                    self.bad[(nm, c[5], c[6])] = "%s() at line %d can be reached without NCvcmaxcontig() having accepted the edge lengths" % (nm, c[5])
                checked = False  # the coordinates move on: the next transfer needs its own check
            elif nm == "NCsimplerecio":
                k = (nm, c[5], c[6])
                self.delegations[k] = self.delegations.get(k, True) and (checked or scalar)
        return (checked, scalar, edges)


def rule_coordck(ctx):
    prog = ctx.prog
    n = 0
    deleg_ok = True
    for d in ("NCvar1io", "NCvario"):
        f = _fn(prog, d)
        if f is None:
            ctx.unrecognised("COORDCK", "COORDCK:%s" % d, "-", "data driver %s not found" % d)
            continue
        a = _CoordCk(prog)
        a.fails = {-1}
        a.run(f)
        n += len(a.sites)
        if not a.sites:
            ctx.unrecognised("COORDCK", "COORDCK:%s" % d, f.where(), "no data-transfer call found in %s" % d)
            continue
        if a.bad:
            k = sorted(a.bad)[0]
            ctx.violated("COORDCK", "COORDCK:%s" % d, f.where(k[1]), a.bad[k])
        else:
            ctx.holds("COORDCK", "COORDCK:%s" % d, f.where(), "%d transfer call(s): each one is preceded on every path by a successful %s (or the variable is scalar)" % (len(a.sites), CHECKER), nontrivial=True)
        for k, ok in a.delegations.items():
            n += 1
            if ok:
                ctx.holds("COORDCK", "COORDCK:%s->NCsimplerecio" % d, f.where(k[1]), "delegation to NCsimplerecio happens after a successful %s" % CHECKER, nontrivial=True)
            else:
                deleg_ok = False
                ctx.violated("COORDCK", "COORDCK:%s->NCsimplerecio" % d, f.where(k[1]), "NCsimplerecio (which does not check `start` itself) is called without a successful %s before it" % CHECKER)
    # NCsimplerecio itself: decided under the caller lemma; all its callers must be the delegations seen above
    f = _fn(prog, "NCsimplerecio")
    if f is None:
        ctx.unrecognised("COORDCK", "COORDCK:NCsimplerecio", "-", "NCsimplerecio not found")
    else:
        callers = [(g.name, c[5]) for g, c in prog.callers().get(f.name, [])]
        outside = [x for x in callers if not x[0].endswith("NCvario")]
        a = _CoordCk(prog, entry_checked=True)
        a.fails = {-1}
        a.run(f)
        n += len(a.sites)
        if outside:
            ctx.violated("COORDCK", "COORDCK:NCsimplerecio", f.where(), "called from %s, where the start coordinates are not known to be checked" % outside[0][0])
        elif a.bad:
            k = sorted(a.bad)[0]
            ctx.violated("COORDCK", "COORDCK:NCsimplerecio", f.where(k[1]), a.bad[k])
        else:
            ctx.holds("COORDCK", "COORDCK:NCsimplerecio", f.where(), "%d transfer call(s), one per invocation; the only caller checks `start` first" % len(a.sites), nontrivial=True)
    ctx.floor("COORDCK", 10, n, "(data-transfer calls and delegations in the nc data drivers)")
    return n


class _EqGoesToFail(PathAnalysis):
    """user = True once a coordinate/extent comparison was taken in the direction that equality takes"""

    def __init__(self, prog, coords_vars, shape_vars):
        super().__init__(prog)
        self.cv = coords_vars
        self.sv = shape_vars
        self.found = []
        self.bad = []
        self.neg = []
        self.negbad = []

    def init_user(self, func):
        return (False, False)

    def _side(self, e):
        e = strip(e)
        if kind(e) == "deref":
            v = base_var(e[1])
            if v in self.cv:
                return "c"
            if v in self.sv:
                return "s"
        return None

    def on_assume(self, func, bid, cond, pol, env, user):
        c = strip(cond)
        if kind(c) != "bin" or c[1] not in ("<", "<=", ">", ">=", "==", "!="):
            return user
        l, r = self._side(c[2]), self._side(c[3])
        eq, neg = user
        if {l, r} == {"c", "s"}:
            self.found.append(bid)
            holds_on_eq = c[1] in ("<=", ">=", "==")
            if pol == holds_on_eq:
                eq = True
        elif l == "c" and is_int(c[3]) and int_val(c[3]) == 0 and c[1] in ("<", ">="):
            self.neg.append(bid)
            # the branch a negative coordinate takes
            if pol == (c[1] == "<"):
                neg = True
        return (eq, neg)

    def on_exit(self, func, bid, retval, env, user):
        cls = classify_ret(retval, self.fails)
        if user[0] and cls != "fail":
            self.bad.append(bid)
        if user[1] and cls != "fail":
            self.negbad.append(bid)


def _derived_vars(f, seed_pred):
    """locals assigned (transitively, one pass to fixpoint) from an expression satisfying seed_pred or mentioning a derived var"""
    out = set()
    changed = True
    while changed:
        changed = False
        for _b, _i, _s, n in f.nodes(True):
            tgt = None
            rhs = None
            if n[0] == "asg" and kind(strip(n[2])) == "var":
                tgt, rhs = strip(n[2])[1], n[3]
            if tgt is None or tgt in out:
                continue
            ok = False
            for x in walk(rhs, True):
                if seed_pred(x) or (x[0] == "var" and x[1] in out):
                    ok = True
                    break
            if ok:
                out.add(tgt)
                changed = True
    return out


def rule_boundcmp(ctx):
    prog = ctx.prog
    f = _fn(prog, CHECKER)
    if f is None:
        ctx.unrecognised("BOUNDCMP", "BOUNDCMP:NCcoordck", "-", "NCcoordck not found")
        return 0
    coords_param = f.params[2][0] if len(f.params) >= 3 else None
    cv = _derived_vars(f, lambda x: x[0] == "var" and x[1] == coords_param) | {coords_param}
    sv = _derived_vars(f, lambda x: x[0] == "mem" and x[2] == "shape")
    a = _EqGoesToFail(prog, cv, sv)
    a.fails = {0}
    a.run(f)
    if not a.found:
        ctx.unrecognised("BOUNDCMP", "BOUNDCMP:NCcoordck:extent", f.where(), "no comparison of a coordinate with a dimension size found")
    elif a.bad:
        ctx.violated("BOUNDCMP", "BOUNDCMP:NCcoordck:extent", f.where(), "a coordinate equal to the dimension size can reach a non-failing return of NCcoordck: index == extent lies outside the array")
    else:
        ctx.holds("BOUNDCMP", "BOUNDCMP:NCcoordck:extent", f.where(), "coordinate == dimension size always ends in `return FALSE`", nontrivial=True)
    if not a.neg:
        ctx.unrecognised("BOUNDCMP", "BOUNDCMP:NCcoordck:negative", f.where(), "no comparison of a coordinate with 0 found")
    elif a.negbad:
        ctx.violated("BOUNDCMP", "BOUNDCMP:NCcoordck:negative", f.where(), "a negative coordinate can reach a non-failing return of NCcoordck")
    else:
        ctx.holds("BOUNDCMP", "BOUNDCMP:NCcoordck:negative", f.where(), "a negative coordinate always ends in `return FALSE`", nontrivial=True)
    return 2


def _last_iter_flags(ast):
    """(variable, assignment node) for every truth-valued local that a break-free loop overwrites unconditionally on each
    iteration without reading it (neither in the body nor in the loop's own condition): only the last iteration counts"""
    from .codec import ast_walk
    loops = []

    def vis(n, st):
        if n[0] in ("for", "while"):
            loops.append(n)
        return True
    ast_walk(ast, vis)
    out = []
    for lp in loops:
        body = lp[4] if lp[0] == "for" else lp[2]
        stmts = body[1] if body[0] == "block" else [body]
        leaves = [False]

        def vb(n, st):
            if n[0] in ("break", "goto") or (n[0] == "s" and kind(n[1]) == "ret"):
                leaves[0] = True
            return True
        ast_walk(body, vb)
        if leaves[0]:
            continue
        for s in stmts:
            if not (s[0] == "s" and kind(s[1]) == "asg" and s[1][1] == "=" and kind(strip(s[1][2])) == "var"):
                continue
            v = strip(s[1][2])[1]
            e = strip(s[1][3])
            if not (kind(e) == "bin" and e[1] in ("==", "!=", "<", ">", "<=", ">=", "&&", "||")):
                continue
            if any(x[0] == "var" and x[1] == v for x in walk(e, True)):
                continue
            reads = [0]

            def vr(n, st):
                if n[0] == "s":
                    reads[0] += sum(1 for x in walk(n[1], True) if x[0] == "var" and x[1] == v)
                elif n[0] in ("if", "while", "switch"):
                    reads[0] += sum(1 for x in walk(n[1], True) if x[0] == "var" and x[1] == v)
                elif n[0] == "for":
                    for part in n[1:4]:
                        if part:
                            reads[0] += sum(1 for x in walk(part, True) if x[0] == "var" and x[1] == v)
                return True
            ast_walk(body, vr)
            own = 0
            for part in (lp[1:4] if lp[0] == "for" else [lp[1]]):
                if part:
                    own += sum(1 for x in walk(part, True) if x[0] == "var" and x[1] == v)
            if reads[0] == 1 and own == 0:
                out.append((v, s[1]))
    return out


def rule_last_iteration_flag(ctx):
    """LASTITER: a flag that must hold for *every* element (all strides are 1, all dimensions are in range ...) is
    accumulated over a loop; assigning it unconditionally from the current element alone makes only the last iteration
    count.  Instances = loops of the library and tools that assign a truth value to a local; the expected number of
    matches is zero, so the matcher is exercised on a built-in positive example on every run."""
    # built-in positive example: for (i = 0; i < n; i++) ok = (a[i] == 1);
    i_ = ["var", "i", "l", "int"]
    ex = ["block", [["for", ["asg", "=", i_, ["int", 0], 1, "int"], ["bin", "<", i_, ["var", "n", "l", "int"], "int"], ["incdec", "++", False, i_, 1, "int"],
                     ["s", ["asg", "=", ["var", "ok", "l", "int"], ["bin", "==", ["idx", ["var", "a", "l", "int *"], i_, "int"], ["int", 1], "int"], 2, "int"], 2, 1, []], 1, 1, []]], 1, 1, []]
    if [v for v, _ in _last_iter_flags(ex)] != ["ok"]:
        ctx.unrecognised("LASTITER", "LASTITER:selftest", "-", "the matcher no longer recognises its built-in positive example")
    n = 0
    for f in ctx.prog.funcs:
        ast = f.raw.get("ast")
        if not ast:
            continue
        n += 1
        for v, a in _last_iter_flags(ast):
            ctx.violated("LASTITER", "LASTITER:%s:%s" % (f.name, v), f.where(a[4]), "`%s` is overwritten on every iteration from the current element only (%s): after the loop it reflects the last element, "
                         "not all of them" % (v, render(a)[:70]))
    ctx.holds("LASTITER", "LASTITER:all", "-", "%d functions scanned: no loop overwrites a truth-valued flag from the current element alone" % n, nontrivial=False)
    ctx.floor("LASTITER", 1000, n, "(functions scanned)")
    return n


# ---------------------------------------------------------------------------------------
def rule_unlimited_size_per_variable(ctx):
    """UNLIMSIZE (C03, C15): in an HDF file every record variable has its own record count (`var->numrecs`); the file-wide
    `handle->numrecs` is the count of a netCDF file (and the maximum over the variables of an HDF file).  Wherever the extent of
    a *variable's* unlimited dimension (`var->shape[k] == NC_UNLIMITED`) is replaced by the current size, `handle->numrecs`
    may be read only on the branch where the file is not an HDF file; using it for an HDF file gives a variable the length
    of the longest variable of the file (in validation, in the reported dimensions and in the NDG written for DFSD readers)."""
    from .codec import ast_walk, ast_exprs
    from .facts import int_name, base_var
    prog = ctx.prog
    n = 0
    for f in prog.lib_funcs():
        if not f.rel.startswith("mfhdf/src/"):
            continue
        # variables / arrays that hold values of var->shape[...]
        shapev = set()
        for _b, _i, _s, x in f.nodes(True):
            if x[0] == "asg" and x[1] == "=" and any(y[0] == "mem" and y[2] == "shape" for y in walk(x[3], True)):
                b = base_var(x[2])
                if b:
                    shapev.add(b)
            elif x[0] == "decl":
                for d in x[1]:
                    if d[2] is not None and any(y[0] == "mem" and y[2] == "shape" for y in walk(d[2], True)):
                        shapev.add(d[0])
        found = []

        def vis(nn, st):
            if nn[0] == "if":
                c = strip(nn[1])
                if kind(c) == "bin" and c[1] == "==" and int_name(c[3]) == "NC_UNLIMITED":
                    l = strip(c[2])
                    if any(y[0] == "mem" and y[2] == "shape" for y in walk(l, True)) or base_var(l) in shapev:
                        found.append(nn)
            return True
        ast_walk(f.raw.get("ast"), vis)
        for k, nn in enumerate(found):
            reads = []

            def vis2(m, st):
                if m[0] in ("s", "if", "while", "for", "switch", "do"):
                    exprs = [m[1]] if m[0] in ("s", "if", "while", "switch") else []
                    for e in exprs:
                        for y in walk(e, True):
                            if y[0] == "mem" and y[2] == "numrecs" and y[3] == "NC":
                                # guarded by a file_type test on the way down?
                                ok = False
                                for a, child in zip(st, st[1:] + [m]):
                                    if a[0] == "if":
                                        ac = strip(a[1])
                                        if kind(ac) == "bin" and ac[1] in ("==", "!=") and any(z[0] == "mem" and z[2] == "file_type" for z in walk(ac, True)) and int_name(ac[3]) == "HDF_FILE":
                                            in_then = child is a[2]
                                            if (ac[1] == "==" and not in_then) or (ac[1] == "!=" and in_then):
                                                ok = True
                                reads.append((ok, y))
                return True
            ast_walk(nn[2], vis2, [])
            if not reads:
                continue
            n += 1
            key = "UNLIMSIZE:%s#%d" % (f.name, k + 1)
            line = nn[4] if len(nn) > 4 else f.line
            if all(ok for ok, _ in reads):
                ctx.holds("UNLIMSIZE", key, f.where(line), "handle->numrecs is read only where the file is not an HDF file; HDF files use the variable's own record count", nontrivial=True)
            else:
                ctx.violated("UNLIMSIZE", key, f.where(line), "the size of a variable's unlimited dimension is taken from handle->numrecs without (or on the wrong side of) a `file_type == HDF_FILE` test: "
                             "in an HDF file the variable gets the record count of the longest variable in the file")
    ctx.floor("UNLIMSIZE", 3, n, "(substitutions of a variable's unlimited extent)")
    return n


def rule_presize_condition(ctx):
    """SETLEN (C03): in no-fill mode the data element of a fixed-size data set is given its full length before the first write
    (`set_length`), so that a first write anywhere inside the array can seek to its place.  Whether that is still to be done
    is a fact about the file — the data set has no data element yet (`data_ref == 0`) — and not about the session: `created`
    is only set by SDcreate in the creating session.  The test guarding `set_length = TRUE` must therefore look at data_ref."""
    from .codec import ast_walk, ast_exprs
    prog = ctx.prog
    n = 0
    for f in prog.lib_funcs():
        if not f.rel.endswith("mfsd.c"):
            continue
        found = []

        def vis(nn, st):
            if nn[0] == "s":
                for x in walk(nn[1], True):
                    if x[0] == "asg" and x[1] == "=" and (mem_field(x[2]) or (0, 0))[1] == "set_length" and not is_int(x[3], 0):
                        outer = [a for a in st if a[0] == "if"]
                        found.append((x, outer))
            return True
        ast_walk(f.raw.get("ast"), vis)
        for x, outer in found:
            n += 1
            key = "SETLEN:%s" % f.name
            if any(any(y[0] == "mem" and y[2] == "data_ref" for y in walk(a[1], True)) for a in outer):
                ctx.holds("SETLEN", key, f.where(x[4]), "pre-sizing is decided by `data_ref` (no data element yet), not only by the per-session flag", nontrivial=True)
            else:
                ctx.violated("SETLEN", key, f.where(x[4]), "`set_length = TRUE` is guarded only by %s: a data set that was created in an earlier session and has no data yet is never pre-sized, "
                             "and a first no-fill write that does not start at the beginning fails" % (" && ".join(render(a[1])[:40] for a in outer) or "nothing"))
    ctx.floor("SETLEN", 1, n, "(stores of set_length = TRUE)")
    return n


class _SetLenUse(PathAnalysis):
    def __init__(self, prog):
        super().__init__(prog)
        self.bad = []
        self.ios = 0

    def init_user(self, func):
        return False

    def on_assume(self, func, bid, cond, pol, env, user):
        if any(y[0] == "mem" and y[2] == "set_length" for y in walk(cond, True)):
            return True
        return user

    def on_stmt(self, func, bid, idx, stmt, env, user):
        for c in calls_in(stmt["e"]):
            if c[1] == "hdf_get_vp_aid":
                user = True  # opens the element and consumes a pending request itself
            elif c[1] in ("Hseek", "Hwrite") and c[3] and (mem_field(c[3][0]) or (0, 0))[1] == "aid":
                self.ios += 1
                if not user:
                    self.bad.append(c[5])
        return user


def rule_presize_consumed(ctx):
    """SETLENUSE (C03): SDwritedata only *requests* the pre-sizing (`set_length`); it is carried out where the data element
    is used.  The element may already be open (an earlier read of the still empty data set opened it), in which case the
    routine that opens elements never sees the request.  Every path of hdf_xdr_NCvdata that reaches a seek or write on the
    variable's element has therefore either opened the element through hdf_get_vp_aid or tested `set_length` itself."""
    prog = ctx.prog
    f = prog.func("hdf_xdr_NCvdata")
    if f is None:
        ctx.unrecognised("SETLENUSE", "SETLENUSE:hdf_xdr_NCvdata", "-", "hdf_xdr_NCvdata not found")
        return 0
    a = _SetLenUse(prog)
    a.fails = fail_values(f, prog)
    a.run(f)
    key = "SETLENUSE:hdf_xdr_NCvdata"
    if not a.ios:
        ctx.unrecognised("SETLENUSE", key, f.where(), "no Hseek/Hwrite on vp->aid found")
    elif a.bad:
        ctx.violated("SETLENUSE", key, f.where(min(a.bad)), "the element is positioned or written (line %d) on a path that neither opened it through hdf_get_vp_aid nor looked at `set_length`: "
                     "when a read opened the element first, the pending pre-sizing is never carried out and the first no-fill write inside the array fails" % min(a.bad))
    else:
        ctx.holds("SETLENUSE", key, f.where(), "a pending pre-sizing request is seen before every seek/write on the element (%d sites)" % a.ios, nontrivial=True)
    return 1


def rule_contiguity_full_extent(ctx):
    """CONTIG (C03): NCvcmaxcontig finds the slowest dimension from which a hyperslab is one contiguous run of the file.  A
    dimension can be merged with the next slower one only when the slab covers it completely, i.e. its edge equals the whole
    dimension.  The test that stops the merge therefore compares the edge with the dimension size alone; if it is made relative
    to the start coordinate (`shape - origin`, the quantity of the range check just before it), a slab that starts inside a row
    and runs to its end is taken for a full row and continues at the beginning of the next row instead of at its own column."""
    from .codec import ast_walk
    prog = ctx.prog
    f = prog.func("NCvcmaxcontig")
    key = "CONTIG:NCvcmaxcontig"
    if f is None:
        ctx.unrecognised("CONTIG", key, "-", "NCvcmaxcontig not found")
        return 0
    origin = f.params[2][0] if len(f.params) > 2 else "origin"
    # locals that walk the origin array
    orig_vars = {origin}
    for _b, _i, _s, x in f.nodes(True):
        if x[0] == "asg" and x[1] == "=" and kind(strip(x[2])) == "var" and any(y[0] == "var" and y[1] in orig_vars for y in walk(x[3], True)):
            orig_vars.add(strip(x[2])[1])
    stops = []

    def vis(nn, st):
        if nn[0] == "if" and any(a[0] == "for" for a in st):
            then = nn[2]
            kids = then[1] if then[0] == "block" else [then]
            if any(k[0] == "break" for k in kids):
                stops.append(nn)
        return True
    ast_walk(f.raw.get("ast"), vis)
    if not stops:
        ctx.unrecognised("CONTIG", key, f.where(), "no `if (...) break;` in the dimension loop")
        return 0
    bad = [s for s in stops if any(y[0] == "var" and y[1] in orig_vars for y in walk(s[1], True))]
    if bad:
        ctx.violated("CONTIG", key, f.where(bad[0][4]), "the test that ends the merge of dimensions, `%s`, depends on the start coordinate: a slab from a non-zero start to the end of a "
                     "dimension is treated as covering the whole dimension" % render(bad[0][1])[:60])
    else:
        ctx.holds("CONTIG", key, f.where(stops[0][4]), "`%s` compares the edge with the full dimension" % render(stops[0][1])[:50], nontrivial=True)
    return 1


def _limit_names(f, lo=None, hi=None):
    """names of H4_MAX_* constants compared in branch conditions of f (optionally restricted to a line interval)"""
    from .facts import int_name
    out = set()
    for b in f.blocks.values():
        t = b.get("term")
        if not t or t.get("cond") is None:
            continue
        ln = t.get("l") or 0
        if (lo is not None and ln < lo) or (hi is not None and ln >= hi):
            continue
        for y in walk(t["cond"], True):
            nm = int_name(y) if y[0] == "int" else None
            if nm and nm.startswith("H4_MAX"):
                out.add(nm)
    return out


def rule_refuse_before_mutation(ctx):
    """REFUSEFIRST (C20): SDcreate appends the new data set's dimensions to the file's dimension list before it creates the
    variable.  A request that exceeds a documented maximum (rank, name length, number of data sets) must be refused before that
    first mutation — otherwise the refused call leaves dimensions behind, later data sets get shifted dimension names and SDend
    writes orphans.  Every H4_MAX_* limit that SDcreate or a routine it calls after the mutation compares against is therefore
    also compared in SDcreate before the mutation."""
    prog = ctx.prog
    f = prog.func("SDcreate")
    key = "REFUSEFIRST:SDcreate"
    if f is None:
        ctx.unrecognised("REFUSEFIRST", key, "-", "SDcreate not found")
        return 0
    muts = [c[5] for _b, _i, _s, c in f.calls() if c[1] in ("NC_incr_array", "NC_new_array", "H4_NC_incr_array", "H4_NC_new_array")
            and any(y[0] == "mem" and y[2] == "dims" for a in c[3] for y in walk(a, True))]
    muts += [x[4] for _b, _i, _s, x in f.nodes(True) if x[0] == "asg" and (mem_field(x[2]) or (0, 0))[1] == "dims" and (mem_field(x[2]) or (0, 0))[0] == "NC"]
    if not muts:
        ctx.unrecognised("REFUSEFIRST", key, f.where(), "no mutation of handle->dims found")
        return 0
    first = min(muts)
    pre = _limit_names(f, hi=first)
    post = _limit_names(f, lo=first)
    via = {}
    seen = set()
    work = [(c[1], 0) for _b, _i, _s, c in f.calls() if c[5] >= first and c[1]]
    while work:
        nm, d = work.pop()
        if nm in seen or d > 2:
            continue
        seen.add(nm)
        g = prog.func(nm) or prog.func("H4_" + nm)
        if g is None or g.name == f.name:
            continue
        for l in _limit_names(g):
            via.setdefault(l, g.name)
        work.extend((c[1], d + 1) for _b, _i, _s, c in g.calls() if c[1])
    late = sorted((post | set(via)) - pre)
    if late:
        ctx.violated("REFUSEFIRST", key, f.where(first), "the limit(s) %s are enforced only after the data set's dimensions have been appended to the file's dimension list (line %d)%s: "
                     "a refused SDcreate leaves those dimensions in the file" % (", ".join(late), first, "".join("; %s in %s" % (l, via[l]) for l in late if l in via)))
    else:
        ctx.holds("REFUSEFIRST", key, f.where(first), "%s are all checked before the first mutation of the dimension list" % ", ".join(sorted(post | set(via))), nontrivial=True)
    return 1


def rule_shape_needs_rank(ctx):
    """SHAPE0 (C03): a rank-0 (scalar) variable has no shape array (`shape == NULL`).  In the public SD functions every read of
    `var->shape[k]` is therefore enclosed by something that implies rank > 0: a loop or a test over `assoc->count` / the rank, a
    test of `shape` itself, or a test of the dimension id that was used to find the variable."""
    from .codec import ast_walk
    prog = ctx.prog
    n = 0
    for f in prog.lib_funcs():
        if not f.rel.endswith("mfsd.c") or not prog.is_public(f.name):
            continue
        sites = []
        # locals loaded with the variable's rank
        rank_vars = {"rank", "dim", "dimindex", "dimidx"}
        for _b, _i, _s, x in f.nodes(True):
            if x[0] == "asg" and x[1] == "=" and kind(strip(x[2])) == "var" and any(y[0] == "mem" and y[2] == "count" for y in walk(x[3], True)):
                rank_vars.add(strip(x[2])[1])
        # early exits taken when the variable has no shape: `if (var->shape == NULL) { ...; goto done; }`
        early = []

        def ve(nn, st):
            if nn[0] == "if" and any(y[0] == "mem" and y[2] == "shape" for y in walk(nn[1], True)):
                leaves = []

                def vl(m, st2):
                    if m[0] == "goto" or (m[0] == "s" and kind(m[1]) == "ret"):
                        leaves.append(m)
                    return True
                ast_walk(nn[2], vl, [])
                if leaves:
                    early.append(nn[4])
            return True
        ast_walk(f.raw.get("ast"), ve)

        def implies_rank(e):
            for y in walk(e, True):
                if y[0] == "mem" and y[2] in ("count", "shape", "ndims"):
                    return True
                if y[0] == "var" and y[1] in rank_vars:
                    return True
            return False

        def vis(nn, st):
            exprs = []
            if nn[0] in ("s", "if", "while", "switch"):
                exprs = [nn[1]]
            elif nn[0] == "for":
                exprs = [x for x in nn[1:4] if x is not None]
            for e in exprs:
                for x in walk(e, True):
                    if x[0] == "idx" and (mem_field(x[1]) or (0, 0)) == ("NC_var", "shape"):
                        guards = [a for a in st if a[0] in ("if", "for", "while")]
                        ok = any(implies_rank(a[1] if a[0] != "for" else (a[2] or ["int", 0])) for a in guards)
                        # `(shape != NULL) ? shape[0] : ..` inside the same expression (IS_RECVAR)
                        for y in walk(e, True):
                            if y[0] == "cond" and implies_rank(y[1]) and any(z is x for z in walk(y[2], True)):
                                ok = True
                            if y[0] == "bin" and y[1] == "&&" and implies_rank(y[2]) and any(z is x for z in walk(y[3], True)):
                                ok = True
                        if nn[0] == "for" and implies_rank(nn[2] or ["int", 0]):
                            ok = True
                        ln = nn[-3] if isinstance(nn[-3], int) else 0
                        if any(l < ln for l in early):
                            ok = True
                        sites.append((x, nn, ok))
            return True
        ast_walk(f.raw.get("ast"), vis)
        for k, (x, nn, ok) in enumerate(sites):
            n += 1
            key = "SHAPE0:%s#%d" % (f.name, k + 1)
            line = nn[-3] if isinstance(nn[-3], int) else f.line
            if ok:
                ctx.holds("SHAPE0", key, f.where(line), "`%s` is read under a test that implies rank > 0" % render(x)[:30], nontrivial=True)
            else:
                ctx.violated("SHAPE0", key, f.where(line), "`%s` is read without anything that implies the variable has a dimension: for a rank-0 data set `shape` is NULL" % render(x)[:30])
    ctx.floor("SHAPE0", 3, n, "(reads of var->shape[k] in the public SD functions)")
    return n


class _FillBuf(PathAnalysis):
    """user = (buffer that last received data, frozenset of (alias, buffer))"""
    TEMPS = ("tBuf", "tValues")

    def __init__(self, prog):
        super().__init__(prog)
        self.sites = {}

    def init_user(self, func):
        return (None, frozenset())

    def on_stmt(self, func, bid, idx, stmt, env, user):
        last, al = user
        al = dict(al)
        for x in walk(stmt["e"]):
            if x[0] == "call":
                if x[1] in ("HDmemfill", "NC_arrayfill", "H4_NC_arrayfill") and x[3] and base_var(x[3][0]) in self.TEMPS:
                    last = base_var(x[3][0])
                elif x[1] == "DFKconvert" and len(x[3]) >= 2 and base_var(x[3][1]) in self.TEMPS:
                    last = base_var(x[3][1])
                elif x[1] == "Hwrite" and len(x[3]) >= 3:
                    b = base_var(x[3][2])
                    b = al.get(b, b)
                    if b in self.TEMPS:
                        k = (x[5], x[6])
                        ok = (b == last)
                        self.sites[k] = self.sites.get(k, True) and ok
            elif x[0] == "asg" and x[1] == "=" and kind(strip(x[2])) == "var":
                r = base_var(x[3])
                v = strip(x[2])[1]
                if r in self.TEMPS:
                    al[v] = r
                else:
                    al.pop(v, None)
        return (last, frozenset(al.items()))


def rule_written_buffer_is_filled(ctx):
    """FILLBUF (C03): hdf_xdr_NCvdata fills the gaps before and after a first write with the fill value.  It prepares the pattern in
    one temporary buffer and, when the stored byte order differs from the host's, converts it into a second one.  The buffer
    handed to Hwrite must on every path be the one that received the pattern last — the conversion's destination when a
    conversion ran, the filled buffer itself otherwise.  Writing the other buffer stores zeros or stale bytes as 'fill' for
    native and little-endian types."""
    prog = ctx.prog
    f = prog.func("hdf_xdr_NCvdata")
    if f is None:
        ctx.unrecognised("FILLBUF", "FILLBUF:hdf_xdr_NCvdata", "-", "hdf_xdr_NCvdata not found")
        return 0
    a = _FillBuf(prog)
    a.fails = fail_values(f, prog)
    a.run(f)
    n = 0
    for k, ok in sorted(a.sites.items()):
        n += 1
        key = "FILLBUF:hdf_xdr_NCvdata#%d" % n
        if ok:
            ctx.holds("FILLBUF", key, f.where(k[0]), "the temporary buffer written is the one that was filled/converted last on every path", nontrivial=True)
        else:
            ctx.violated("FILLBUF", key, f.where(k[0]), "on some path the temporary buffer handed to Hwrite is not the one that last received the fill pattern (the other buffer was filled, "
                         "or no conversion ran into this one): zeros or stale bytes are stored as fill values")
    ctx.floor("FILLBUF", 2, n, "(writes of the temporary fill buffers)")
    return n


def rule_handle_numrecs_guarded(ctx):
    """UNLIMSIZE2 (C03, C10, C15): in the SD interface (mfsd.c) every read of the file-wide record count `handle->numrecs` sits on
    the not-an-HDF-file side of a `file_type` test.  For HDF files the count of the variable at hand (`var->numrecs`) is the one
    that is true of that variable; the file-wide count is the maximum over all record variables."""
    from .codec import ast_walk
    from .facts import int_name
    prog = ctx.prog
    n = 0
    for f in prog.lib_funcs():
        if not f.rel.endswith("mfsd.c"):
            continue
        sites = []

        def vis(nn, st):
            exprs = [nn[1]] if nn[0] in ("s", "if", "while", "switch") else []
            for e in exprs:
                for y in walk(e, True):
                    if y[0] == "mem" and y[2] == "numrecs" and y[3] == "NC":
                        ok = False
                        chain = st + [nn]
                        for a, child in zip(chain, chain[1:]):
                            if a[0] != "if":
                                continue
                            ac = strip(a[1])
                            if kind(ac) == "bin" and ac[1] in ("==", "!=") and any(z[0] == "mem" and z[2] == "file_type" for z in walk(ac, True)) and int_name(ac[3]) == "HDF_FILE":
                                in_then = child is a[2]
                                if (ac[1] == "==" and not in_then) or (ac[1] == "!=" and in_then):
                                    ok = True
                        sites.append((nn, ok))
            return True
        ast_walk(f.raw.get("ast"), vis, [])
        for k, (nn, ok) in enumerate(sites):
            n += 1
            key = "UNLIMSIZE2:%s#%d" % (f.name, k + 1)
            line = nn[-3] if isinstance(nn[-3], int) else f.line
            if ok:
                ctx.holds("UNLIMSIZE2", key, f.where(line), "handle->numrecs is read on the netCDF side of a file_type test", nontrivial=True)
            else:
                ctx.violated("UNLIMSIZE2", key, f.where(line), "handle->numrecs (the file-wide record count) is read where the file may be an HDF file: a variable or dimension scale is given the "
                             "length of the longest record variable in the file")
    ctx.floor("UNLIMSIZE2", 3, n, "(reads of handle->numrecs in mfsd.c)")
    return n


def rule_piecewise_loop_clamped(ctx):
    """PIECECLAMP (C03, C04): the gap before (and after) a first write is filled in pieces: `write piece bytes; remaining -= piece;`
    until nothing remains.  The last piece is shorter, so each such loop re-clamps the piece to what remains
    (`piece = MIN(piece, remaining)`); without it the last pass writes a full piece, the element's position runs past the place
    where the caller's data belongs and the data lands in the wrong rows."""
    from .codec import ast_walk, ast_exprs
    prog = ctx.prog
    f = prog.func("hdf_xdr_NCvdata")
    if f is None:
        ctx.unrecognised("PIECECLAMP", "PIECECLAMP:hdf_xdr_NCvdata", "-", "hdf_xdr_NCvdata not found")
        return 0
    loops = []

    def vis(nn, st):
        if nn[0] in ("while", "do", "for"):
            loops.append(nn)
        return True
    ast_walk(f.raw.get("ast"), vis)
    n = 0
    for lp in loops:
        body = lp[4] if lp[0] == "for" else (lp[2] if lp[0] == "while" else lp[1])
        exprs = [x for e in ast_exprs(body) for x in walk(e, True)]
        decs = [(strip(x[2])[1], strip(x[3])[1]) for x in exprs if x[0] == "asg" and x[1] == "-=" and kind(strip(x[2])) == "var" and kind(strip(x[3])) == "var"]
        for rem, piece in decs:
            writes = [x for x in exprs if x[0] == "call" and x[1] == "Hwrite" and len(x[3]) >= 2 and kind(strip(x[3][1])) == "var" and strip(x[3][1])[1] == piece]
            if not writes:
                continue
            n += 1
            key = "PIECECLAMP:hdf_xdr_NCvdata#%d" % n
            clamp = [x for x in exprs if x[0] == "asg" and x[1] == "=" and kind(strip(x[2])) == "var" and strip(x[2])[1] == piece and any(y[0] == "var" and y[1] == rem for y in walk(x[3], True))]
            if clamp:
                ctx.holds("PIECECLAMP", key, f.where(writes[0][5]), "`%s` is re-clamped to `%s` in the loop" % (piece, rem), nontrivial=True)
            else:
                ctx.violated("PIECECLAMP", key, f.where(writes[0][5]), "the loop writes `%s` bytes per pass and counts `%s` down, but never re-clamps `%s` to what remains: the last pass writes a full "
                             "piece beyond the gap" % (piece, rem, piece))
    ctx.floor("PIECECLAMP", 2, n, "(piecewise fill loops)")
    return n


def rule_rank_fits_arrays(ctx):
    """RANKBOUND (C20): the SD routines keep per-dimension values of one data set in local arrays of a fixed size (`long Start[N]`)
    and fill them in a loop over the data set's rank.  The rank is fixed at creation and nothing later checks it, so the one
    gate — the failing comparison `rank > K` in SDcreate — must use a K no larger than the smallest such array: with a larger K a
    data set is created whose later reads and writes run over those arrays."""
    import re
    from .facts import kind, strip, walk, render, is_int, int_val, int_name
    prog = ctx.prog
    smallest = None
    where = None
    arrays = 0
    for f in prog.lib_funcs():
        if not f.rel.endswith("mfhdf/src/mfsd.c"):
            continue
        loopvars = set()
        for b in f.blocks.values():
            t = b.get("term")
            if t and t.get("cond") is not None:
                c = strip(t["cond"])
                if kind(c) == "bin" and c[1] in ("<", "<=") and kind(strip(c[2])) == "var" and "count" in render(c[3]):
                    loopvars.add(strip(c[2])[1])
        if not loopvars:
            continue
        for _b, _i, s, x in f.nodes(True):
            if x[0] == "idx" and kind(strip(x[1])) == "var" and strip(x[1])[2] == "l" and kind(strip(x[2])) == "var" and strip(x[2])[1] in loopvars:
                m = re.search(r"\[(\d+)\]$", strip(x[1])[3] or "")
                if m:
                    arrays += 1
                    v = int(m.group(1))
                    if smallest is None or v < smallest:
                        smallest, where = v, "%s:%s" % (f.name, strip(x[1])[1])
    g = prog.func("SDcreate")
    if g is None or smallest is None:
        ctx.unrecognised("RANKBOUND", "RANKBOUND:SDcreate", "-", "SDcreate or the per-dimension arrays were not found")
        return 0
    gate = None
    for b in g.blocks.values():
        t = b.get("term")
        if t and t.get("cond") is not None:
            for c in walk(t["cond"], True):
                if c[0] == "bin" and c[1] in (">", ">=") and kind(strip(c[2])) == "var" and strip(c[2])[1] == "rank" and is_int(c[3]) and (int_name(c[3]) or int_val(c[3]) >= 8):
                    k = int_val(c[3]) - (1 if c[1] == ">=" else 0)
                    if gate is None or k < gate[0]:
                        gate = (k, int_name(c[3]) or str(int_val(c[3])), t.get("l", g.line))
    key = "RANKBOUND:SDcreate:rank"
    if gate is None:
        ctx.violated("RANKBOUND", key, g.where(), "SDcreate does not compare `rank` with an upper limit, but %d per-dimension arrays of the SD routines hold at most %d entries (%s)" % (arrays, smallest, where))
    elif gate[0] > smallest:
        ctx.violated("RANKBOUND", key, g.where(gate[2]), "SDcreate admits a rank of up to %d (%s), but the per-dimension arrays of the SD routines hold %d entries (%s): reads and writes of such a data set run over them" % (gate[0], gate[1], smallest, where))
    else:
        ctx.holds("RANKBOUND", key, g.where(gate[2]), "rank is limited to %d (%s); the smallest per-dimension array holds %d entries (%d array uses checked)" % (gate[0], gate[1], smallest, arrays), nontrivial=True)
    ctx.floor("RANKBOUND", 6, arrays, "(per-dimension local arrays indexed up to the rank)")
    return 1


def rule_empty_request_tested(ctx):
    """EMPTYREQ (C03): NCgenio walks a strided request with an 'odometer' loop that has no entry condition: it transfers one element
    (NCvario) and only then advances the indices and tests for the end.  Such a loop transfers at least one element whatever the
    counts are, so a request that selects nothing (a count of 0 along some dimension) must be turned away before the loop: a test
    of the per-dimension counts against 0 whose arm returns, ahead of the loop in the same routine."""
    from .codec import ast_walk
    from .facts import kind, strip, walk, render, is_int, calls_in, base_var
    prog = ctx.prog
    n = 0
    for f in prog.lib_funcs():
        if not f.rel.startswith("mfhdf/src/putget") or not f.raw.get("ast"):
            continue
        order = []
        ast_walk(f.raw["ast"], lambda nd, st: (order.append((nd, list(st))), True)[1])
        for i, (nd, st) in enumerate(order):
            if nd[0] != "for" or nd[2] is not None:
                continue
            body = nd[4]
            kids = body[1] if body and body[0] == "block" else [body]
            if not kids or kids[0][0] != "s" or not any(c[1] in ("NCvario", "H4_NCvario") for c in calls_in(kids[0][1], True)):
                continue
            n += 1
            key = "EMPTYREQ:%s" % f.name
            line = nd[-3] if isinstance(nd[-3], int) else f.line
            # arrays loaded from the `count` parameter
            cnt = {"count"}
            for _b, _i, _s, x in f.nodes(True):
                if x[0] == "asg" and x[1] == "=" and kind(strip(x[2])) == "idx" and any(y[0] == "var" and y[1] == "count" for y in walk(x[3], True)):
                    cnt.add(base_var(x[2]))
            ok = False
            for nd2, st2 in order[:i]:
                if nd2[0] != "if":
                    continue
                c = strip(nd2[1])
                tested = any(y[0] == "bin" and y[1] in ("==", "<=", "<") and kind(strip(y[2])) == "idx" and base_var(y[2]) in cnt and is_int(y[3]) for y in walk(c, True))
                arm = nd2[2]
                leaves = arm[1] if arm[0] == "block" else [arm]
                returns = any(k[0] == "s" and kind(k[1]) == "ret" for k in leaves)
                if tested and returns:
                    ok = True
            if ok:
                ctx.holds("EMPTYREQ", key, f.where(line), "the counts are tested against 0 (and the routine returns) before the loop that transfers before it tests", nontrivial=True)
            else:
                ctx.violated("EMPTYREQ", key, f.where(line), "this loop transfers one element with NCvario before it tests its stop condition, and nothing ahead of it turns away a request whose count is 0: an empty strided request still writes (or reads) one element")
    ctx.floor("EMPTYREQ", 1, n, "(transfer loops without an entry condition)")
    return n


def rule_api_name_set(ctx):
    """APINAME (C03): the netCDF core decides one thing by the name of the API routine that is running: NCcoordck lets a *netCDF*
    call that reaches beyond the records of an unlimited variable grow the variable (fill records are written and the call
    succeeds), while for an SD call the same request fails — it asks `nc_API(cdf_routine_name)`.  `cdf_routine_name` is a global
    that every entry point sets; an SD entry point that can reach NCcoordck without setting it runs under whatever name the
    previous call left (ncopen, ncclose, ncsetfill ...), and an out-of-extent SDreaddata then succeeds *and* grows the data set.
    Every public SD routine from which NCcoordck is reachable stores a string literal into cdf_routine_name before its first
    call that can reach it."""
    from .facts import kind, strip, walk, render
    prog = ctx.prog
    callers = prog.callers()
    reach = {"H4_NCcoordck", "NCcoordck"}
    frontier = set(reach)
    for _ in range(5):
        nxt = set()
        for t in frontier:
            for f, _c in callers.get(t, []):
                if f.rel.startswith("mfhdf/src/") and f.name not in reach:
                    nxt.add(f.name)
        reach |= nxt
        frontier = nxt
    n = 0
    for f in prog.lib_funcs():
        if not f.rel.endswith("mfhdf/src/mfsd.c") or f.name not in reach or not prog.is_public(f.name):
            continue
        n += 1
        key = "APINAME:%s" % f.name
        set_line = None
        for _b, _i, s, x in f.nodes(True):
            if x[0] == "asg" and x[1] == "=" and kind(strip(x[2])) == "var" and strip(x[2])[1] == "cdf_routine_name" and kind(strip(x[3])) == "str":
                set_line = s.get("l", f.line) if set_line is None else min(set_line, s.get("l", f.line))
        first_call = None
        for _b, _i, s, c in f.calls():
            if c[1] in reach:
                l = s.get("l", f.line)
                first_call = l if first_call is None else min(first_call, l)
        if set_line is not None and (first_call is None or set_line <= first_call):
            ctx.holds("APINAME", key, f.where(set_line), "sets cdf_routine_name before the first call that can reach NCcoordck", nontrivial=True)
        else:
            ctx.violated("APINAME", key, f.where(first_call), "%s can reach NCcoordck without having stored its own name in cdf_routine_name: the SD/netCDF decision about reading beyond the last record is made with the name an earlier call left behind" % f.name)
    ctx.floor("APINAME", 3, n, "(public SD routines from which NCcoordck is reachable)")
    return n


BYTE_FIELDS = {"szof", "len", "HDFsize", "xszof"}
BYTE_CALLS = {"NC_typelen", "H4_NC_typelen", "DFKNTsize", "NC_xtypelen", "H4_NC_xtypelen", "strlen"}


def rule_fill_length_in_bytes(ctx):
    """FILLBYTES (C03): NC_arrayfill(buffer, len, type) stores the type's default fill value into `len` BYTES of the buffer.  Callers
    know how many *elements* they have to fill; each call must hand over a byte length — an expression that contains an element
    size (`->szof`, `->len`, sizeof, NC_typelen/DFKNTsize) or a local that was computed from one.  Handed an element count, only
    the first count/size elements get the fill value and the rest of the caller's buffer is returned as it was."""
    from .facts import kind, strip, walk, render, is_int
    prog = ctx.prog
    n = 0
    occ = {}
    for f in prog.lib_funcs():
        if not f.rel.startswith("mfhdf/src/"):
            continue
        calls = [(s, c) for _b, _i, s, c in f.calls() if c[1] in ("NC_arrayfill", "H4_NC_arrayfill") and len(c[3]) > 1]
        if not calls:
            continue
        prov = {}

        def bytes_in(e):
            for y in walk(e, True):
                if y[0] == "mem" and y[2] in BYTE_FIELDS:
                    return True
                if y[0] == "call" and y[1] in BYTE_CALLS:
                    return True
                if y[0] in ("sizeof", "szof"):
                    return True
                if y[0] == "var" and prov.get(y[1]):
                    return True
                if y[0] == "int" and len(y) > 2 and isinstance(y[2], str) and "sizeof" in y[2]:
                    return True
            return False

        asg = []
        for _b, _i, _s, x in f.nodes(True):
            if x[0] == "asg" and kind(strip(x[2])) == "var":
                asg.append((strip(x[2])[1], x[3]))
            elif x[0] == "decl":
                for d in x[1]:
                    if d[2] is not None:
                        asg.append((d[0], d[2]))
        for _ in range(4):
            for v, rhs in asg:
                if bytes_in(rhs):
                    prov[v] = True
        for s, c in calls:
            a = c[3][1]
            n += 1
            key = "FILLBYTES:%s" % f.name
            occ[key] = occ.get(key, 0) + 1
            if occ[key] > 1:
                key += "#%d" % occ[key]
            line = s.get("l", f.line)
            r = render(a)
            if is_int(a):
                ctx.holds("FILLBYTES", key, f.where(line), "a constant: the size of a fixed buffer (folded sizeof)", nontrivial=False)
            elif bytes_in(a) or "sizeof" in r:
                ctx.holds("FILLBYTES", key, f.where(line), "`%s` contains an element size" % r[:50], nontrivial=True)
            else:
                ctx.violated("FILLBYTES", key, f.where(line), "NC_arrayfill is handed `%s`, which contains no element size: it is an element count, so only a fraction of the buffer receives the fill value" % r[:50])
    ctx.floor("FILLBYTES", 6, n, "(NC_arrayfill calls)")
    return n


def rule_fast_dimension_coadjusted(ctx):
    """COADJUST (C03): NCgenio walks a strided request element by element: per step it transfers `iocount` elements and then advances the
    external index by `mystride[d]` and the address in the caller's buffer by `myimap[d]`.  Its one optimisation transfers the
    whole fastest dimension at once: it sets the transfer count of that dimension to the full count — and must then make one
    odometer step cover the whole dimension as well, externally (stride) *and* in the caller's buffer (imap).  In the arm that
    assigns `iocount[d]`, every array the odometer advances by (`x += A[idim]`) is assigned at the same index; a step array left
    at its per-element value makes each later row land inside the previous one in the caller's buffer."""
    from .codec import ast_walk
    from .facts import kind, strip, walk, render, base_var
    prog = ctx.prog
    f = prog.func("H4_NCgenio") or prog.func("NCgenio")
    if f is None or not f.raw.get("ast"):
        ctx.unrecognised("COADJUST", "COADJUST:NCgenio", "-", "NCgenio not found")
        return 0
    steps = set()
    for _b, _i, _s, x in f.nodes(True):
        if x[0] == "asg" and x[1] == "+=" and kind(strip(x[3])) == "idx" and kind(strip(strip(x[3])[2])) == "var":
            steps.add(base_var(x[3]))
    arms = []

    def vis(nd, st):
        if nd[0] == "if":
            arm = nd[2]
            kids = arm[1] if arm[0] == "block" else [arm]
            assigned = {}
            for k in kids:
                if k[0] == "s":
                    for x in walk(k[1], True):
                        if x[0] == "asg" and x[1] == "=" and kind(strip(x[2])) == "idx":
                            assigned[base_var(x[2])] = render(strip(strip(x[2])[2]))
            if "iocount" in assigned:
                arms.append((nd, assigned))
        return True

    ast_walk(f.raw["ast"], vis)
    n = 0
    for nd, assigned in arms:
        n += 1
        key = "COADJUST:NCgenio#%d" % n
        line = nd[-3] if isinstance(nd[-3], int) else f.line
        missing = sorted(a for a in steps if a not in assigned or assigned[a] != assigned["iocount"])
        if missing:
            ctx.violated("COADJUST", key, f.where(line), "the arm that makes one transfer cover the whole dimension `%s` does not adjust the odometer step `%s[%s]`: the walk still advances by one element there" % (assigned["iocount"], missing[0], assigned["iocount"]))
        else:
            ctx.holds("COADJUST", key, f.where(line), "transfer count and both odometer steps (%s) of dimension `%s` are adjusted together" % (", ".join(sorted(steps)), assigned["iocount"]), nontrivial=True)
    ctx.floor("COADJUST", 1, n, "(arms of NCgenio that change the transfer count of a dimension)")
    return n


def rule_fill_pair_extent(ctx):
    """FILLPAIR (C03): where a buffer is pre-filled, the user's fill value and the type's default are two arms of one `if`:
    `HDmemfill(buf, fillvalue, size, n)` replicates one item n times, `NC_arrayfill(buf, bytes, type)` fills a byte length.
    Both arms prepare the same buffer for the same consumer, so they cover the same extent: bytes == n * size (written out,
    or a local that is assigned that product).  An arm that covers less hands the rest of the buffer on as it was."""
    from .codec import ast_walk
    prog = ctx.prog
    n = 0
    for f in prog.lib_funcs():
        ast = f.raw.get("ast")
        if not ast or not f.rel.startswith("mfhdf/src/"):
            continue
        pairs = []

        def only_call(nd, names):
            found = []
            ast_walk(nd, lambda k, st: (found.extend(c for c in (calls_in(k[1], True) if k[0] in ("s", "if") and k[1] is not None else []) if c[1] in names), True)[1])
            return found[0] if len(found) == 1 else None

        def vis(nd, st):
            if nd[0] == "if" and nd[2] is not None and nd[3] is not None:
                a = only_call(nd[2], ("HDmemfill",))
                b = only_call(nd[3], ("NC_arrayfill", "H4_NC_arrayfill"))
                if a and b and len(a[3]) > 3 and len(b[3]) > 1 and render(strip(a[3][0])) == render(strip(b[3][0])):
                    pairs.append((nd, a, b))
            return True

        ast_walk(ast, vis)
        if not pairs:
            continue
        products = {}
        for _b, _i, _s, x in f.nodes(True):
            tgt = rhs = None
            if x[0] == "asg" and x[1] == "=" and kind(strip(x[2])) == "var":
                tgt, rhs = strip(x[2])[1], strip(x[3])
                if kind(rhs) == "bin" and rhs[1] == "*":
                    products.setdefault(tgt, []).append(frozenset((render(strip(rhs[2])), render(strip(rhs[3])))))
            elif x[0] == "decl":
                for d in x[1]:
                    r = strip(d[2]) if d[2] is not None else None
                    if kind(r) == "bin" and r[1] == "*":
                        products.setdefault(d[0], []).append(frozenset((render(strip(r[2])), render(strip(r[3])))))
        occ = 0
        for nd, a, b in pairs:
            occ += 1
            n += 1
            key = "FILLPAIR:%s#%d" % (f.name, occ)
            line = nd[-3] if isinstance(nd[-3], int) else f.line
            want = frozenset((render(strip(a[3][3])), render(strip(a[3][2]))))
            m = strip(b[3][1])
            ok = False
            if kind(m) == "bin" and m[1] == "*" and frozenset((render(strip(m[2])), render(strip(m[3])))) == want:
                ok = True
            elif kind(m) == "var" and want in products.get(m[1], []):
                ok = True
            if ok:
                ctx.holds("FILLPAIR", key, f.where(line), "HDmemfill(%s x %s) and NC_arrayfill(%s) cover the same extent of `%s`" % (render(strip(a[3][3]))[:30], render(strip(a[3][2]))[:20], render(m)[:30], render(strip(a[3][0]))[:20]), nontrivial=True)
            else:
                ctx.violated("FILLPAIR", key, f.where(line), "the two arms fill different extents of `%s`: HDmemfill replicates %s items of %s bytes, NC_arrayfill covers `%s` bytes - what the shorter arm leaves is handed on unfilled" % (render(strip(a[3][0]))[:20], render(strip(a[3][3]))[:40], render(strip(a[3][2]))[:20], render(m)[:40]))
    ctx.floor("FILLPAIR", 5, n, "(user-fill / default-fill arm pairs)")
    return n


def rule_record_count_owner(ctx):
    """RECOWNER (C02, C03): in an HDF file every record variable has its own number of records (NC_var.numrecs); the file-wide
    NC.numrecs is the netCDF notion (one record dimension shared by all) and in an HDF file only the maximum over the
    variables.  Wherever a test of `file_type` against HDF_FILE chooses which count to use - for the shape SDgetinfo reports,
    the bound SDreaddata checks, the dimension record written to the file - the HDF arm takes the variable's count and the
    other arm the file's.  With the arms exchanged a short variable is described (to other readers of the file) with the
    longest variable's length."""
    from .codec import ast_walk
    from .facts import int_name
    prog = ctx.prog
    n = 0

    def reads(nd):
        out = []

        def v(k, st):
            if k[0] in ("s", "if", "while", "switch") and k[1] is not None:
                for x in walk(k[1], True):
                    if x[0] == "mem" and x[2] == "numrecs":
                        out.append(x[3])
            return True

        if nd is not None:
            ast_walk(nd, v)
        return out

    for f in prog.lib_funcs():
        ast = f.raw.get("ast")
        if not ast or not f.rel.startswith("mfhdf/src/"):
            continue
        found = []

        def vis(nd, st):
            if nd[0] == "if" and nd[1] is not None:
                c = strip(nd[1])
                if kind(c) == "bin" and c[1] in ("==", "!=") and kind(strip(c[2])) == "mem" and strip(c[2])[2] == "file_type" and int_name(c[3]) == "HDF_FILE":
                    a, b = reads(nd[2]), reads(nd[3])
                    if a or b:
                        found.append((nd, c[1], a, b))
            return True

        ast_walk(ast, vis)
        for k, (nd, op, a, b) in enumerate(found, 1):
            n += 1
            key = "RECOWNER:%s#%d" % (f.name, k)
            line = nd[-3] if isinstance(nd[-3], int) else f.line
            hdf, other = (a, b) if op == "==" else (b, a)
            if "NC" in hdf and "NC_var" not in hdf or "NC_var" in other:
                ctx.violated("RECOWNER", key, f.where(line), "the HDF_FILE arm reads %s and the other arm %s: an HDF variable is given the file-wide record count (the longest variable's)" % ("/".join(sorted(set(hdf))) + ".numrecs" if hdf else "nothing", "/".join(sorted(set(other))) + ".numrecs" if other else "nothing"))
            else:
                ctx.holds("RECOWNER", key, f.where(line), "the HDF_FILE arm takes the variable's own record count%s" % (", the other arm the file's" if other else ""), nontrivial=True)
    ctx.floor("RECOWNER", 4, n, "(file_type tests that choose a record count)")
    return n


def rule_dimension_value_unlimited(ctx):
    """UNLIMVAL (C15, C03): an SD dimension is stored as a Vdata of its values - one record holding the size (new style,
    class DimVal0.1) or `size` records 0, 1, .. (the backward-compatible DimVal0.0).  For the unlimited dimension the size
    is not `dim->size` (that is the marker NC_UNLIMITED = 0) but the current number of records, and the reader of either
    Vdata takes the record count from it.  Each routine that writes such a Vdata (VHstoredata with a DIM_VALS class) therefore
    has the unlimited case: a test against NC_UNLIMITED under which `numrecs` supplies the stored value.  Without it the
    compatible Vdata of a record dimension says 0, and after reopening the netCDF-style calls report 0 records where SD
    reports the true count."""
    from .facts import int_name
    prog = ctx.prog
    n = 0
    for f in prog.lib_funcs():
        if not f.rel.endswith("mfhdf/src/cdf.c"):
            continue
        stores = [s.get("l", f.line) for _b, _i, s, c in f.calls() if c[1] == "VHstoredata" and any("DIM_VALS" in render(a) or "DimVal" in render(a) for a in c[3])]
        if not stores:
            continue
        n += 1
        key = "UNLIMVAL:%s" % f.name
        tests = False
        reads = False
        for _b, _i, _s, x in f.nodes(True):
            if x[0] == "bin" and x[1] in ("==", "!="):
                for a_ in (strip(x[2]), strip(x[3])):
                    if kind(a_) == "int" and (int_name(a_) == "NC_UNLIMITED"):
                        tests = True
            if x[0] == "mem" and x[2] == "numrecs":
                reads = True
        if tests and reads:
            ctx.holds("UNLIMVAL", key, f.where(stores[0]), "the value Vdata is written with an NC_UNLIMITED case that takes the stored value from numrecs", nontrivial=True)
        else:
            ctx.violated("UNLIMVAL", key, f.where(stores[0]), "a dimension value Vdata is written %s: for the unlimited dimension the stored size is 0 and the reader takes its record count from it" % ("with no test against NC_UNLIMITED" if not tests else "without numrecs supplying the value in the unlimited case"))
    ctx.floor("UNLIMVAL", 2, n, "(writers of a dimension's value Vdata)")
    return n


def rule_coord_scan_skips_sds(ctx):
    """CRDSCAN (C10): a dimension's strings, scale and attributes live in its coordinate variable, which the SD routines find by
    scanning the variable list for a rank-1 variable with the dimension's name.  A one-dimensional *data set* may have that
    name too; it is told apart by `var_type`.  The routine that stores the strings passes such a data set over and goes on to
    the coordinate variable, so every scan does: inside a loop over the variables, a match whose `var_type` is IS_SDSVAR
    never ends the routine with an error - or the strings SDsetdimstrs stored cannot be read back by SDgetdimstrs."""
    from .codec import ast_walk
    from .facts import int_name, calls_in
    from .rules_loops import loops_of, loop_body, _terminates
    prog = ctx.prog
    n = 0
    for f in prog.lib_funcs():
        if not f.rel.endswith("mfhdf/src/mfsd.c") or not f.raw.get("ast"):
            continue
        k = 0
        for lp, st in loops_of(f):
            if lp[0] != "for":
                continue
            tests = []

            def vis(nd, s2):
                if nd[0] == "if" and nd[1] is not None:
                    for x in walk(nd[1], True):
                        if x[0] == "bin" and x[1] in ("==", "!="):
                            for a_, b_ in ((x[2], x[3]), (x[3], x[2])):
                                if kind(strip(a_)) == "mem" and strip(a_)[2] == "var_type" and int_name(b_) in ("IS_SDSVAR", "IS_CRDVAR"):
                                    tests.append((nd, x[1], int_name(b_)))
                return True

            ast_walk(loop_body(lp), vis)
            if not tests:
                continue
            k += 1
            n += 1
            key = "CRDSCAN:%s#%d" % (f.name, k)
            line = lp[-3] if isinstance(lp[-3], int) else f.line
            bad = None
            for nd, op, which in tests:
                if which == "IS_SDSVAR" and op == "==":
                    arm = nd[2]
                    fails = []
                    ast_walk(arm, lambda k_, s2: (fails.extend(1 for c in (calls_in(k_[1], True) if k_[0] in ("s", "if") and k_[1] is not None else []) if c[1] in ("HEpush", "HEreport")), True)[1])
                    if fails:
                        bad = nd
            if bad is not None:
                bl = bad[-3] if isinstance(bad[-3], int) else line
                ctx.violated("CRDSCAN", key, f.where(bl), "the scan for the dimension's coordinate variable fails when it meets a data set of the same name, although the setter passes it over and the coordinate variable may follow: what was stored cannot be read back")
            else:
                ctx.holds("CRDSCAN", key, f.where(line), "the scan tells data sets and coordinate variables apart by var_type and never fails on a same-named data set", nontrivial=True)
    ctx.floor("CRDSCAN", 3, n, "(scans of the variable list that look at var_type)")
    return n


def rule_generated_name_whole(ctx):
    """GENNAME (C10): the SD layer names an unnamed dimension "fakeDim<N>" and renumbers those names when the file is written.
    Whether a name is one of its own is a statement about the *whole* name: the prefix test `strncmp(name, "fakeDim", 7) == 0`
    stands together with a test of what follows the prefix (digits only).  On the prefix alone a user's "fakeDimension" is
    taken for a generated name and comes back from the file as "fakeDim1"."""
    from .codec import ast_walk
    from .facts import calls_in
    prog = ctx.prog
    n = 0
    for f in prog.lib_funcs():
        ast = f.raw.get("ast")
        if not ast or not f.rel.startswith("mfhdf/src/"):
            continue
        found = []

        def vis(nd, st):
            if nd[0] == "if" and nd[1] is not None:
                for c in calls_in(nd[1], True):
                    if c[1] == "strncmp" and len(c[3]) == 3 and any(kind(strip(a)) == "str" and strip(a)[1] == "fakeDim" for a in c[3][:2]):
                        found.append((nd, c))
            return True

        ast_walk(ast, vis)
        for k, (nd, c) in enumerate(found, 1):
            n += 1
            key = "GENNAME:%s#%d" % (f.name, k)
            line = nd[-3] if isinstance(nd[-3], int) else f.line
            plen = int_val(c[3][2]) if is_int(c[3][2]) else 7
            rest = False
            for x in walk(nd[1], True):
                if x[0] == "bin" and x[1] == "+" and is_int(x[3]) and int_val(x[3]) == plen:
                    rest = True
                if x[0] == "idx" and is_int(x[2]) and int_val(x[2]) >= plen:
                    rest = True
            if rest:
                ctx.holds("GENNAME", key, f.where(line), 'the "fakeDim" prefix test is joined by a test of the characters after the prefix', nontrivial=True)
            else:
                ctx.violated("GENNAME", key, f.where(line), 'a name is taken for a generated one on its "fakeDim" prefix alone: a user name with that prefix is replaced by fakeDim<N> when the file is written')
    ctx.floor("GENNAME", 1, n, "(decisions that a dimension name is a generated one)")
    return n


def rule_name_limit_same_side(ctx):
    """NAMELIMIT (C10, C20): H4_MAX_NC_NAME is the largest *length* an SD name may have: the routine that makes name strings
    accepts `count <= H4_MAX_NC_NAME` (refuses `count > ..`), and so does SDcreate.  Every other comparison of a length with
    that constant draws the line in the same place - a refusal is written `> H4_MAX_NC_NAME`, never `>=`: a reader that turns
    away a name of exactly the maximum length makes SDstart fail on a file the writers produced without complaint."""
    from .facts import int_name
    prog = ctx.prog
    n = 0
    for f in prog.lib_funcs():
        if not f.rel.startswith("mfhdf/src/"):
            continue
        k = 0
        for _b, _i, s, x in f.nodes(True):
            if x[0] != "bin" or x[1] not in ("<", "<=", ">", ">="):
                continue
            l, r = strip(x[2]), strip(x[3])
            op = x[1]
            if int_name(r) == "H4_MAX_NC_NAME" and kind(l) != "int":
                pass
            elif int_name(l) == "H4_MAX_NC_NAME" and kind(r) != "int":
                op = {"<": ">", "<=": ">=", ">": "<", ">=": "<="}[op]
            else:
                continue
            k += 1
            n += 1
            key = "NAMELIMIT:%s#%d" % (f.name, k)
            line = s.get("l", f.line)
            if op in (">", "<="):
                ctx.holds("NAMELIMIT", key, f.where(line), "`%s`: a length equal to the maximum is on the accepted side" % render(x)[:60], nontrivial=True)
            else:
                ctx.violated("NAMELIMIT", key, f.where(line), "`%s` puts a length equal to H4_MAX_NC_NAME on the refused side, while the routines that create names accept it" % render(x)[:60])
    ctx.floor("NAMELIMIT", 3, n, "(comparisons of a length with H4_MAX_NC_NAME)")
    return n


def rule_fill_mode_cleared_unconditionally(ctx):
    """FILLMODE (C03): ncsetfill(id, NC_FILL) puts the file back into fill mode: besides syncing whatever is pending it clears
    NC_NOFILL in `handle->flags`.  The clearing does not depend on *whether* something was pending: it is not nested under a
    test of the dirty bits (NC_HDIRTY / NC_NDIRTY).  Folded into the sync branches, a session whose header is still clean
    stays in no-fill mode after SDsetfillmode(SD_FILL) and the next partial write leaves the other cells unfilled."""
    from .codec import ast_walk
    from .facts import int_name
    prog = ctx.prog
    n = 0
    for f in prog.lib_funcs():
        ast = f.raw.get("ast")
        if not ast or not f.rel.endswith("mfhdf/src/file.c"):
            continue
        found = []

        def vis(nd, st):
            if nd[0] == "s" and nd[1] is not None:
                for x in walk(nd[1], True):
                    # `~NC_NOFILL` (or `~(.. | NC_NOFILL)`) reaches us folded into one constant: it clears bit 0x100
                    mask = None
                    if x[0] == "asg" and mem_field(x[2]) == ("NC", "flags"):
                        if x[1] == "&=":
                            mask = x[3]
                        elif x[1] == "=" and kind(strip(x[3])) == "bin" and strip(x[3])[1] == "&":      # flags = flags & ~NC_NOFILL
                            b_ = strip(x[3])
                            mask = b_[3] if mem_field(b_[2]) == ("NC", "flags") else (b_[2] if mem_field(b_[3]) == ("NC", "flags") else None)
                    if mask is not None and (any(int_name(y) == "NC_NOFILL" for y in walk(mask, True)) or (is_int(mask) and (~int_val(mask)) & 0x100)):
                        conds = [a[1] for a in st if a[0] == "if" and a[1] is not None]
                        found.append((nd, conds))
            return True

        ast_walk(ast, vis)
        for k, (nd, conds) in enumerate(found, 1):
            n += 1
            key = "FILLMODE:%s#%d" % (f.name, k)
            line = nd[-3] if isinstance(nd[-3], int) else f.line
            dirty = any(int_name(y) in ("NC_HDIRTY", "NC_NDIRTY") for c in conds for y in walk(c, True))
            if dirty:
                ctx.violated("FILLMODE", key, f.where(line), "NC_NOFILL is cleared only under a test of the dirty bits: with nothing pending the file silently stays in no-fill mode")
            else:
                ctx.holds("FILLMODE", key, f.where(line), "NC_NOFILL is cleared whenever fill mode is requested, pending updates or not", nontrivial=True)
    # completeness: the routine that sets the mode does clear it somewhere
    if n == 0:
        ctx.violated("FILLMODE", "FILLMODE:ncsetfill", "-", "no statement clears NC_NOFILL")
    ctx.floor("FILLMODE", 1, n, "(statements that clear NC_NOFILL)")
    return n


def rule_hash_match_confirmed(ctx):
    """HASHCONFIRM (C10): when the SD header is written, dimensions with the same name are stored once; candidates are found
    with a cheap hash of the name (a sum of 4-byte words) plus the size, and the decision "this is the same dimension" is
    confirmed by comparing the names themselves (NC_compare_string).  A condition that compares two hashes and marks a
    duplicate without a string comparison treats "lat_lon_" and "lon_lat_" as one dimension: the second is never written and
    the file cannot be opened again."""
    from .codec import ast_walk
    from .facts import calls_in
    prog = ctx.prog
    n = 0
    for f in prog.lib_funcs():
        ast = f.raw.get("ast")
        if not ast or not f.rel.startswith("mfhdf/src/"):
            continue
        found = []

        def vis(nd, st):
            if nd[0] == "if" and nd[1] is not None:
                hs = [x for x in walk(nd[1], True) if x[0] == "bin" and x[1] == "==" and any(y[0] == "var" and "hash" in y[1].lower() for y in walk(x[2], True)) and any(y[0] == "var" and "hash" in y[1].lower() for y in walk(x[3], True))]
                if hs:
                    found.append(nd)
            return True

        ast_walk(ast, vis)
        for k, nd in enumerate(found, 1):
            n += 1
            key = "HASHCONFIRM:%s#%d" % (f.name, k)
            line = nd[-3] if isinstance(nd[-3], int) else f.line
            if any(c[1] in ("NC_compare_string", "H4_NC_compare_string", "strcmp", "strncmp", "memcmp") for c in calls_in(nd[1], True)):
                ctx.holds("HASHCONFIRM", key, f.where(line), "the hash match is confirmed by comparing the names", nontrivial=True)
            else:
                ctx.violated("HASHCONFIRM", key, f.where(line), "two name hashes are compared and the match is acted on without comparing the names: names whose 4-byte words add up alike are taken for one dimension")
    ctx.floor("HASHCONFIRM", 1, n, "(decisions taken on equal name hashes)")
    return n
