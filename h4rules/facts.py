"""Facts layer: compile database normalisation, parallel extraction with h4x,
loading and indexing of the per-TU JSON facts.

Every run hashes the *current* contents of /repo (the TU, every header under the
library source directories and the generated h4config.h) – an extraction result is
reused only when that hash is unchanged, so verdicts always reflect the current
working tree.
"""
import glob
import hashlib
import json
import os
import shlex
import shutil
import subprocess
import sys
import tempfile
from concurrent.futures import ThreadPoolExecutor

VERIF = os.path.dirname(os.path.dirname(os.path.abspath(__file__)))
REPO = os.environ.get("H4_REPO", "/repo")
H4X = os.path.join(VERIF, "bin", "h4x")
CACHE = os.path.join(VERIF, ".cache", "facts")
RESOURCE_DIR = "/usr/lib/llvm-14/lib/clang/14.0.6"

LIB_DIRS = ["hdf/src", "mfhdf/src"]
TOOL_DIRS = ["mfhdf/hdiff", "mfhdf/hdp", "mfhdf/hdfimport", "mfhdf/hrepack", "hdf/util", "mfhdf/util"]
# Fortran stub sources: not part of this build configuration (HDF4_BUILD_FORTRAN=OFF)
FORTRAN_STUBS = {"df24f.c", "dfanf.c", "dff.c", "dfpf.c", "dfr8f.c", "dfsdf.c", "dfufp2if.c", "dfutilf.c",
                 "herrf.c", "hfilef.c", "mfanf.c", "mfgrf.c", "vattrf.c", "vgf.c", "jackets.c", "mfsdf.c",
                 "hdfnctest.c"}


class AnalysisBroken(Exception):
    """The code (or the environment) no longer has a shape the analysis understands."""


def _sha(*parts):
    h = hashlib.sha256()
    for p in parts:
        if isinstance(p, str):
            p = p.encode()
        h.update(p)
        h.update(b"\0")
    return h.hexdigest()


def _build_dir():
    """Directory holding build.ninja + h4config.h for /repo's configuration."""
    b = os.path.join(REPO, "_build")
    if os.path.exists(os.path.join(b, "build.ninja")) and os.path.exists(os.path.join(b, "h4config.h")):
        return b, None
    # no build tree: configure a throw-away one outside /repo and /verif
    tmp = tempfile.mkdtemp(prefix="h4cfg-")
    r = subprocess.run(["cmake", "-G", "Ninja", "-S", REPO, "-B", tmp, "-DHDF4_BUILD_FORTRAN=OFF",
                        "-DHDF4_BUILD_JAVA=OFF", "-DBUILD_TESTING=ON", "-DHDF4_BUILD_EXAMPLES=ON",
                        "-DHDF4_BUILD_TOOLS=ON"], capture_output=True, text=True)
    if r.returncode != 0:
        shutil.rmtree(tmp, ignore_errors=True)
        raise AnalysisBroken("cmake configure failed: " + r.stderr[-500:])
    return tmp, tmp


def compile_db():
    """[(file, [flags])] for every C unit of the build, de-duplicated."""
    bdir, tmp = _build_dir()
    try:
        r = subprocess.run(["ninja", "-C", bdir, "-t", "compdb"], capture_output=True, text=True)
        if r.returncode != 0:
            raise AnalysisBroken("ninja -t compdb failed")
        db = json.loads(r.stdout)
        cfg_h = open(os.path.join(bdir, "h4config.h"), "rb").read()
    finally:
        pass
    units = {}
    for e in db:
        f = e["file"]
        if not f.endswith(".c"):
            continue
        f = os.path.normpath(f if os.path.isabs(f) else os.path.join(e["directory"], f))
        if not f.startswith(REPO + "/"):
            continue
        if f in units:
            continue
        toks = shlex.split(e["command"])
        flags = []
        i = 1
        while i < len(toks):
            t = toks[i]
            if t in ("-I", "-D", "-U", "-include", "-isystem"):
                flags += [t, toks[i + 1]]
                i += 2
                continue
            if t.startswith(("-I", "-D", "-U")):
                if t.startswith("-I") and not os.path.isabs(t[2:]):
                    t = "-I" + os.path.normpath(os.path.join(e["directory"], t[2:]))
                flags.append(t)
            i += 1
        flags = [x for x in flags if x not in ("-DH4_BUILT_AS_DYNAMIC_LIB",) and not x.endswith("_EXPORTS")]
        flags += ["-std=gnu99", "-w", "-resource-dir", RESOURCE_DIR]
        units[f] = flags
    # library sources present in the tree but unknown to the build: analyse with directory flags
    for d in LIB_DIRS:
        sample = next((fl for f, fl in units.items() if os.path.dirname(f) == os.path.join(REPO, d)), None)
        for f in sorted(glob.glob(os.path.join(REPO, d, "*.c"))):
            if f not in units and os.path.basename(f) not in FORTRAN_STUBS and sample:
                units[f] = list(sample)
    if tmp:
        # keep h4config.h reachable for the extraction, then drop the directory at exit
        import atexit
        atexit.register(lambda: shutil.rmtree(tmp, ignore_errors=True))
    return units, cfg_h, bdir


def _header_digest(cfg_h):
    h = hashlib.sha256()
    pats = ["hdf/src/*.h", "mfhdf/src/*.h", "mfhdf/*/*.h", "hdf/*/*.h", "mfhdf/src/*.inc"]
    seen = set()
    for p in pats:
        for f in sorted(glob.glob(os.path.join(REPO, p))):
            if f in seen:
                continue
            seen.add(f)
            h.update(f.encode())
            h.update(open(f, "rb").read())
    h.update(cfg_h)
    try:
        st = os.stat(H4X)
        h.update(("%d:%d" % (st.st_size, st.st_mtime_ns)).encode())
    except OSError:
        pass
    return h.hexdigest()


def select_units(units, scope):
    """scope: 'lib', 'lib+tools', 'all'"""
    out = {}
    for f, fl in units.items():
        rel = os.path.relpath(f, REPO)
        d = os.path.dirname(rel)
        if d in LIB_DIRS:
            out[f] = fl
        elif scope in ("lib+tools", "all") and d in TOOL_DIRS:
            out[f] = fl
        elif scope == "all":
            out[f] = fl
    return out


def extract(units, cfg_h, jobs=16):
    """Run h4x on every unit (content-addressed reuse); return {file: facts}."""
    if not os.path.exists(H4X):
        raise AnalysisBroken("extractor %s not built (run setup)" % H4X)
    os.makedirs(CACHE, exist_ok=True)
    hd = _header_digest(cfg_h)

    def one(item):
        f, flags = item
        try:
            src = open(f, "rb").read()
        except OSError as e:
            return f, None, str(e)
        key = _sha(hd, f, src, " ".join(flags))
        out = os.path.join(CACHE, key + ".json")
        if not os.path.exists(out):
            tmp = out + ".%d.tmp" % os.getpid()
            env = dict(os.environ, H4X_REPO=REPO)
            r = subprocess.run([H4X, tmp, f, "--"] + flags, capture_output=True, text=True, env=env)
            if r.returncode != 0 or not os.path.exists(tmp):
                return f, None, (r.stderr or "")[-800:]
            os.replace(tmp, out)
        try:
            with open(out) as fh:
                return f, json.load(fh), None
        except Exception as e:  # corrupt cache entry
            try:
                os.unlink(out)
            except OSError:
                pass
            return f, None, "unreadable facts: %s" % e

    res = {}
    errs = []
    with ThreadPoolExecutor(max_workers=jobs) as ex:
        for f, d, err in ex.map(one, sorted(units.items())):
            if d is None:
                errs.append((f, err))
            else:
                res[f] = d
    if errs:
        raise AnalysisBroken("extraction failed for %d unit(s): %s" % (
            len(errs), "; ".join("%s: %s" % (os.path.relpath(f, REPO), (e or "").strip().splitlines()[-1:] ) for f, e in errs[:5])))
    _prune_cache()
    return res


def _prune_cache(limit=1500):
    try:
        fs = [os.path.join(CACHE, x) for x in os.listdir(CACHE)]
        if len(fs) <= limit:
            return
        fs.sort(key=lambda p: os.stat(p).st_mtime)
        for p in fs[: len(fs) - limit]:
            os.unlink(p)
    except OSError:
        pass


# ----------------------------------------------------------------------------------------
# expression helpers (trees are JSON arrays, see tools/h4x.cc)


def kind(e):
    return e[0] if isinstance(e, list) and e else None


def strip(e):
    """drop explicit casts and 'seen' wrappers"""
    while isinstance(e, list) and e and e[0] in ("cast", "seen"):
        e = e[2] if e[0] == "cast" else e[1]
    return e


def unseen(e):
    while isinstance(e, list) and e and e[0] == "seen":
        e = e[1]
    return e


def is_int(e, v=None):
    e = strip(e)
    if kind(e) != "int":
        return False
    return v is None or e[1] == v


def int_val(e):
    e = strip(e)
    return e[1] if kind(e) == "int" else None


def int_name(e):
    e = strip(e)
    return e[2] if kind(e) == "int" and len(e) > 2 else None


def is_null(e):
    e = strip(e)
    return kind(e) == "int" and e[1] == 0


def path(e):
    """Access path string of an lvalue-ish expression, or None.
    var -> 'x'; mem -> 'base->f' ; idx -> 'base[]' ; deref -> '*base'"""
    e = strip(e)
    k = kind(e)
    if k == "var":
        return e[1]
    if k == "mem":
        b = path(e[1])
        return None if b is None else b + ("->" if e[5] else ".") + e[2]
    if k == "idx":
        b = path(e[1])
        if b is None:
            return None
        i = strip(e[2])
        if kind(i) == "int":
            return "%s[%d]" % (b, i[1])
        ip = path(i)
        return "%s[%s]" % (b, ip if ip else "?")
    if k == "deref":
        b = path(e[1])
        return None if b is None else "*" + b
    if k == "addr":
        b = path(e[1])
        return None if b is None else "&" + b
    return None


def base_var(e):
    """innermost variable name of an access path"""
    e = strip(e)
    while kind(e) in ("mem", "idx", "deref", "addr"):
        e = strip(e[1])
    return e[1] if kind(e) == "var" else None


def mem_field(e):
    """(record, field) of a member expression (through casts), else None"""
    e = strip(e)
    if kind(e) == "mem":
        return (e[3], e[2])
    return None


def walk(e, into_seen=False):
    """All sub-nodes in evaluation (post-)order.  'seen' sub-trees were evaluated in an
    earlier CFG block and are skipped unless into_seen."""
    if not isinstance(e, list) or not e:
        return
    k = e[0]
    if k == "seen":
        if into_seen:
            yield from walk(e[1], into_seen)
        return
    if k in ("int", "str", "flt", "var", "fn", "ref", "zero", "other", "stmt", "sizeof?", "vaarg", "stmtexpr"):
        yield e
        return
    if k == "mem":
        yield from walk(e[1], into_seen)
    elif k == "idx":
        yield from walk(e[1], into_seen)
        yield from walk(e[2], into_seen)
    elif k in ("deref", "addr"):
        yield from walk(e[1], into_seen)
    elif k == "incdec":
        yield from walk(e[3], into_seen)
    elif k == "un":
        yield from walk(e[2], into_seen)
    elif k == "bin":
        yield from walk(e[2], into_seen)
        yield from walk(e[3], into_seen)
    elif k == "asg":
        yield from walk(e[3], into_seen)
        yield from walk(e[2], into_seen)
    elif k == "comma":
        yield from walk(e[1], into_seen)
        yield from walk(e[2], into_seen)
    elif k == "call":
        if e[2] is not None:
            yield from walk(e[2], into_seen)
        for a in e[3]:
            yield from walk(a, into_seen)
    elif k == "cast":
        yield from walk(e[2], into_seen)
    elif k == "cond":
        yield from walk(e[1], into_seen)
        yield from walk(e[2], into_seen)
        yield from walk(e[3], into_seen)
    elif k == "init":
        for x in e[2]:
            yield from walk(x, into_seen)
    elif k == "complit":
        yield from walk(e[1], into_seen)
    elif k == "ret":
        if e[1] is not None:
            yield from walk(e[1], into_seen)
    elif k == "decl":
        for d in e[1]:
            if d[2] is not None:
                yield from walk(d[2], into_seen)
    yield e


def calls_in(e, into_seen=False):
    for n in walk(e, into_seen):
        if n[0] == "call":
            yield n


def render(e, depth=0):
    """Readable C-ish rendering of a tree (for reports)."""
    if e is None:
        return ""
    if not isinstance(e, list):
        return str(e)
    k = e[0]
    if depth > 12:
        return "…"
    r = lambda x: render(x, depth + 1)
    if k == "int":
        return e[2] if len(e) > 2 and e[2] else str(e[1])
    if k == "str":
        return json.dumps(e[1][:30])
    if k == "flt":
        return str(e[1])
    if k in ("var", "fn", "ref"):
        return e[1]
    if k == "mem":
        return r(e[1]) + ("->" if e[5] else ".") + e[2]
    if k == "idx":
        return "%s[%s]" % (r(e[1]), r(e[2]))
    if k == "deref":
        return "*" + r(e[1])
    if k == "addr":
        return "&" + r(e[1])
    if k == "incdec":
        return (e[1] + r(e[3])) if e[2] else (r(e[3]) + e[1])
    if k == "un":
        return e[1] + r(e[2])
    if k == "bin":
        return "(%s %s %s)" % (r(e[2]), e[1], r(e[3]))
    if k == "asg":
        return "%s %s %s" % (r(e[2]), e[1], r(e[3]))
    if k == "comma":
        return "%s, %s" % (r(e[1]), r(e[2]))
    if k == "call":
        nm = e[1] if e[1] else "(*%s)" % r(e[2])
        return "%s(%s)" % (nm, ", ".join(r(a) for a in e[3]))
    if k == "cast":
        return "(%s)%s" % (e[1], r(e[2]))
    if k == "cond":
        return "(%s ? %s : %s)" % (r(e[1]), r(e[2]), r(e[3]))
    if k == "seen":
        return r(e[1])
    if k == "ret":
        return "return " + r(e[1])
    if k == "decl":
        return "; ".join("%s %s%s" % (d[1], d[0], (" = " + r(d[2])) if d[2] is not None else "") for d in e[1])
    if k == "init":
        return "{" + ", ".join(r(x) for x in e[2]) + "}"
    return "<%s>" % k


# ----------------------------------------------------------------------------------------


class Func:
    __slots__ = ("name", "file", "line", "endline", "ret", "static", "params", "blocks", "entry", "exit", "tu",
                 "preds", "_dom", "_macros", "raw")

    def __init__(self, d, tu):
        self.raw = d
        self.name = d["name"]
        self.file = d["file"]
        self.line = d["line"]
        self.endline = d["endline"]
        self.ret = d["ret"]
        self.static = d["static"]
        self.params = d["params"]
        self.tu = tu
        self.blocks = {b["id"]: b for b in d.get("blocks", [])}
        self.entry = d.get("entry")
        self.exit = d.get("exit")
        self.preds = {i: [] for i in self.blocks}
        for b in self.blocks.values():
            for s in b["succ"]:
                if s >= 0:
                    self.preds[s].append(b["id"])
        self._dom = None

    @property
    def rel(self):
        return os.path.relpath(self.file, REPO)

    def where(self, line=None):
        return "%s:%d" % (self.rel, line if line else self.line)

    def stmts(self):
        """(block id, index, stmt dict) over all blocks"""
        for bid, b in self.blocks.items():
            for i, s in enumerate(b["s"]):
                yield bid, i, s

    def nodes(self, into_seen=False):
        for bid, i, s in self.stmts():
            for n in walk(s["e"], into_seen):
                yield bid, i, s, n

    def calls(self):
        for bid, i, s, n in self.nodes():
            if n[0] == "call":
                yield bid, i, s, n

    def reachable(self):
        seen = set()
        work = [self.entry]
        while work:
            b = work.pop()
            if b in seen or b not in self.blocks:
                continue
            seen.add(b)
            work.extend(s for s in self.blocks[b]["succ"] if s >= 0)
        return seen

    def dominators(self):
        """block -> set of dominating blocks (iterative)"""
        if self._dom is not None:
            return self._dom
        reach = self.reachable()
        allb = set(reach)
        dom = {b: set(allb) for b in reach}
        dom[self.entry] = {self.entry}
        changed = True
        order = sorted(reach, reverse=True)
        while changed:
            changed = False
            for b in order:
                if b == self.entry:
                    continue
                ps = [p for p in self.preds[b] if p in reach]
                if not ps:
                    continue
                new = set.intersection(*(dom[p] for p in ps)) | {b}
                if new != dom[b]:
                    dom[b] = new
                    changed = True
        self._dom = dom
        return dom


class Program:
    def __init__(self, facts):
        self.facts = facts
        self.funcs = []  # all Func
        self.by_name = {}  # name -> [Func]
        self.by_tu = {}  # tu -> {name: Func}
        self.decls = {}  # name -> set(files)
        self.records = {}  # name -> fields
        self.types = {}
        self.defs = {}
        self.globals = {}  # name -> [global dict (with 'tu')]
        self.macros = {}  # tu -> {(file,l,c): [macro records]}
        for tu, d in facts.items():
            fm = {}
            for fd in d["functions"]:
                if fd.get("cfg_failed"):
                    raise AnalysisBroken("CFG construction failed for %s in %s" % (fd["name"], tu))
                f = Func(fd, tu)
                self.funcs.append(f)
                self.by_name.setdefault(f.name, []).append(f)
                fm[f.name] = f
            self.by_tu[tu] = fm
            for n, fs in d["decls"].items():
                self.decls.setdefault(n, set()).update(fs)
            for r in d["records"]:
                if r["name"]:
                    self.records.setdefault(r["name"], r["fields"])
            self.types.update(d["types"])
            for k, v in d["defs"].items():
                self.defs.setdefault(k, v)
            for g in d["globals"]:
                g = dict(g, tu=tu)
                self.globals.setdefault(g["name"], []).append(g)
            mm = {}
            for m in d["macros"]:
                mm.setdefault((m["f"], m["l"], m["c"]), []).append(m)
            self.macros[tu] = mm
        self._fp_targets = None
        self._callers = None

    # -- lookup ------------------------------------------------------------------------
    def func(self, name, tu=None):
        """Resolve a callee name from TU `tu`: same TU first, then same directory, then any."""
        if tu and name in self.by_tu.get(tu, {}):
            return self.by_tu[tu][name]
        c = self.by_name.get(name)
        if not c:
            return None
        ext = [f for f in c if not f.static]
        if not ext and tu is None:
            lib = [f for f in c if os.path.relpath(os.path.dirname(f.tu), REPO) in LIB_DIRS]
            return (lib or c)[0]
        if tu:
            d = os.path.dirname(tu)
            same = [f for f in ext if os.path.dirname(f.tu) == d]
            if same:
                return same[0]
        lib = [f for f in ext if os.path.relpath(os.path.dirname(f.tu), REPO) in LIB_DIRS]
        if lib:
            return lib[0]
        return ext[0] if ext else None

    def lib_funcs(self):
        for f in self.funcs:
            if os.path.relpath(os.path.dirname(f.tu), REPO) in LIB_DIRS:
                yield f

    def in_dirs(self, dirs):
        for f in self.funcs:
            if os.path.relpath(os.path.dirname(f.tu), REPO) in dirs:
                yield f

    def type_info(self, t):
        return self.types.get(t)

    def int_bits(self, t):
        ti = self.types.get(t)
        if ti and ti[0] == "int":
            return ti[1], ti[2]
        return None

    def macro_at(self, func, stmt, name=None):
        """macro expansion records whose outermost expansion starts at this statement's position"""
        ms = self.macros.get(func.tu, {}).get((func.file, stmt["l"], stmt["c"]), [])
        if name:
            ms = [m for m in ms if m["n"] == name]
        return ms

    def is_public(self, name):
        """declared in an installed (non *_priv.h) header"""
        for f in self.decls.get(name, ()):
            b = os.path.basename(f)
            if f.endswith(".h") and not b.endswith("_priv.h") and not b.startswith("local_nc") and "test" not in f:
                return True
        return False

    # -- function pointers -------------------------------------------------------------
    def fp_targets(self):
        """(record, field) -> set of function names stored there by any initialiser/assignment.
        Also ('global', name) for plain function-pointer variables."""
        if self._fp_targets is not None:
            return self._fp_targets
        t = {}

        def add(key, e):
            e = strip(e)
            if kind(e) == "addr":
                e = strip(e[1])
            if kind(e) == "fn":
                t.setdefault(key, set()).add(e[1])
            elif kind(e) == "cond":
                add(key, e[2])
                add(key, e[3])

        def from_init(e):
            e = strip(e)
            if kind(e) != "init":
                return
            ti = self.types.get(e[1])
            names = e[3]
            if names:
                rec = (ti[3] if ti and ti[0] == "rec" else e[1])
                rec = rec.replace("struct ", "")
                for nm, x in zip(names, e[2]):
                    add((rec, nm), x)
                    from_init(x)
            else:
                for x in e[2]:
                    from_init(x)

        for gl in self.globals.values():
            for g in gl:
                if "init" in g:
                    from_init(g["init"])
                    add(("global", g["name"]), g["init"])
        for f in self.funcs:
            for bid, i, s, n in f.nodes(into_seen=True):
                if n[0] == "asg" and n[1] == "=":
                    mf = mem_field(n[2])
                    if mf:
                        add(mf, n[3])
                    elif kind(strip(n[2])) == "var":
                        add(("var", strip(n[2])[1]), n[3])
                elif n[0] == "decl":
                    for d in n[1]:
                        if d[2] is not None:
                            from_init(d[2])
        # one level of parameter flow: `rec->field = param` in g, and g called with a function as that argument
        pending = []
        for f in self.funcs:
            pn = [q[0] for q in f.params]
            for bid, i, s, n in f.nodes(into_seen=True):
                if n[0] == "asg" and n[1] == "=":
                    mf = mem_field(n[2])
                    r = strip(n[3])
                    if mf and kind(r) == "var" and r[2] == "p" and r[1] in pn:
                        pending.append((f.name, pn.index(r[1]), mf))
        if pending:
            by = {}
            for g, idx, mf in pending:
                by.setdefault(g, []).append((idx, mf))
            for f in self.funcs:
                for bid, i, s, n in f.nodes(into_seen=True):
                    if n[0] == "call" and n[1] in by:
                        for idx, mf in by[n[1]]:
                            if idx < len(n[3]):
                                add(mf, n[3][idx])
        self._fp_targets = t
        return t

    def callee_names(self, call, func):
        """Resolved callee names of a call node (direct, or through a record field)."""
        if call[1]:
            return [call[1]]
        ce = strip(call[2])
        while kind(ce) == "deref":
            ce = strip(ce[1])
        mf = mem_field(ce)
        if mf:
            return sorted(self.fp_targets().get(mf, ()))
        if kind(ce) == "var":
            return sorted(set(self.fp_targets().get(("var", ce[1]), ())) | set(self.fp_targets().get(("global", ce[1]), ())))
        return []

    def callers(self):
        if self._callers is None:
            c = {}
            for f in self.funcs:
                for bid, i, s, n in f.calls():
                    for nm in self.callee_names(n, f):
                        c.setdefault(nm, []).append((f, n))
            self._callers = c
        return self._callers


_loaded = {}


def load(scope="lib+tools", jobs=16):
    if scope in _loaded:
        return _loaded[scope]
    units, cfg_h, bdir = compile_db()
    sel = select_units(units, scope)
    if len(sel) < 60:
        raise AnalysisBroken("only %d translation units found for scope %s" % (len(sel), scope))
    facts = extract(sel, cfg_h, jobs)
    p = Program(facts)
    p.scope = scope
    p.n_units = len(sel)
    _loaded[scope] = p
    return p
