"""Rules about the tag/ref directory (hfiledd.c): F3 persist-after-mutate, pairing,
F11 crash-ordering structure."""
from .facts import kind, strip, walk, path, base_var, mem_field, render, int_val, is_int, calls_in, int_name
from .flow import PathAnalysis, fail_values, classify_ret

DD_REC = "dd_t"
DD_FIELDS = {"tag", "ref", "offset", "length"}
PERSIST = "HTIupdate_dd"

# functions that legitimately fill dd_t records without HTIupdate_dd (one line of reason each)
F3_EXCEPT = {
    "HTPstart": "reader: decodes the descriptors *from* disk into the list",
    "HTPinit": "creates the first DD block and writes the whole block itself (checked by F11c)",
    "HTInew_dd_block": "creates a DD block and writes the whole block itself (checked by F11c)",
}


def _dd_store(n):
    """asg node storing to a persisted dd_t field -> base path of the DD, else None"""
    if n[0] != "asg":
        return None
    t = strip(n[2])
    if kind(t) == "mem" and t[3] == DD_REC and t[2] in DD_FIELDS:
        return path(t[1]) or "?"
    return None


class F3(PathAnalysis):
    """typestate per DD access path: dirty (stored to since last persist) / clean"""

    def __init__(self, prog, summaries):
        super().__init__(prog)
        self.summ = summaries  # fname -> set(param index) left dirty on a non-failing exit
        self.fails = None
        self.exit_dirty = []  # (retclass, dirty set, bid)
        self.last_store = {}

    def init_user(self, func):
        return frozenset()

    def on_stmt(self, func, bid, idx, stmt, env, user):
        d = set(user)
        for n in walk(stmt["e"]):
            if n[0] == "asg":
                p = _dd_store(n)
                if p:
                    d.add(p)
                    self.last_store[p] = (n[4], render(n)[:80])
            elif n[0] == "call":
                nm = n[1]
                if nm == PERSIST and len(n[3]) >= 2:
                    p = path(n[3][1])
                    if p:
                        d.discard(p)
                        # persisting p[...] elements of the same base
                elif nm in self.summ and self.summ[nm]:
                    for j in self.summ[nm]:
                        if j < len(n[3]):
                            p = path(n[3][j])
                            if p:
                                d.add(p)
                                self.last_store[p] = (n[5], "%s() leaves its DD argument modified" % nm)
        return frozenset(d)

    def on_exit(self, func, bid, retval, env, user):
        self.exit_dirty.append((classify_ret(retval, self.fails), user, bid))


def rule_F3(ctx):
    prog = ctx.prog
    cands = {}
    for f in prog.lib_funcs():
        for bid, i, s, n in f.nodes(into_seen=True):
            if n[0] == "asg" and _dd_store(n):
                cands[f.name] = f
                break
    direct = len(cands)
    summ = {}
    changed = True
    rounds = 0
    results = {}
    while changed and rounds < 6:
        changed = False
        rounds += 1
        # callers of functions with a non-empty summary become candidates
        for nm, s in list(summ.items()):
            if not s:
                continue
            for (cf, call) in prog.callers().get(nm, []):
                if cf.name not in cands and cf.rel.split("/")[0] in ("hdf", "mfhdf") and "/src/" in cf.rel:
                    cands[cf.name] = cf
                    changed = True
        for nm, f in list(cands.items()):
            a = F3(prog, summ)
            a.fails = fail_values(f, prog)
            a.run(f)
            pnames = [p[0] for p in f.params]
            left = set()
            viol = []
            for cls, dirty, bid in a.exit_dirty:
                if cls == "fail":
                    continue
                for p in dirty:
                    b = p.split("->")[0].split("[")[0].lstrip("*&")
                    if p in pnames:
                        left.add(pnames.index(p))
                    else:
                        viol.append((p, cls, bid))
            if summ.get(nm, set()) != left:
                summ[nm] = left
                changed = True
            results[nm] = (f, a, viol, left)
    n_inst = 0
    for nm, (f, a, viol, left) in sorted(results.items()):
        key = "F3:%s" % nm
        if nm in F3_EXCEPT:
            ctx.excepted("F3", key, f.where(), F3_EXCEPT[nm])
            continue
        n_inst += 1
        if viol:
            vs = sorted(set(v[0] for v in viol))
            for p in vs:
                ln, what = a.last_store.get(p, (f.line, "?"))
                ctx.violated("F3", "F3:%s:%s" % (nm, p), f.where(ln),
                             "a persisted dd_t field of `%s` is modified (%s) after the last %s(…, %s) on a path to a "
                             "non-failing return: the on-disk descriptor no longer equals the in-memory one" % (p, what, PERSIST, p))
        else:
            ctx.holds("F3", key, f.where(),
                      "every non-failing path persists the DD after its last store%s" % (
                          "; leaves param %s modified for its callers (checked there)" % sorted(left) if left else ""))
    ctx.floor("F3", 3, direct, "(functions storing to dd_t.{tag,ref,offset,length})")
    ctx.stats["F3_functions"] = sorted(results)


# ---------------------------------------------------------------------------------------
# pairing: HTPcreate registers, HTPdelete unregisters, on every non-failing path


class MustCall(PathAnalysis):
    def __init__(self, prog, names):
        super().__init__(prog)
        self.names = names
        self.exits = []

    def init_user(self, func):
        return frozenset()

    def on_stmt(self, func, bid, idx, stmt, env, user):
        got = set(user)
        for c in calls_in(stmt["e"]):
            if c[1] in self.names:
                got.add(c[1])
        return frozenset(got)

    def on_exit(self, func, bid, retval, env, user):
        self.exits.append((classify_ret(retval, self.fails), user, bid))


def must_call_on_success(ctx, rule, fname, callees, why):
    prog = ctx.prog
    f = prog.func(fname)
    if f is None:
        ctx.unrecognised(rule, "%s:%s" % (rule, fname), "-", "anchor function %s not found" % fname)
        return
    a = MustCall(prog, set(callees))
    a.fails = fail_values(f, prog)
    a.run(f)
    n_ok = 0
    for c in callees:
        bad = [b for cls, got, b in a.exits if cls != "fail" and c not in got]
        n_ok += len([1 for cls, got, b in a.exits if cls != "fail"])
        key = "%s:%s:%s" % (rule, fname, c)
        if bad:
            ctx.violated(rule, key, f.where(), "a non-failing return of %s is reachable without calling %s (%s)" % (fname, c, why))
        else:
            ctx.holds(rule, key, f.where(), "every non-failing path of %s calls %s" % (fname, c))
    if n_ok == 0:
        ctx.unrecognised(rule, "%s:%s" % (rule, fname), f.where(), "no non-failing exit found")


def rule_pairing(ctx):
    must_call_on_success(ctx, "PAIR", "HTPcreate", ["HTIregister_tag_ref", PERSIST],
                         "a created DD must be entered in the tag tree and written")
    must_call_on_success(ctx, "PAIR", "HTPdelete", ["HTIunregister_tag_ref", PERSIST, "HAremove_atom"],
                         "a deleted DD must leave the tag tree and be written")
    must_call_on_success(ctx, "PAIR", "HTPupdate", [PERSIST], "changed offset/length must be written")


# ---------------------------------------------------------------------------------------
# F11 crash-ordering structure

HDR_SZ = 6  # NDDS_SZ + OFFSET_SZ
DD_SZ = 12


def _size_class(e):
    """classify the size argument of an HP_write in a DD-block creator"""
    e = strip(e)
    if kind(e) == "int":
        return "hdr" if e[1] == HDR_SZ else "other"
    has_dd = any(n[0] == "int" and n[1] == DD_SZ for n in walk(e, True))
    has_hdr = any(n[0] == "int" and n[1] == HDR_SZ for n in walk(e, True))
    if kind(e) == "bin" and e[1] == "*" and has_dd and not has_hdr:
        return "list"
    if has_dd and has_hdr:
        return "both"
    return "other"


class F11c(PathAnalysis):
    """typestate: 0 nothing, 1 header written, 2 header+NIL list written (contiguously)"""
    stable_fields = (("filerec_t", "cache"),)

    def __init__(self, prog, newblock_vars):
        super().__init__(prog)
        self.newvars = newblock_vars
        self.bad_links = []
        self.exits = []

    def init_user(self, func):
        return 0

    def on_stmt(self, func, bid, idx, stmt, env, user):
        st = user
        for n in walk(stmt["e"]):
            if n[0] == "call":
                if n[1] == "HP_write" and len(n[3]) >= 3:
                    c = _size_class(n[3][2])
                    if c == "hdr" and st == 0:
                        st = 1
                    elif c == "list" and st == 1:
                        st = 2
                    elif c == "both" and st == 0:
                        st = 2
                elif n[1] == "HPseek":
                    if st == 1:
                        st = 0
            elif n[0] == "asg":
                t = strip(n[2])
                if kind(t) == "mem" and t[3] == "ddblock_t" and t[2] == "nextoffset":
                    b = path(t[1])
                    if b not in self.newvars and not is_int(n[3], 0):
                        if st != 2:
                            self.bad_links.append((n[4], b, st, env.get("$file_rec->cache")))
        return st

    def on_exit(self, func, bid, retval, env, user):
        self.exits.append((classify_ret(retval, self.fails), user, env.get("$file_rec->cache")))


def rule_F11c(ctx):
    prog = ctx.prog
    creators = []
    for f in prog.lib_funcs():
        stores = False
        newvars = set()
        writes = False
        for bid, i, s, n in f.nodes(into_seen=True):
            if n[0] == "asg":
                t = strip(n[2])
                if kind(t) == "mem" and t[3] == "ddblock_t" and t[2] == "myoffset":
                    stores = True
                    newvars.add(path(t[1]))
            elif n[0] == "call" and n[1] == "HP_write":
                writes = True
        if stores and writes:
            creators.append((f, newvars))
    for f, newvars in creators:
        a = F11c(prog, newvars)
        a.fails = fail_values(f, prog)
        a.run(f)
        key = "F11c:%s" % f.name
        bad_exit = [(st, c) for cls, st, c in a.exits if cls != "fail" and st != 2]
        if a.bad_links:
            ln, b, st, c = a.bad_links[0]
            ctx.violated("F11c", key + ":link", f.where(ln),
                         "`%s->nextoffset` (the predecessor's link) is set on a path where the new DD block's %s not been written "
                         "contiguously at its own offset (file_rec->cache %s): between the flush of the predecessor and of the new "
                         "block the link points at bytes that are not a DD block" % (
                             b, "header has" if st == 0 else "NIL descriptor list has", _cv(c)))
        elif any(True for _ in [1]) and not bad_exit:
            ctx.holds("F11c", key + ":link", f.where(), "no predecessor link is set before the new block is complete on disk")
        if bad_exit:
            st, c = bad_exit[0]
            ctx.violated("F11c", key + ":complete", f.where(),
                         "a non-failing return is reachable (file_rec->cache %s) with the new DD block only partly written: %s" % (
                             _cv(c), "no header" if st == 0 else "header but no NIL descriptor list"))
        else:
            ctx.holds("F11c", key + ":complete", f.where(),
                      "every non-failing path writes the 6-byte header and then the ndds*DD_SZ NIL list, with no seek in between")
    ctx.floor("F11c", 2, len(creators), "(functions that create a DD block: store ddblock_t.myoffset and call HP_write)")


def _cv(c):
    if c is None:
        return "unknown"
    if c[0] == "c":
        return "== %d" % c[1]
    if c[0] == "ne":
        return "!= %d" % c[1]
    return str(c)


class F11a(PathAnalysis):
    stable_fields = (("filerec_t", "cache"),)

    def __init__(self, prog):
        super().__init__(prog)
        self.sites = {}

    def on_stmt(self, func, bid, idx, stmt, env, user):
        for c in calls_in(stmt["e"]):
            if c[1] == "HPseek":
                v = None
                for k, val in env.items():
                    if k.startswith("$") and k.endswith("->cache"):
                        v = val
                ok = v is not None and v[0] == "c" and v[1] == 0
                k = (c[5], c[6])
                self.sites[k] = self.sites.get(k, True) and ok
        return user


def rule_F11a(ctx):
    """while DD caching is on, DD mutators never seek back into an existing DD block"""
    prog = ctx.prog
    n = 0
    flush = {"HTPsync", "HTPstart", "HTPinit", "HTPend"}
    for f in prog.lib_funcs():
        if not f.rel.endswith("hfiledd.c") or f.name in flush:
            continue
        if not any(c[1] == "HPseek" for _, _, _, c in f.calls()):
            continue
        for bid, i, s, nn in f.nodes(True):
            if nn[0] == "asg" and mem_field(nn[2]) == ("filerec_t", "cache"):
                ctx.unrecognised("F11a", "F11a:%s" % f.name, f.where(nn[4]), "stores to file_rec->cache inside a DD mutator")
        a = F11a(prog)
        a.run(f)
        ordn = 0
        for (ln, col), ok in sorted(a.sites.items()):
            n += 1
            ordn += 1
            key = "F11a:%s:seek%d" % (f.name, ordn)
            if ok:
                ctx.holds("F11a", key, f.where(ln), "HPseek only on paths where file_rec->cache == 0")
            else:
                ctx.violated("F11a", key, f.where(ln),
                             "HPseek into the DD area is reachable while file_rec->cache is on: a cached session would overwrite "
                             "an existing DD block before the flush")
    ctx.floor("F11a", 2, n, "(HPseek sites in DD mutators of hfiledd.c)")


END_OFF_WRITERS = {"HPgetdiskblock", "HTPstart", "HTPinit", "HTInew_dd_block", "HTIupdate_dd", "Hwrite"}


def rule_F11b(ctx):
    """allocation provenance: file space comes only from the end-of-file allocator"""
    prog = ctx.prog
    n = 0
    # who may write f_end_off
    for f in prog.lib_funcs():
        for bid, i, s, nn in f.nodes(True):
            if nn[0] == "asg" and mem_field(nn[2]) == ("filerec_t", "f_end_off"):
                n += 1
                key = "F11b:endoff:%s" % f.name
                if f.name in END_OFF_WRITERS:
                    ctx.holds("F11b", key, f.where(nn[4]), "f_end_off written by a designated allocator/loader function", nontrivial=False)
                else:
                    ctx.violated("F11b", key, f.where(nn[4]), "filerec_t.f_end_off is written outside {%s}" % ", ".join(sorted(END_OFF_WRITERS)))
    # offset argument of HTPupdate
    m = 0
    for f in prog.lib_funcs():
        for bid, i, s, c in f.calls():
            if c[1] != "HTPupdate" or len(c[3]) < 3:
                continue
            m += 1
            off = strip(c[3][1])
            key = "F11b:offset:%s:%s" % (f.name, render(off))
            verdict, why = _offset_provenance(prog, f, off, 0)
            if verdict == "ok":
                ctx.holds("F11b", key, f.where(c[5]), why)
            elif verdict == "bad":
                ctx.violated("F11b", key, f.where(c[5]), "offset passed to HTPupdate is computed (%s) instead of coming from HPgetdiskblock, "
                             "an existing descriptor or the 'unchanged'/invalid constants" % why)
            else:
                ctx.unrecognised("F11b", key, f.where(c[5]), why)
    ctx.floor("F11b", 4, m, "(HTPupdate call sites)")
    ctx.floor("F11b", 5, n, "(stores to f_end_off)")


def _offset_provenance(prog, f, e, depth):
    e = strip(e)
    k = kind(e)
    if k == "int":
        return "ok", "constant %s" % render(e)
    if k == "mem" and e[2] in ("offset",) and e[3] in ("dd_t",):
        return "ok", "offset of an existing descriptor"
    if k == "mem" and e[2] in ("extern_offset", "offset"):
        return "ok", "offset field of a special-element record (%s.%s)" % (e[3], e[2])
    if k == "call":
        if e[1] == "HPgetdiskblock":
            return "ok", "result of HPgetdiskblock"
        return "bad", "result of %s()" % e[1]
    if k == "var":
        name = e[1]
        if e[2] == "p":
            # parameter: check call sites one level up
            if depth >= 2:
                return "unrec", "parameter chain too deep for %s" % name
            idx = [p[0] for p in f.params].index(name)
            callers = prog.callers().get(f.name, [])
            libc = [(cf, c) for cf, c in callers if "/src/" in cf.rel]
            if not libc:
                return "ok", "parameter of an uncalled/entry function"
            whys = []
            for cf, c in libc:
                if idx >= len(c[3]):
                    continue
                v, w = _offset_provenance(prog, cf, c[3][idx], depth + 1)
                if v != "ok":
                    return v, "%s passes %s" % (cf.name, w)
                whys.append(w)
            return "ok", "parameter; every caller passes: " + "; ".join(sorted(set(whys)))[:200]
        defs = []
        for bid, i, s, n in f.nodes(True):
            if n[0] == "asg" and kind(strip(n[2])) == "var" and strip(n[2])[1] == name:
                if n[1] != "=":
                    return "bad", "%s %s …" % (name, n[1])
                defs.append(n[3])
            elif n[0] == "decl":
                for d in n[1]:
                    if d[0] == name and d[2] is not None:
                        defs.append(d[2])
            elif n[0] == "call":
                # out-parameter of HTPinquire / Hinquire style: &name passed
                for j, a in enumerate(n[3]):
                    a = strip(a)
                    if kind(a) == "addr" and kind(strip(a[1])) == "var" and strip(a[1])[1] == name:
                        defs.append(["outparam", n[1], j])
        if not defs:
            return "unrec", "no definition of %s found" % name
        whys = []
        for d in defs:
            if kind(d) == "outparam":
                if d[1] in ("HTPinquire", "HTPis_special", "Hinquire", "HDinqblockinfo"):
                    whys.append("read back from an existing descriptor via %s" % d[1])
                    continue
                return "bad", "out-parameter of %s" % d[1]
            v, w = _offset_provenance(prog, f, d, depth)
            if v != "ok":
                return v, w
            whys.append(w)
        return "ok", "; ".join(sorted(set(whys)))[:200]
    if k == "asg":
        return _offset_provenance(prog, f, e[3], depth)
    return "bad", render(e)[:80]


# ---------------------------------------------------------------------------------------
# F3b: a changed DD-block link (ddblock_t.nextoffset of an existing block) must be persisted:
# either the block is marked dirty (cache mode, written by HTPsync) or it is written directly.


class F3b(PathAnalysis):
    stable_fields = (("filerec_t", "cache"),)

    def __init__(self, prog):
        super().__init__(prog)
        self.exits = []
        self.where = {}

    def init_user(self, func):
        return frozenset()

    def on_stmt(self, func, bid, idx, stmt, env, user):
        pend = set(user)
        for n in walk(stmt["e"]):
            if n[0] == "asg":
                t = strip(n[2])
                if kind(t) == "mem" and t[3] == "ddblock_t":
                    b = path(t[1])
                    if t[2] == "nextoffset" and not is_int(n[3], 0):
                        pend.add(b)
                        self.where[b] = n[4]
                    elif t[2] == "dirty" and not is_int(n[3], 0):
                        pend.discard(b)
            elif n[0] == "call" and n[1] == "HP_write":
                pend.clear()
        return frozenset(pend)

    def on_exit(self, func, bid, retval, env, user):
        c = None
        for k, v in env.items():
            if k.startswith("$") and k.endswith("->cache"):
                c = v
        self.exits.append((classify_ret(retval, self.fails), user, c))


def rule_F3b(ctx):
    prog = ctx.prog
    n = 0
    for f in prog.lib_funcs():
        if not any(nn[0] == "asg" and mem_field(nn[2]) == ("ddblock_t", "nextoffset") and not is_int(nn[3], 0)
                   for _, _, _, nn in f.nodes(True)):
            continue
        if f.name in ("HTPstart",):
            ctx.excepted("F3b", "F3b:%s" % f.name, f.where(), "reader: decodes nextoffset from the file")
            continue
        n += 1
        a = F3b(prog)
        a.fails = fail_values(f, prog)
        a.run(f)
        bad = [(p, c) for cls, pend, c in a.exits if cls != "fail" for p in pend]
        key = "F3b:%s" % f.name
        if bad:
            p, c = bad[0]
            ctx.violated("F3b", key + ":" + p, f.where(a.where.get(p)),
                         "`%s->nextoffset` is changed but on a non-failing path (file_rec->cache %s) the block is neither marked dirty "
                         "nor written: the link to the next DD block never reaches the disk" % (p, _cv(c)))
        else:
            ctx.holds("F3b", key, f.where(), "every changed DD-block link is marked dirty or written on all non-failing paths")
    ctx.floor("F3b", 1, n, "(functions linking DD blocks)")


# ---------------------------------------------------------------------------------------
# F3c: dirty-flag discipline of the Vgroup / Vdata mirrors — a store to a persisted field must come with `marked`

F3C_RECORDS = {"vgroup_desc": ("vpackvg", "marked"), "vdata_desc": ("vpackvs", "marked"), "ri_info": ("GRIupdatemeta", "meta_modified")}
F3C_NAME_FIELDS = {"vgroup_desc": {"vgname", "vgclass"}, "vdata_desc": {"vsname", "vsclass"}, "ri_info": {"name", "lut_ref", "lut_tag"}}
F3C_NOT_MUTATORS = {
    "vunpackvg": "reader: fills the record from the file", "vunpackvs": "reader: fills the record from the file",
    "oldunpackvg": "reader of the old format", "oldunpackvs": "reader of the old format",
    "VPgetinfo": "reader", "VSPgetinfo": "reader", "vpackvg": "encoder (bumps the in-memory version to the one it writes)",
    "vpackvs": "encoder", "VIget_vgroup_node": "allocator", "VSIget_vdata_node": "allocator",
    "Vdetach": "the flush itself: writes the record and clears `marked`", "VSdetach": "the flush itself",
    "VSattach": "constructor of a new in-memory Vdata (default interlace of a not-yet-defined Vdata; the header is written once "
                "fields are set, VSsetfields marks it)",
    "vimakecompat": "old-format converter: writes the converted records itself", "vmakecompat": "old-format converter",
    "GRIget_image_list": "reader: builds the in-memory image records from the file",
    "GRIupdatemeta": "encoder: allocates the references of the dimension records while writing them",
}
COPY_TO = {"strcpy", "strncpy", "HIstrncpy", "memcpy", "strcat"}


def _persisted_fields(prog):
    from .codec import codec_events
    out = {}
    for rec, (packer, mark) in F3C_RECORDS.items():
        f = prog.func(packer)
        fields = set(F3C_NAME_FIELDS[rec])
        if f is not None:
            for ev, st in codec_events(f):
                e = strip(ev.expr)
                while kind(e) in ("cast", "idx"):
                    e = strip(e[2] if kind(e) == "cast" else e[1])
                if kind(e) == "mem" and e[3] == rec:
                    fields.add(e[2])
                elif kind(e) == "mem":
                    b = strip(e[1])
                    while kind(b) in ("idx", "mem") and not (kind(b) == "mem" and b[3] == rec):
                        b = strip(b[1])
                    if kind(b) == "mem" and b[3] == rec:
                        fields.add(b[2])
        fields.discard("version")
        fields.discard("more")
        out[rec] = fields
    return out


def _rec_store(e, fields):
    """(record, base path) if expression e designates a persisted field of a tracked record"""
    e = strip(e)
    while kind(e) in ("idx", "deref") or (kind(e) == "mem" and e[3] not in fields):
        e = strip(e[1])
    if kind(e) == "mem" and e[3] in fields and e[2] in fields[e[3]]:
        return e[3], path(e[1])
    return None


class F3c(PathAnalysis):
    def __init__(self, prog, fields):
        super().__init__(prog)
        self.fields = fields
        self.exits = []
        self.where = {}

    def init_user(self, func):
        return (frozenset(), frozenset())  # (bases with unmarked stores, bases marked)

    def on_stmt(self, func, bid, idx, stmt, env, user):
        pend, marked = set(user[0]), set(user[1])
        for n in walk(stmt["e"]):
            if n[0] == "asg":
                t = strip(n[2])
                if kind(t) == "mem" and t[3] in F3C_RECORDS and t[2] == F3C_RECORDS[t[3]][1]:
                    b = path(t[1])
                    if not is_int(n[3], 0):
                        marked.add(b)
                        pend.discard(b)
                    continue
                rs = _rec_store(t, self.fields)
                if rs and rs[1] not in marked:
                    pend.add(rs[1])
                    self.where.setdefault(rs[1], (n[4], render(n)[:60]))
            elif n[0] == "incdec":
                rs = _rec_store(n[3], self.fields)
                if rs and rs[1] not in marked:
                    pend.add(rs[1])
                    self.where.setdefault(rs[1], (n[4], render(n)[:60]))
            elif n[0] == "call" and n[1] in COPY_TO and n[3]:
                rs = _rec_store(n[3][0], self.fields)
                if rs and rs[1] not in marked:
                    pend.add(rs[1])
                    self.where.setdefault(rs[1], (n[5], render(n)[:60]))
        return (frozenset(pend), frozenset(marked))

    def on_exit(self, func, bid, retval, env, user):
        self.exits.append((classify_ret(retval, self.fails), user[0]))


def rule_F3c(ctx, records=None):
    prog = ctx.prog
    fields = _persisted_fields(prog)
    if records:
        fields = {r: f for r, f in fields.items() if r in records}
    n = 0
    for f in prog.lib_funcs():
        touches = False
        for _, _, _, nn in f.nodes(True):
            if nn[0] == "asg" and _rec_store(nn[2], fields):
                touches = True
            elif nn[0] == "incdec" and _rec_store(nn[3], fields):
                touches = True
            elif nn[0] == "call" and nn[1] in COPY_TO and nn[3] and _rec_store(nn[3][0], fields):
                touches = True
        if not touches:
            continue
        key = "F3c:%s" % f.name
        if f.name in F3C_NOT_MUTATORS:
            ctx.excepted("F3c", key, f.where(), F3C_NOT_MUTATORS[f.name])
            continue
        n += 1
        a = F3c(prog, fields)
        a.fails = fail_values(f, prog)
        a.run(f)
        bad = sorted({b for cls, pend in a.exits if cls != "fail" for b in pend})
        if bad:
            b = bad[0]
            ln, what = a.where.get(b, (f.line, "?"))
            marks = "/".join(sorted({m for r, (pk, m) in F3C_RECORDS.items() if r in fields}))
            ctx.violated("F3c", key + ":" + b, f.where(ln),
                         "a persisted field of `%s` is changed (%s) but on a non-failing path `%s->%s` is never set: the change is lost "
                         "at detach/end and the file keeps the old record" % (b, what, b, marks))
        else:
            ctx.holds("F3c", key, f.where(), "every non-failing path that changes a persisted field also sets the record's modified flag")
    ctx.floor("F3c", sum({"ri_info": 3}.get(r, 4) for r in fields), n, "(functions changing persisted Vgroup/Vdata/image fields)")


# ---------------------------------------------------------------------------------------
# UNROLL2: a loop that consumes two elements per iteration needs an even number of them

def rule_unrolled_pairs(ctx):
    """UNROLL2 (C12): a `for (; i < n; i++, p++)` loop whose body advances `i` and `p` once more handles two elements per
    iteration; it stays inside the array only if the number of remaining elements is even.  The statement before the loop must
    therefore be `if (n % 2 == 1) { ...; i++; p++; }` with the increments executed unconditionally inside that block (the odd
    element is consumed whether or not it matches)."""
    from .codec import ast_walk
    prog = ctx.prog
    n = 0
    for f in prog.lib_funcs():
        blocks = []

        def vis(nn, st):
            if nn[0] == "block":
                blocks.append(nn)
            return True
        ast_walk(f.raw.get("ast"), vis)
        for b in blocks:
            kids = b[1]
            for i, k in enumerate(kids):
                if k[0] != "for" or k[2] is None:
                    continue
                c = strip(k[2])
                if not (kind(c) == "bin" and c[1] == "<" and kind(strip(c[2])) == "var"):
                    continue
                iv = strip(c[2])[1]
                bound = render(c[3])
                # extra increments of the loop variable at the top level of the body
                body = k[4]
                stmts = body[1] if body[0] == "block" else [body]
                extra = [s for s in stmts if s[0] == "s" and kind(strip(s[1])) == "incdec" and kind(strip(strip(s[1])[3])) == "var" and strip(strip(s[1])[3])[1] == iv]
                if not extra:
                    continue
                n += 1
                key = "UNROLL2:%s:%s" % (f.name, iv)
                prev = kids[i - 1] if i > 0 else None
                ok = False
                why = "no parity adjustment `if (%s %% 2 == 1) { ...; %s++; }` directly before the loop" % (bound, iv)
                if prev is not None and prev[0] == "if":
                    pc = strip(prev[1])
                    mentions_mod = any(x[0] == "bin" and x[1] == "%" and is_int(x[3]) and int_val(x[3]) == 2 for x in walk(pc, True))
                    then = prev[2]
                    tst = then[1] if then[0] == "block" else [then]
                    uncond = any(s[0] == "s" and kind(strip(s[1])) == "incdec" and kind(strip(strip(s[1])[3])) == "var" and strip(strip(s[1])[3])[1] == iv for s in tst)
                    if mentions_mod and uncond:
                        ok = True
                    elif mentions_mod:
                        why = "the parity adjustment before the loop increments `%s` only conditionally: when the odd element does not match, the pairwise loop runs one element past the end" % iv
                if ok:
                    ctx.holds("UNROLL2", key, f.where(), "two elements per iteration; the odd element is consumed unconditionally before the loop", nontrivial=True)
                else:
                    ctx.violated("UNROLL2", key, f.where(), why)
    ctx.floor("UNROLL2", 1, n, "(loops consuming two elements per iteration)")
    return n


def _addends(e):
    e = strip(e)
    if kind(e) == "bin" and e[1] == "+":
        return _addends(e[2]) + _addends(e[3])
    return [e]


def rule_ddblock_extent(ctx):
    """DDBLOCKSZ (C12, C17): on disk a DD block is a 6-byte header (NDDS_SZ + OFFSET_SZ) followed by ndds descriptors of DD_SZ
    bytes.  Every sum that locates something behind descriptors — it has an addend `k * DD_SZ` together with a block offset, or
    is the size requested for a whole block — also counts the header; a sum that leaves it out places the end of the block, the
    end of the file or a descriptor 6 bytes too early, and later allocations overlap the block."""
    prog = ctx.prog
    n = 0
    for f in prog.lib_funcs():
        if not f.rel.startswith("hdf/src/"):
            continue
        seen = set()
        for bid, i, s, x in f.nodes(True):
            if not (x[0] == "bin" and x[1] == "+"):
                continue
            ads = _addends(x)
            dd = [a for a in ads if kind(a) == "bin" and a[1] == "*" and any(int_name(y) == "DD_SZ" for y in (a[2], a[3]))]
            if not dd:
                continue
            # only maximal sums
            r = render(x)
            if any(r in o and r != o for o in seen):
                continue
            others = [a for a in ads if a not in dd]
            located = any(mem_field(a) and mem_field(a)[1] in ("myoffset", "nextoffset") for a in others)
            consts = sum(int_val(a) for a in others if is_int(a))
            whole = any(is_int(a) for a in others)
            if not located and not whole:
                continue
            seen.add(r)
            line = s.get("l", f.line)
            n += 1
            key = "DDBLOCKSZ:%s:%d" % (f.name, len(seen))
            if consts == HDR_SZ:
                ctx.holds("DDBLOCKSZ", key, f.where(line), "`%s` counts the %d-byte block header" % (r[:80], HDR_SZ), nontrivial=True)
            else:
                ctx.violated("DDBLOCKSZ", key, f.where(line), "`%s` adds descriptors of DD_SZ bytes to a block offset but counts %d instead of %d bytes for the block header (NDDS_SZ + OFFSET_SZ): "
                             "the position it computes lies inside the DD block" % (r[:90], consts, HDR_SZ))
    ctx.floor("DDBLOCKSZ", 4, n, "(offset sums over DD_SZ-sized descriptors)")
    return n


class _EndExt(PathAnalysis):
    """user = frozenset of: 'E' FILE_END_DIRTY or-ed into file_rec->dirty, 'W' something written (HP_write seen not failing is not
    required: a failing write leaves through the fail exit), 'Z' the amount is known not to be positive, 'A' f_end_off advanced"""

    def __init__(self, prog, amount):
        super().__init__(prog)
        self.amount = amount
        self.exits = []

    def init_user(self, func):
        return frozenset()

    def on_stmt(self, func, bid, idx, stmt, env, user):
        u = set(user)
        for n in walk(stmt["e"]):
            if n[0] == "asg" and mem_field(n[2]) == ("filerec_t", "dirty") and n[1] in ("|=", "=") and is_int(n[3]) and int_val(n[3]) & 2:
                u.add("E")
            elif n[0] == "call" and n[1] == "HP_write":
                u.add("W")
            elif n[0] == "asg" and n[1] == "+=" and mem_field(n[2]) == ("filerec_t", "f_end_off"):
                u.add("A")
        return frozenset(u)

    def on_assume(self, func, bid, cond, pol, env, user):
        c = strip(cond)
        if kind(c) == "bin" and c[1] == ">" and kind(strip(c[2])) == "var" and strip(c[2])[1] == self.amount and is_int(c[3], 0) and not pol:
            return frozenset(set(user) | {"Z"})
        return user

    def on_exit(self, func, bid, retval, env, user):
        self.exits.append((classify_ret(retval, self.fails), user))


def rule_end_extension(ctx):
    """ENDEXT (C02, C17): space is allocated by advancing `f_end_off`.  Every descriptor written later may point into that space, so
    the file must really become that long: a function that advances f_end_off by a positive amount either writes at the new end
    itself or records FILE_END_DIRTY, which makes HIsync extend the file before the descriptors are flushed.  Otherwise a file can be
    closed with descriptors that reach past its end."""
    prog = ctx.prog
    n = 0
    for f in prog.lib_funcs():
        adv = [x for _b, _i, _s, x in f.nodes(True) if x[0] == "asg" and x[1] == "+=" and mem_field(x[2]) == ("filerec_t", "f_end_off")]
        if not adv:
            continue
        amt = strip(adv[0][3])
        n += 1
        key = "ENDEXT:%s" % f.name
        a = _EndExt(prog, amt[1] if kind(amt) == "var" else None)
        a.fails = fail_values(f, prog)
        a.run(f)
        bad = [u for cls, u in a.exits if cls != "fail" and "A" in u and not (u & {"E", "W", "Z"})]
        ok = [u for cls, u in a.exits if cls != "fail" and "A" in u]
        if not ok:
            ctx.unrecognised("ENDEXT", key, f.where(), "no non-failing path advances f_end_off")
        elif bad:
            ctx.violated("ENDEXT", key, f.where(adv[0][4]), "a non-failing path advances f_end_off by a positive amount without writing at the new end and without setting FILE_END_DIRTY: "
                         "the file is never extended over the reserved space, and descriptors written later reach past the end of the file")
        else:
            ctx.holds("ENDEXT", key, f.where(adv[0][4]), "every non-failing path that advances f_end_off writes at the new end or sets FILE_END_DIRTY (or the amount is 0)", nontrivial=True)
    ctx.floor("ENDEXT", 1, n, "(functions that advance f_end_off)")
    return n


class _OpenInit(PathAnalysis):
    def __init__(self, prog):
        super().__init__(prog)
        self.exits = []

    def init_user(self, func):
        return frozenset()

    def on_stmt(self, func, bid, idx, stmt, env, user):
        u = set(user)
        for n in walk(stmt["e"]):
            if n[0] == "asg" and n[1] == "=":
                mf = mem_field(n[2])
                if mf == ("filerec_t", "refcount") and is_int(n[3], 1):
                    u.add("R")
                elif mf == ("filerec_t", "cache"):
                    u.add("C")
                elif mf == ("filerec_t", "dirty"):
                    u.add("D")
        return frozenset(u)

    def on_exit(self, func, bid, retval, env, user):
        self.exits.append((classify_ret(retval, self.fails), user))


def rule_open_cache_init(ctx):
    """OPENINIT (C17): the guarantee 'nothing is written into old space before the flush' rests on descriptor caching, which is a
    per-open-file flag.  A file record is recycled between opens, so every non-failing path of Hopen that makes a record live
    (`refcount = 1`) — for an existing file as well as for a new one — must store `cache` (from the session default) and
    clear `dirty`; otherwise an existing file runs with whatever the record held (0 after calloc: caching off, every
    descriptor change written in place at once)."""
    prog = ctx.prog
    n = 0
    for f in prog.lib_funcs():
        # `refcount = 1`, a plain assignment: `refcount += 1` (one more reference to a record that is already live) is not an open
        if not any(x[0] == "asg" and x[1] == "=" and mem_field(x[2]) == ("filerec_t", "refcount") and is_int(x[3], 1) for _b, _i, _s, x in f.nodes(True)):
            continue
        n += 1
        key = "OPENINIT:%s" % f.name
        a = _OpenInit(prog)
        a.fails = fail_values(f, prog)
        a.run(f)
        live = [u for cls, u in a.exits if cls != "fail" and "R" in u]
        bad = [u for u in live if not {"C", "D"} <= u]
        if not live:
            ctx.unrecognised("OPENINIT", key, f.where(), "no non-failing path sets refcount = 1")
        elif bad:
            miss = sorted({"C": "cache", "D": "dirty"}[k] for k in {"C", "D"} - bad[0])
            ctx.violated("OPENINIT", key, f.where(), "a non-failing path makes a file record live (refcount = 1) without storing `%s`: an existing file is opened with the value the recycled "
                         "or freshly allocated record happens to hold, not with the session's caching default" % "`, `".join(miss))
        else:
            ctx.holds("OPENINIT", key, f.where(), "every non-failing path that makes a file record live stores cache and dirty", nontrivial=True)
    ctx.floor("OPENINIT", 1, n, "(functions that make a file record live)")
    return n


def rule_duplicate_refused_first(ctx):
    """DUPFIRST (C12): HTPcreate is the one routine that enters a new tag/ref into the directory: it claims a free descriptor,
    stores tag and ref in it, writes it (HTIupdate_dd) and registers it.  The registration refuses a pair that already exists —
    after the descriptor has been claimed and written, and its error path tears down the tag's live ref table.  The pair must
    therefore be looked up (DAget_elem on the tag's table) and refused *before* the first store into the descriptor."""
    prog = ctx.prog
    f = prog.func("HTPcreate")
    key = "DUPFIRST:HTPcreate"
    if f is None:
        ctx.unrecognised("DUPFIRST", key, "-", "HTPcreate not found")
        return 0
    stores = [x[4] for _b, _i, _s, x in f.nodes(True) if x[0] == "asg" and mem_field(x[2]) in (("dd_t", "tag"), ("dd_t", "ref"))]
    if not stores:
        ctx.unrecognised("DUPFIRST", key, f.where(), "HTPcreate no longer stores tag/ref into a descriptor")
        return 0
    first = min(stores)
    looked = []
    for b in f.blocks.values():
        t = b.get("term")
        if t and t.get("cond") is not None and any(c[1] in ("DAget_elem", "HDcheck_tagref") for c in calls_in(t["cond"], True)):
            looked.append(t.get("l") or 0)
    if looked and min(looked) < first:
        ctx.holds("DUPFIRST", key, f.where(min(looked)), "an existing tag/ref is looked up and refused before the descriptor is claimed (line %d < %d)" % (min(looked), first), nontrivial=True)
    else:
        ctx.violated("DUPFIRST", key, f.where(first), "HTPcreate stores the new tag/ref into a descriptor (line %d) without having looked the pair up first: a duplicate is noticed only by the "
                     "registration, after the descriptor was written, and the error path destroys the tag's live ref table" % first)
    return 1


def rule_failure_tested_wide(ctx):
    """NARROWFAIL (C12, C20): 65535 is a legal reference number.  A search result that is narrowed to 16 bits before it is compared
    with the (equally narrowed) failure value can no longer tell 'reference 65535' from 'nothing found'.  In the directory code
    (hfiledd.c) no comparison has the narrowed failure value 0xFFFF on one side and a value cast to 16 bits on the other."""
    prog = ctx.prog
    n = 0
    for f in prog.lib_funcs():
        if not f.rel.endswith("hfiledd.c"):
            continue
        cmps = 0
        for _b, _i, s, x in f.nodes(True):
            if x[0] == "bin" and x[1] in ("==", "!="):
                cmps += 1
                for a, o in ((x[2], x[3]), (x[3], x[2])):
                    if is_int(o) and int_val(o) == 0xFFFF:
                        ua = a
                        while isinstance(ua, list) and ua and ua[0] == "seen":
                            ua = ua[1]
                        inner = ua[3] if kind(ua) == "asg" else ua
                        while isinstance(inner, list) and inner and inner[0] == "seen":
                            inner = inner[1]
                        if kind(inner) == "cast" and inner[1] in ("uint16", "unsigned short") and kind(strip(inner[2])) == "call":
                            ctx.violated("NARROWFAIL", "NARROWFAIL:%s" % f.name, f.where(s.get("l")), "`%s` compares a search result with the failure value after both were narrowed to 16 bits: "
                                         "the legal reference 65535 is taken for a failure" % render(x)[:80])
        n += cmps
    ctx.holds("NARROWFAIL", "NARROWFAIL:hfiledd", "hdf/src/hfiledd.c", "%d equality tests, none between a narrowed search result and 0xFFFF" % n, nontrivial=False)
    ctx.floor("NARROWFAIL", 20, n, "(equality tests in hfiledd.c)")
    return n


def rule_special_variant_matched(ctx):
    """SPECIALMATCH (C12): an element stored as a special element (linked blocks, compressed, external, chunked) carries the special
    variant of its tag in the directory.  A search for the base tag must find it, in every search mode and direction: wherever
    HTIfind_dd compares a descriptor's tag with the tag looked for, the same condition also accepts `special_tag`, unless an
    enclosing test has established that the tag has no special variant."""
    from .codec import ast_walk
    prog = ctx.prog
    total = 0
    for fname, lookvar, floor_ in (("HTIfind_dd", "look_tag", 3), ("HTIcount_dd", "cnt_tag", 2)):
        total += _special_match_in(ctx, prog, fname, lookvar, floor_)
    return total


def _special_match_in(ctx, prog, fname, lookvar, floor_):
    from .codec import ast_walk
    f = prog.func(fname)
    if f is None:
        ctx.unrecognised("SPECIALMATCH", "SPECIALMATCH:%s" % fname, "-", "%s not found" % fname)
        return 0
    sites = []

    def is_tag_cmp(x, name):
        if x[0] != "bin" or x[1] != "==":
            return False
        sides = [strip(x[2]), strip(x[3])]
        return any((mem_field(s) or (0, 0)) == ("dd_t", "tag") for s in sides) and any(kind(s) == "var" and s[1] == name for s in sides)

    def vis(nn, st):
        if nn[0] == "if":
            if any(is_tag_cmp(x, lookvar) for x in walk(nn[1], True)):
                outer = [a for a in st if a[0] == "if"]
                sites.append((nn, outer, [a for a in st]))
        return True
    ast_walk(f.raw.get("ast"), vis)
    n = 0
    for k, (nn, outer, st) in enumerate(sites):
        n += 1
        key = "SPECIALMATCH:%s#%d" % (fname, k + 1)
        same = any(is_tag_cmp(x, "special_tag") for x in walk(nn[1], True))
        # enclosed by `if (special_tag == DFTAG_NULL)` (then-arm): nothing to match
        none = False
        for a in outer:
            c = strip(a[1])
            if kind(c) == "bin" and c[1] == "==" and kind(strip(c[2])) == "var" and strip(c[2])[1] == "special_tag" and is_int(c[3]):
                # are we in the then-arm?
                i = st.index(a)
                child = st[i + 1] if i + 1 < len(st) else nn
                if child is a[2] or a[2] in st[i + 1:i + 2]:
                    none = True
        if same:
            ctx.holds("SPECIALMATCH", key, f.where(nn[4]), "the match also accepts special_tag", nontrivial=True)
        elif none:
            ctx.holds("SPECIALMATCH", key, f.where(nn[4]), "only reached when the tag has no special variant (special_tag == DFTAG_NULL)", nontrivial=False)
        else:
            ctx.violated("SPECIALMATCH", key, f.where(nn[4]), "`%s` matches the base tag only: an element stored under the special variant of the tag is not found by this search mode" % render(nn[1])[:80])
    ctx.floor("SPECIALMATCH", floor_, n, "(tag matches in %s)" % fname)
    return n


def rule_tag_tree_key_is_base(ctx):
    """BASETAGKEY (C12): the per-file tag tree (and the bit vector of used references hanging off it) is keyed by *base* tag: the
    special variant of a tag shares the entry of its base tag.  Every look-up in `tag_tree` therefore uses a key that was reduced
    with BASETAG(); a look-up with the caller's tag misses the entry for a special tag, and Htagnewref then hands out reference 1
    although it is in use."""
    prog = ctx.prog
    n = 0
    for f in prog.lib_funcs():
        if not f.rel.endswith(("hfiledd.c", "hfile.c")):
            continue
        # statements that use BASETAG, by line
        base_defs = set()
        blines = {l for (mf, l, c), ms in prog.macros.get(f.tu, {}).items() if mf == f.file and f.line <= l <= f.endline and any(m["n"] == "BASETAG" for m in ms)}
        for bid, i, st in f.stmts():
            if st["l"] in blines:
                for x in walk(st["e"], True):
                    if x[0] == "decl":
                        for d in x[1]:
                            if d[2] is not None:
                                base_defs.add(d[0])
                    elif x[0] == "asg" and kind(strip(x[2])) == "var":
                        base_defs.add(strip(x[2])[1])
        ordn = 0
        for _b, _i, _s, c in f.calls():
            if c[1] != "tbbtdfind" or len(c[3]) < 2 or not any(y[0] == "mem" and y[2] == "tag_tree" for y in walk(c[3][0], True)):
                continue
            ordn += 1
            n += 1
            key = "BASETAGKEY:%s#%d" % (f.name, ordn)
            v = base_var(c[3][1])
            if v in base_defs:
                ctx.holds("BASETAGKEY", key, f.where(c[5]), "key `%s` was computed with BASETAG()" % v, nontrivial=True)
            else:
                ctx.violated("BASETAGKEY", key, f.where(c[5]), "the tag tree is searched with `%s`, which was not reduced with BASETAG(): for a special tag the entry of its base tag is missed" % (v or render(c[3][1])[:30]))
    ctx.floor("BASETAGKEY", 4, n, "(look-ups in the tag tree)")
    return n


def rule_descriptor_offset_block(ctx):
    """OWNBLOCK (C02, C12): a descriptor lives in one particular DD block; its position on disk is that block's offset plus the header
    plus its index times DD_SZ.  In a routine that has the descriptor's own block at hand (a local `block`), the sum that locates
    a descriptor is rooted at `block->myoffset` — not at the head or the tail of the block list, which is the same block only while
    the file has a single DD block."""
    prog = ctx.prog
    n = 0
    for f in prog.lib_funcs():
        if not f.rel.endswith("hfiledd.c"):
            continue
        has_block = any(x[0] == "var" and x[1] == "block" for _b, _i, _s, x in f.nodes(True))
        if not has_block:
            continue
        seen = set()
        for _b, _i, s, x in f.nodes(True):
            if not (x[0] == "bin" and x[1] == "+"):
                continue
            ads = _addends(x)
            if not any(kind(a) == "bin" and a[1] == "*" and any(int_name(y) == "DD_SZ" for y in (a[2], a[3])) for a in ads):
                continue
            offs = [a for a in ads if mem_field(a) and mem_field(a)[1] == "myoffset"]
            if not offs:
                continue
            r = render(x)
            if r in seen or any(r in o for o in seen):
                continue
            seen.add(r)
            n += 1
            key = "OWNBLOCK:%s#%d" % (f.name, len(seen))
            root = render(strip(strip(offs[0])[1]))
            if root == "block":
                ctx.holds("OWNBLOCK", key, f.where(s.get("l")), "`%s` is rooted at the descriptor's own block" % r[:70], nontrivial=True)
            else:
                ctx.violated("OWNBLOCK", key, f.where(s.get("l")), "`%s` locates a descriptor from `%s->myoffset` although the descriptor's own block is at hand: descriptors of the second and later "
                             "DD blocks are written into the slots of another block" % (r[:80], root))
    ctx.floor("OWNBLOCK", 2, n, "(descriptor positions computed in routines that hold the descriptor's block)")
    return n


def rule_null_slots_skipped(ctx):
    """NULLSKIP (C12): a deleted descriptor keeps its slot: only its tag becomes DFTAG_NULL, the ref and offset stay behind.  Every
    walk over the descriptor lists in HTIfind_dd that can report a slot as a match (`*pdd = ..`) must therefore step over
    DFTAG_NULL slots before it compares anything else — or be the walk that looks for empty slots.  A walk that matches on the ref
    alone reports a deleted entry as a live one, and wildcard enumeration stops at it."""
    from .codec import ast_walk
    from .facts import int_name, base_var
    prog = ctx.prog
    f = prog.func("HTIfind_dd")
    if f is None or not f.raw.get("ast"):
        ctx.unrecognised("NULLSKIP", "NULLSKIP:HTIfind_dd", "-", "HTIfind_dd not found")
        return 0
    loops = []
    ast_walk(f.raw["ast"], lambda nd, st: (loops.append(nd) if nd[0] == "for" else None, True)[1])

    def is_null_test(c):
        """condition contains `<x>.tag == DFTAG_NULL` at its top level (possibly and-ed with more)"""
        c = strip(c)
        if kind(c) == "bin" and c[1] == "&&":
            return is_null_test(c[2]) or is_null_test(c[3])
        return kind(c) == "bin" and c[1] == "==" and (mem_field(c[2]) or (0, 0))[1] == "tag" and int_name(c[3]) == "DFTAG_NULL"

    n = 0
    for lp in loops:
        body = lp[4]
        kids = body[1] if body and body[0] == "block" else [body]
        # innermost walks only: a direct child `if` whose arm stores into *pdd
        match = None
        for kid in kids:
            if kid[0] == "if":
                hit = []
                ast_walk(kid[2], lambda nd, st: (hit.append(1) if nd[0] == "s" and any(x[0] == "asg" and kind(strip(x[2])) == "deref" and base_var(x[2]) == "pdd" for x in walk(nd[1], True)) else None, True)[1])
                if hit:
                    match = kid
                    break
        if match is None:
            for kid in kids:
                if kid[0] == "s" and any(x[0] == "asg" and kind(strip(x[2])) == "deref" and base_var(x[2]) == "pdd" for x in walk(kid[1], True)):
                    match = ["if", ["int", 1], kid, None]
                    break
        if match is None:
            continue
        n += 1
        key = "NULLSKIP:HTIfind_dd#%d" % n
        line = lp[-3] if isinstance(lp[-3], int) else f.line
        if is_null_test(match[1]) and kind(strip(match[1])) == "bin" and strip(match[1])[1] == "==":
            ctx.holds("NULLSKIP", key, f.where(line), "this walk looks for empty slots", nontrivial=True)
            continue
        first = kids[0]
        ok = first is not match and first[0] == "if" and is_null_test(first[1]) and first[2] is not None and \
            ((first[2][0] == "continue") or (first[2][0] == "block" and first[2][1] and first[2][1][0][0] == "continue"))
        if ok:
            ctx.holds("NULLSKIP", key, f.where(line), "empty slots are stepped over before the match test `%s`" % render(match[1])[:70], nontrivial=True)
        else:
            ctx.violated("NULLSKIP", key, f.where(line), "this walk reports a slot as a match on `%s` without first stepping over DFTAG_NULL slots: a deleted descriptor (tag cleared, ref left behind) is found as if it were live" % render(match[1])[:80])
    ctx.floor("NULLSKIP", 7, n, "(descriptor walks in HTIfind_dd that can report a match)")
    return n


def rule_link_written_in_predecessor(ctx):
    """LINKPOS (C12, C02): a new DD block becomes part of the file when its offset is written into the `next` field of the block
    that was last until now (`ddlast`) — at that block's position + NDDS_SZ, or right behind the magic number when that block is
    the first.  In HTInew_dd_block the position of that write must therefore be computed from `ddlast` (its own offset, or its
    predecessor's link to it) except in the arm taken when `ddhead == ddlast`.  Computed from the head of the list it overwrites
    the head's link for the third and every later block, and all blocks in between drop out of the chain."""
    from .codec import ast_walk
    prog = ctx.prog
    f = prog.func("HTInew_dd_block")
    if f is None or not f.raw.get("ast"):
        ctx.unrecognised("LINKPOS", "LINKPOS:HTInew_dd_block", "-", "HTInew_dd_block not found")
        return 0
    # the variable handed to HPseek
    seekv = None
    for _b, _i, _s, c in f.calls():
        if c[1] == "HPseek" and len(c[3]) > 1 and kind(strip(c[3][1])) == "var":
            seekv = strip(c[3][1])[1]
    if seekv is None:
        ctx.unrecognised("LINKPOS", "LINKPOS:HTInew_dd_block", f.where(), "no HPseek to a computed position")
        return 0
    sites = []

    def vis(nd, st):
        if nd[0] == "s":
            for x in walk(nd[1], True):
                if x[0] == "asg" and x[1] == "=" and kind(strip(x[2])) == "var" and strip(x[2])[1] == seekv:
                    only_block = False
                    chain = st + [nd]
                    for i, s_ in enumerate(st):
                        if s_[0] == "if":
                            c = strip(s_[1])
                            if kind(c) == "bin" and c[1] == "==" and {(mem_field(c[2]) or (0, 0))[1], (mem_field(c[3]) or (0, 0))[1]} == {"ddhead", "ddlast"} and chain[i + 1] is s_[2]:
                                only_block = True
                    sites.append((x, only_block, nd[-3] if isinstance(nd[-3], int) else f.line))
        return True

    ast_walk(f.raw["ast"], vis)
    n = 0
    for x, only_block, line in sites:
        n += 1
        key = "LINKPOS:HTInew_dd_block#%d" % n
        fields = [y[2] for y in walk(x[3], True) if y[0] == "mem"]
        if only_block:
            ctx.holds("LINKPOS", key, f.where(line), "single-block arm (`ddhead == ddlast`): the link sits behind the magic number", nontrivial=True)
        elif "ddlast" in fields:
            ctx.holds("LINKPOS", key, f.where(line), "`%s` is computed from the block that was last (`ddlast`)" % render(x[3])[:60], nontrivial=True)
        else:
            ctx.violated("LINKPOS", key, f.where(line), "the position of the link to the new block, `%s`, is not computed from `ddlast`: for a file with more than two DD blocks the link of another block is overwritten and the blocks in between are lost" % render(x[3])[:70])
    ctx.floor("LINKPOS", 2, n, "(positions at which HTInew_dd_block writes the link to the new block)")
    return n


def rule_cache_switch_polarity(ctx):
    """CACHEPOL (C17): the guarantee "nothing is written into old space before the flush" rests on descriptor caching being ON, which
    is the default and what Hcache(.., TRUE) asks for.  Hcache stores its argument in two places (the default for files opened
    later, the flag of one open file); both stores must map a non-zero argument to TRUE and zero to FALSE.  Each right-hand side
    that reads the argument is evaluated for 1 and for 0; an inverted store makes every file of a program that *asks* for
    caching run uncached, and each descriptor update then goes into the old descriptor blocks ahead of the data."""
    prog = ctx.prog
    f = prog.func("Hcache")
    if f is None:
        ctx.unrecognised("CACHEPOL", "CACHEPOL:Hcache", "-", "Hcache not found")
        return 0
    params = [q[0] for q in f.params]
    arg = params[1] if len(params) > 1 else None

    def ev(e, v):
        e = strip(e)
        k = kind(e)
        if k == "int":
            return e[1]
        if k == "var":
            return v if e[1] == arg else None
        if k == "cond":
            c = ev(e[1], v)
            if c is None:
                return None
            return ev(e[2], v) if c else ev(e[3], v)
        if k == "un" and e[1] == "!":
            a = ev(e[2], v)
            return None if a is None else int(not a)
        if k == "bin":
            a, b = ev(e[2], v), ev(e[3], v)
            if a is None or b is None:
                return None
            return {"==": int(a == b), "!=": int(a != b), "&&": int(bool(a) and bool(b)), "||": int(bool(a) or bool(b)), ">": int(a > b), "<": int(a < b)}.get(e[1])
        return None

    n = 0
    for _b, _i, s, x in f.nodes(True):
        if x[0] == "asg" and x[1] == "=" and arg and any(y[0] == "var" and y[1] == arg for y in walk(x[3], True)):
            n += 1
            key = "CACHEPOL:Hcache:%s" % (path(x[2]) or render(x[2]))[:40]
            on, off = ev(x[3], 1), ev(x[3], 0)
            if on is None or off is None:
                ctx.unrecognised("CACHEPOL", key, f.where(s.get("l", f.line)), "`%s` could not be evaluated" % render(x[3])[:60])
            elif on and not off:
                ctx.holds("CACHEPOL", key, f.where(s.get("l", f.line)), "`%s` is TRUE for a non-zero argument and FALSE for 0" % render(x[3])[:60], nontrivial=True)
            else:
                ctx.violated("CACHEPOL", key, f.where(s.get("l", f.line)), "`%s` evaluates to %s for a request to switch caching on and to %s for off: asking for caching switches it off" % (render(x[3])[:60], on, off))
    ctx.floor("CACHEPOL", 2, n, "(stores of the caching switch)")
    return n


def rule_free_hint_only_lowered(ctx):
    """LOWWATER (C12): the bit vector that records which references of a tag are in use keeps a hint, `last_zero`: no free bit exists
    below it, so the search for a free reference starts there.  bv_set does not search; when it clears a bit it may only *lower*
    the hint to that bit's byte (`if (x < last_zero) last_zero = x`).  Setting the hint unconditionally can raise it past free
    bits: the next search starts above them, finds nothing up to 65535 and reports that no reference is free while almost all
    are."""
    from .codec import ast_walk
    prog = ctx.prog
    f = prog.func("bv_set")
    if f is None or not f.raw.get("ast"):
        ctx.unrecognised("LOWWATER", "LOWWATER:bv_set", "-", "bv_set not found")
        return 0
    sites = []

    def vis(nd, st):
        if nd[0] == "s":
            for x in walk(nd[1], True):
                if x[0] == "asg" and x[1] == "=" and (mem_field(x[2]) or (0, 0))[1] == "last_zero":
                    sites.append((x, nd, list(st)))
        return True

    ast_walk(f.raw["ast"], vis)
    n = 0
    for x, nd, st in sites:
        n += 1
        key = "LOWWATER:bv_set#%d" % n
        line = nd[-3] if isinstance(nd[-3], int) else f.line
        v = render(strip(x[3]))
        fld = render(strip(x[2]))
        ok = False
        chain = st + [nd]
        for i, s_ in enumerate(st):
            if s_[0] == "if" and chain[i + 1] is s_[2]:
                for c in walk(s_[1], True):
                    if c[0] == "bin" and ((c[1] == "<" and render(strip(c[2])) == v and render(strip(c[3])) == fld) or (c[1] == ">" and render(strip(c[2])) == fld and render(strip(c[3])) == v)):
                        ok = True
        if ok:
            ctx.holds("LOWWATER", key, f.where(line), "the hint is set to `%s` only when that is below its current value" % v, nontrivial=True)
        else:
            ctx.violated("LOWWATER", key, f.where(line), "bv_set assigns `%s = %s` without testing that this lowers the hint: free bits below the new value are never found again" % (fld, v))
    ctx.floor("LOWWATER", 1, n, "(stores into the free-bit hint outside the search routine)")
    return n


def rule_special_branch_inquires_same_dd(ctx):
    """SPECIALID (C02): "is this element special?" is asked of one descriptor (`HTPis_special(X)`); the branch that handles the
    special case then needs that element's offset to read the special header.  The descriptor it inquires inside the branch is
    the X the branch was chosen for: inquiring a neighbouring id (the outer element of a compressed-and-linked pair) reads
    the wrong header, takes its special code for something else, and reports no data blocks for data that is there."""
    from .codec import ast_walk
    prog = ctx.prog
    n = 0
    for f in prog.lib_funcs():
        ast = f.raw.get("ast")
        if not ast:
            continue
        found = []

        def vis(nd, st):
            if nd[0] in ("s", "if") and nd[1] is not None:
                for c in calls_in(nd[1], True):
                    if c[1] == "HTPinquire" and c[3]:
                        near = None
                        for a in reversed(st):
                            if a[0] == "if" and a[1] is not None:
                                t = [render(strip(k[3][0])) for k in calls_in(a[1], True) if k[1] == "HTPis_special" and k[3]]
                                if t:
                                    near = t[0]
                                    break
                        if near:
                            found.append((nd, render(strip(c[3][0])), near))
            return True

        ast_walk(ast, vis)
        for k, (nd, y, near) in enumerate(found, 1):
            n += 1
            key = "SPECIALID:%s#%d" % (f.name, k)
            line = nd[-3] if isinstance(nd[-3], int) else f.line
            if y == near:
                ctx.holds("SPECIALID", key, f.where(line), "inside the branch chosen by HTPis_special(%s) the descriptor inquired is %s" % (near[:30], y[:30]), nontrivial=True)
            else:
                ctx.violated("SPECIALID", key, f.where(line), "the branch was chosen by HTPis_special(%s) but inquires `%s`: the special header that is read belongs to a different element" % (near[:40], y[:40]))
    ctx.floor("SPECIALID", 3, n, "(descriptor inquiries inside a special-element branch)")
    return n


def rule_contiguous_fallback_excludes_external(ctx):
    """EXTNOTHERE (C02): the data-information routines report where an object's bytes are *in this file*.  A routine that tells
    storage kinds apart by `access_rec->special` and describes "everything else" as one contiguous block with
    Hoffset/Hlength must first have set the external kind aside (a test against SPECIAL_EXT): for an external element those
    two calls give the position and length in the external file, and the caller would be sent to offset 0 of the HDF file,
    where the magic number is."""
    from .codec import ast_walk
    from .facts import int_name
    prog = ctx.prog
    n = 0
    for f in prog.lib_funcs():
        ast = f.raw.get("ast")
        if not ast or not f.rel.endswith(("hdatainfo.c", "mfdatainfo.c")):
            continue
        tests_special = set()
        for _b, _i, _s, x in f.nodes(True):
            if x[0] == "bin" and x[1] in ("==", "!="):
                for a_, b_ in ((x[2], x[3]), (x[3], x[2])):
                    if kind(strip(a_)) == "mem" and strip(a_)[2] == "special" and int_name(b_):
                        tests_special.add(int_name(b_))
        uses_off = any(c[1] == "Hoffset" for _b, _i, _s, c in f.calls())
        if not tests_special or not uses_off:
            continue
        n += 1
        key = "EXTNOTHERE:%s" % f.name
        if "SPECIAL_EXT" in tests_special:
            ctx.holds("EXTNOTHERE", key, f.where(), "the external kind is set aside before the contiguous description (kinds tested: %s)" % ", ".join(sorted(tests_special)), nontrivial=True)
        else:
            ctx.violated("EXTNOTHERE", key, f.where(), "storage kinds are told apart by access_rec->special (%s) and the rest is described with Hoffset/Hlength, but SPECIAL_EXT is never tested: an external element is reported as a block of this file" % ", ".join(sorted(tests_special)))
    ctx.floor("EXTNOTHERE", 1, n, "(data-information routines with a contiguous fallback)")
    return n


def rule_reload_after_setlength(ctx):
    """RELOAD (C01): Hsetlength gives a never-written element its place in the file: the descriptor's offset and length change
    from "none" (-1) to real values.  A routine that had read the descriptor into locals (HTPinquire(.., &off, &len)) before it
    called Hsetlength reads it again afterwards, in the same block, before those locals are used: HLconvert otherwise builds
    the linked-block header from a length of -1, and the converting handle writes every byte one position off from where all
    later handles read it."""
    from .codec import ast_walk
    prog = ctx.prog
    n = 0
    for f in prog.lib_funcs():
        ast = f.raw.get("ast")
        if not ast or not f.rel.startswith("hdf/src/"):
            continue
        names = [c[1] for _b, _i, _s, c in f.calls()]
        if "Hsetlength" not in names or "HTPinquire" not in names:
            continue
        found = []
        state = {"inq": False}

        def vis(nd, st):
            if nd[0] in ("s", "if") and nd[1] is not None and any(c[1] == "HTPinquire" and any(kind(strip(a)) == "addr" for a in c[3]) for c in calls_in(nd[1], True)):
                state["inq"] = True
            if nd[0] == "block":
                kids = nd[1]
                for i, k in enumerate(kids):
                    if k[0] in ("s", "if") and k[1] is not None and any(c[1] == "Hsetlength" for c in calls_in(k[1], True)):
                        later = any(k2[0] in ("s", "if") and k2[1] is not None and any(c[1] == "HTPinquire" for c in calls_in(k2[1], True)) for k2 in kids[i + 1:])
                        found.append((k, later, state["inq"]))
            return True

        ast_walk(ast, vis)
        for i, (k, later, before) in enumerate(found, 1):
            if not before:
                continue      # nothing had been loaded yet
            n += 1
            key = "RELOAD:%s#%d" % (f.name, i)
            line = k[-3] if isinstance(k[-3], int) else f.line
            if later:
                ctx.holds("RELOAD", key, f.where(line), "the descriptor is inquired again after Hsetlength has given the element its place", nontrivial=True)
            else:
                ctx.violated("RELOAD", key, f.where(line), "the descriptor was read into locals before this Hsetlength and is not read again after it: the locals still hold the 'no offset, no length' of a never-written element")
    ctx.floor("RELOAD", 1, n, "(Hsetlength calls in routines that keep the descriptor in locals)")
    return n


def rule_diskblock_moveto(ctx):
    """MOVETO (C02): HPgetdiskblock(file, len, moveto) reserves `len` bytes at the end of the file and, only if `moveto` is
    TRUE, positions the stream there.  A caller that goes on to write the block with a bare HP_write (no HPseek of its own in
    between) passes TRUE; with FALSE the record is written wherever the stream happens to stand - on top of a neighbouring
    element - while the descriptor is updated to point at the reserved, never written block."""
    prog = ctx.prog
    n = 0
    for f in prog.lib_funcs():
        k = 0
        for bid, b in f.blocks.items():
            for i, s in enumerate(b["s"]):
                for c in calls_in(s["e"]):
                    if c[1] != "HPgetdiskblock" or len(c[3]) < 3:
                        continue
                    k += 1
                    n += 1
                    key = "MOVETO:%s#%d" % (f.name, k)
                    line = s.get("l", f.line)
                    mv = strip(c[3][2])
                    if not is_int(mv):
                        ctx.holds("MOVETO", key, f.where(line), "the move-to flag is `%s` (decided by the caller)" % render(mv)[:30], nontrivial=False)
                        continue
                    if int_val(mv) != 0:
                        ctx.holds("MOVETO", key, f.where(line), "the stream is positioned at the reserved block", nontrivial=True)
                        continue
                    # FALSE: the next transfer on every path must be preceded by an HPseek
                    seen, bad = set(), None
                    stack = [(bid, i + 1)]
                    while stack and bad is None:
                        bb, ii = stack.pop()
                        if (bb, ii) in seen:
                            continue
                        seen.add((bb, ii))
                        blk = f.blocks.get(bb)
                        if not blk:
                            continue
                        stop = False
                        for j in range(ii, len(blk["s"])):
                            for c2 in calls_in(blk["s"][j]["e"]):
                                if c2[1] in ("HPseek", "HEpush"):
                                    stop = True
                                elif c2[1] in ("HP_write", "HP_read") and not stop:
                                    bad = blk["s"][j].get("l", line)
                                    stop = True
                            if stop:
                                break
                        if not stop:
                            for su in blk["succ"]:
                                if su >= 0:
                                    stack.append((su, 0))
                    if bad:
                        ctx.violated("MOVETO", key, f.where(line), "the block is reserved without positioning the stream (moveto FALSE) and line %d transfers with no HPseek in between: the bytes land wherever the stream stood" % bad)
                    else:
                        ctx.holds("MOVETO", key, f.where(line), "moveto is FALSE and every transfer that follows is preceded by its own HPseek", nontrivial=True)
    ctx.floor("MOVETO", 3, n, "(disk block reservations)")
    return n


def rule_open_ignores_physical_size(ctx):
    """OPENSIZE (C17): a crash during the flush can leave a descriptor that points past the physical end of the file (the
    descriptor blocks are written before the byte that extends the file).  Such a file must still open - every *old* object
    is intact - so the routine that reads the descriptor blocks at open (HTPstart) never asks how long the file physically is
    (no seek to the end, no ftell) and so cannot turn that state into a refusal of the whole file."""
    prog = ctx.prog
    f = prog.func("HTPstart")
    if f is None:
        ctx.unrecognised("OPENSIZE", "OPENSIZE:HTPstart", "-", "HTPstart not found")
        return 0
    bad = None
    for _b, _i, s, x in f.nodes(True):
        if x[0] == "call" and x[1] in ("ftell", "ftello", "fstat", "stat", "lseek"):
            bad = (s.get("l", f.line), x[1])
        if x[0] == "call" and x[1] in ("fseek", "fseeko") and len(x[3]) > 2 and is_int(x[3][2]) and int_val(x[3][2]) == 2:
            bad = (s.get("l", f.line), "fseek(.., SEEK_END)")
    if bad:
        ctx.violated("OPENSIZE", "OPENSIZE:HTPstart", f.where(bad[0]), "HTPstart asks for the physical size of the file (%s): a descriptor left pointing past the end by an interrupted flush can now make the open fail, and with it every object stored before" % bad[1])
    else:
        ctx.holds("OPENSIZE", "OPENSIZE:HTPstart", f.where(), "HTPstart reads the descriptor blocks without consulting the physical size of the file", nontrivial=True)
    ctx.floor("OPENSIZE", 1, 1, "(the routine that reads the descriptor blocks at open)")
    return 1


def rule_new_block_header_nil(ctx):
    """NEWBLOCKNIL (C17): HTInew_dd_block writes a new descriptor block to the file before anything links to it, so that a
    crash in between leaves a valid chain.  Valid means: the header it writes says "no successor" - the next-block field is
    encoded from the constant 0, not from a variable (least of all the block's own offset, which would make the on-disk chain
    loop as soon as the predecessor's link is flushed and the open never terminate)."""
    from .codec import ast_walk
    prog = ctx.prog
    f = prog.func("HTInew_dd_block")
    if f is None or not f.raw.get("ast"):
        ctx.unrecognised("NEWBLOCKNIL", "NEWBLOCKNIL:HTInew_dd_block", "-", "HTInew_dd_block not found")
        return 0
    order = []
    ast_walk(f.raw["ast"], lambda nd, st: (order.append(nd) if nd[0] in ("s", "if") and nd[1] is not None else None, True)[1])
    # the header is what is encoded through the byte pointer before the first HP_write
    srcs = []
    for nd in order:
        if any(c[1] == "HP_write" for c in calls_in(nd[1], True)):
            break
        for x in walk(nd[1], True):
            if x[0] == "asg" and x[1] == "=" and kind(strip(x[2])) == "deref":
                # *p++ = (uint8)(((uint32)(V) >> 24) & 0xff)
                vs = [y for y in walk(x[3], True) if y[0] in ("var", "mem")]
                shifts = [y for y in walk(x[3], True) if y[0] == "bin" and y[1] == ">>"]
                ints = [y for y in walk(x[3], True) if y[0] == "int"]
                srcs.append((nd, vs, shifts, ints))
    bad = None
    four = 0
    for nd, vs, shifts, ints in srcs:
        if any(is_int(sh[3]) and int_val(sh[3]) == 24 for sh in shifts):
            four += 1
            if vs:
                bad = (nd, render(vs[0]))
    line = f.line
    if bad:
        line = bad[0][-3] if isinstance(bad[0][-3], int) else f.line
        ctx.violated("NEWBLOCKNIL", "NEWBLOCKNIL:HTInew_dd_block", f.where(line), "the next-block field of the header written for a new descriptor block is encoded from `%s`, not from 0: on disk the block names a successor before it has one" % bad[1][:30])
    else:
        ctx.holds("NEWBLOCKNIL", "NEWBLOCKNIL:HTInew_dd_block", f.where(line), "the 32-bit next-block field of the new block's header is encoded from a constant", nontrivial=True)
    ctx.floor("NEWBLOCKNIL", 1, 1, "(header of a freshly created descriptor block)")
    return 1
