"""Rules about the tag/ref directory (hfiledd.c): F3 persist-after-mutate, pairing,
F11 crash-ordering structure."""
from .facts import kind, strip, walk, path, base_var, mem_field, render, int_val, is_int, calls_in
from .flow import PathAnalysis, fail_values, classify_ret

DD_REC = "dd_t"
DD_FIELDS = {"tag", "ref", "offset", "length"}
PERSIST = "HTIupdate_dd"

# functions that legitimately fill dd_t records without HTIupdate_dd (one line of reason each)
F3_EXCEPT = {
    "HTPstart": "reader: decodes the descriptors *from* disk into the list",
    "HTPinit": "creates the first DD block and writes the whole block itself (checked by F11c)",
    "HTInew_dd_block": "creates a DD block and writes the whole block itself (checked by F11c)",
}


def _dd_store(n):
    """asg node storing to a persisted dd_t field -> base path of the DD, else None"""
    if n[0] != "asg":
        return None
    t = strip(n[2])
    if kind(t) == "mem" and t[3] == DD_REC and t[2] in DD_FIELDS:
        return path(t[1]) or "?"
    return None


class F3(PathAnalysis):
    """typestate per DD access path: dirty (stored to since last persist) / clean"""

    def __init__(self, prog, summaries):
        super().__init__(prog)
        self.summ = summaries  # fname -> set(param index) left dirty on a non-failing exit
        self.fails = None
        self.exit_dirty = []  # (retclass, dirty set, bid)
        self.last_store = {}

    def init_user(self, func):
        return frozenset()

    def on_stmt(self, func, bid, idx, stmt, env, user):
        d = set(user)
        for n in walk(stmt["e"]):
            if n[0] == "asg":
                p = _dd_store(n)
                if p:
                    d.add(p)
                    self.last_store[p] = (n[4], render(n)[:80])
            elif n[0] == "call":
                nm = n[1]
                if nm == PERSIST and len(n[3]) >= 2:
                    p = path(n[3][1])
                    if p:
                        d.discard(p)
                        # persisting p[...] elements of the same base
                elif nm in self.summ and self.summ[nm]:
                    for j in self.summ[nm]:
                        if j < len(n[3]):
                            p = path(n[3][j])
                            if p:
                                d.add(p)
                                self.last_store[p] = (n[5], "%s() leaves its DD argument modified" % nm)
        return frozenset(d)

    def on_exit(self, func, bid, retval, env, user):
        self.exit_dirty.append((classify_ret(retval, self.fails), user, bid))


def rule_F3(ctx):
    prog = ctx.prog
    cands = {}
    for f in prog.lib_funcs():
        for bid, i, s, n in f.nodes(into_seen=True):
            if n[0] == "asg" and _dd_store(n):
                cands[f.name] = f
                break
    direct = len(cands)
    summ = {}
    changed = True
    rounds = 0
    results = {}
    while changed and rounds < 6:
        changed = False
        rounds += 1
        # callers of functions with a non-empty summary become candidates
        for nm, s in list(summ.items()):
            if not s:
                continue
            for (cf, call) in prog.callers().get(nm, []):
                if cf.name not in cands and cf.rel.split("/")[0] in ("hdf", "mfhdf") and "/src/" in cf.rel:
                    cands[cf.name] = cf
                    changed = True
        for nm, f in list(cands.items()):
            a = F3(prog, summ)
            a.fails = fail_values(f, prog)
            a.run(f)
            pnames = [p[0] for p in f.params]
            left = set()
            viol = []
            for cls, dirty, bid in a.exit_dirty:
                if cls == "fail":
                    continue
                for p in dirty:
                    b = p.split("->")[0].split("[")[0].lstrip("*&")
                    if p in pnames:
                        left.add(pnames.index(p))
                    else:
                        viol.append((p, cls, bid))
            if summ.get(nm, set()) != left:
                summ[nm] = left
                changed = True
            results[nm] = (f, a, viol, left)
    n_inst = 0
    for nm, (f, a, viol, left) in sorted(results.items()):
        key = "F3:%s" % nm
        if nm in F3_EXCEPT:
            ctx.excepted("F3", key, f.where(), F3_EXCEPT[nm])
            continue
        n_inst += 1
        if viol:
            vs = sorted(set(v[0] for v in viol))
            for p in vs:
                ln, what = a.last_store.get(p, (f.line, "?"))
                ctx.violated("F3", "F3:%s:%s" % (nm, p), f.where(ln),
                             "a persisted dd_t field of `%s` is modified (%s) after the last %s(…, %s) on a path to a "
                             "non-failing return: the on-disk descriptor no longer equals the in-memory one" % (p, what, PERSIST, p))
        else:
            ctx.holds("F3", key, f.where(),
                      "every non-failing path persists the DD after its last store%s" % (
                          "; leaves param %s modified for its callers (checked there)" % sorted(left) if left else ""))
    ctx.floor("F3", 3, direct, "(functions storing to dd_t.{tag,ref,offset,length})")
    ctx.stats["F3_functions"] = sorted(results)


# ---------------------------------------------------------------------------------------
# pairing: HTPcreate registers, HTPdelete unregisters, on every non-failing path


class MustCall(PathAnalysis):
    def __init__(self, prog, names):
        super().__init__(prog)
        self.names = names
        self.exits = []

    def init_user(self, func):
        return frozenset()

    def on_stmt(self, func, bid, idx, stmt, env, user):
        got = set(user)
        for c in calls_in(stmt["e"]):
            if c[1] in self.names:
                got.add(c[1])
        return frozenset(got)

    def on_exit(self, func, bid, retval, env, user):
        self.exits.append((classify_ret(retval, self.fails), user, bid))


def must_call_on_success(ctx, rule, fname, callees, why):
    prog = ctx.prog
    f = prog.func(fname)
    if f is None:
        ctx.unrecognised(rule, "%s:%s" % (rule, fname), "-", "anchor function %s not found" % fname)
        return
    a = MustCall(prog, set(callees))
    a.fails = fail_values(f, prog)
    a.run(f)
    n_ok = 0
    for c in callees:
        bad = [b for cls, got, b in a.exits if cls != "fail" and c not in got]
        n_ok += len([1 for cls, got, b in a.exits if cls != "fail"])
        key = "%s:%s:%s" % (rule, fname, c)
        if bad:
            ctx.violated(rule, key, f.where(), "a non-failing return of %s is reachable without calling %s (%s)" % (fname, c, why))
        else:
            ctx.holds(rule, key, f.where(), "every non-failing path of %s calls %s" % (fname, c))
    if n_ok == 0:
        ctx.unrecognised(rule, "%s:%s" % (rule, fname), f.where(), "no non-failing exit found")


def rule_pairing(ctx):
    must_call_on_success(ctx, "PAIR", "HTPcreate", ["HTIregister_tag_ref", PERSIST],
                         "a created DD must be entered in the tag tree and written")
    must_call_on_success(ctx, "PAIR", "HTPdelete", ["HTIunregister_tag_ref", PERSIST, "HAremove_atom"],
                         "a deleted DD must leave the tag tree and be written")
    must_call_on_success(ctx, "PAIR", "HTPupdate", [PERSIST], "changed offset/length must be written")
