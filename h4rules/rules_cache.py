"""C04 (structural clauses): the chunk cache may change *when* bytes reach the file, never *whether* they do.

K1 dirty-on-write   every function that copies caller data into a page obtained from mcache_get hands the page back with
                    mcache_put(.., MCACHE_DIRTY) on every non-failing path; pages that were only read are put back with 0
K2 flush-on-evict   mcache_bkt never unlinks a page for reuse on a path where its MCACHE_DIRTY bit was seen set and
                    mcache_write was not called (and seen to succeed) for it
K3 clean-after-out  mcache_write clears MCACHE_DIRTY only on paths where the page-out callback was called and did not fail
K4 sync-before-close every call of mcache_close is preceded, on every path, by mcache_sync on the same cache expression
K5 filters set      every mcache_open result is given page-in/page-out callbacks (mcache_filter with two function arguments)
                    before the function returns successfully
K6 put-keeps-dirty  mcache_put ORs the caller's MCACHE_DIRTY into the page flags and only clears MCACHE_PINNED
"""
from .facts import kind, strip, walk, path, render, int_val, is_int, calls_in, mem_field, base_var, int_name
from .flow import PathAnalysis, fail_values, classify_ret, call_key

DIRTY = 1
PINNED = 2


def _flag_const(e, want):
    e = strip(e)
    if is_int(e) and int_val(e) == want:
        return True
    return False


class _DirtyOnWrite(PathAnalysis):
    """user = frozenset of (page var, 'got'|'mod')"""

    def __init__(self, prog):
        super().__init__(prog)
        self.bad = {}
        self.puts = set()
        self.gets = set()

    def init_user(self, func):
        # aliases: chk_dptr = chk_data; chk_dptr += k  -> writes through chk_dptr modify chk_data's page
        self.alias = {}
        for _b, _i, _s, n in func.nodes(True):
            if n[0] == "asg" and n[1] == "=" and kind(strip(n[2])) == "var" and kind(strip(n[3])) == "var":
                self.alias.setdefault(strip(n[2])[1], set()).add(strip(n[3])[1])
        return frozenset()

    def _pages_of(self, v, held):
        out = set()
        names = {x[0] for x in held}
        work = [v]
        seen = set()
        while work:
            x = work.pop()
            if x in seen:
                continue
            seen.add(x)
            if x in names:
                out.add(x)
            work.extend(self.alias.get(x, ()))
        return out

    def on_stmt(self, func, bid, idx, stmt, env, user):
        held = set(user)
        e = stmt["e"]
        for x in walk(e, True):
            if x[0] == "asg" and x[1] == "=" and kind(strip(x[2])) == "var":
                r = strip(x[3])
                if kind(r) == "call" and r[1] == "mcache_get":
                    v = strip(x[2])[1]
                    held = {h for h in held if h[0] != v}
                    held.add((v, "got"))
                    self.gets.add((r[5], r[6]))
        for c in calls_in(e):
            if c[1] in ("memcpy", "memmove", "memset", "HDmemfill", "DFKconvert") and c[3]:
                d = base_var(c[3][0] if c[1] != "DFKconvert" else c[3][1])
                for pg in self._pages_of(d, held) if d else ():
                    held = {h for h in held if h[0] != pg}
                    held.add((pg, "mod"))
            elif c[1] == "mcache_put" and len(c[3]) >= 3:
                pg = base_var(c[3][1])
                self.puts.add((c[5], c[6]))
                st = [h for h in held if h[0] == pg]
                dirty = _flag_const(c[3][2], DIRTY)
                if st and st[0][1] == "mod" and not dirty:
                    self.bad[(c[5], c[6])] = "the page `%s` was written into but is handed back by mcache_put() at line %d without MCACHE_DIRTY: the data would be dropped at eviction" % (pg, c[5])
                held = {h for h in held if h[0] != pg}
        return frozenset(held)

    def on_exit(self, func, bid, retval, env, user):
        if classify_ret(retval, self.fails) == "fail":
            return
        for pg, st in user:
            if st == "mod":
                self.bad[("exit", pg)] = "a page (`%s`) that was written into is never handed back with mcache_put(.., MCACHE_DIRTY) on a non-failing path" % pg


def rule_dirty_on_write(ctx):
    prog = ctx.prog
    n = 0
    for f in prog.lib_funcs():
        if f.rel.endswith("mcache.c"):
            continue
        if not any(c[1] == "mcache_get" for _, _, _, c in f.calls()):
            continue
        a = _DirtyOnWrite(prog)
        a.fails = fail_values(f, prog)
        a.run(f)
        n += len(a.gets)
        key = "K1:%s" % f.name
        if not a.puts:
            ctx.violated("K1", key, f.where(), "%s obtains cache pages with mcache_get() but never hands one back with mcache_put()" % f.name)
        elif a.bad:
            k = sorted(a.bad, key=str)[0]
            ctx.violated("K1", key, f.where(k[0] if isinstance(k[0], int) else None), a.bad[k])
        else:
            ctx.holds("K1", key, f.where(), "%d mcache_get / %d mcache_put site(s): modified pages go back DIRTY on every non-failing path" % (len(a.gets), len(a.puts)), nontrivial=True)
    ctx.floor("K1", 4, n, "(mcache_get call sites outside the cache)")
    return n


class _Evict(PathAnalysis):
    """mcache_bkt: user = (dirty bit seen set, written ok)"""

    def __init__(self, prog):
        super().__init__(prog)
        self.bad = []
        self.removes = 0
        self.seen_test = False

    def init_user(self, func):
        return (None, False)

    def on_assume(self, func, bid, cond, pol, env, user):
        c = strip(cond)
        if kind(c) == "bin" and c[1] == "&" and (mem_field(c[2]) or (0, 0))[1] == "flags" and _flag_const(c[3], DIRTY):
            self.seen_test = True
            return (pol, user[1])
        return user

    def on_call_outcome(self, func, call, outcome, env, user):
        if call[1] == "mcache_write" and outcome == "ok":
            return (user[0], True)
        return user

    def on_stmt(self, func, bid, idx, stmt, env, user):
        m = stmt.get("m") or []
        if any(x.endswith("CIRCLEQ_REMOVE") for x in m):
            self.removes += 1
            if user[0] is not False and not user[1]:
                self.bad.append(stmt.get("l"))
        # a new candidate page: forget what was known about the previous one
        for x in walk(stmt["e"], True):
            if x[0] == "asg" and x[1] == "=" and kind(strip(x[2])) == "var" and strip(x[2])[1] == "bp" and not any(y.endswith("CIRCLEQ_REMOVE") for y in m):
                return (None, False)
        return user


class _CleanAfterOut(PathAnalysis):
    """mcache_write: DIRTY may only be cleared after the page-out callback was seen to succeed"""

    def __init__(self, prog):
        super().__init__(prog)
        self.bad = []
        self.clears = 0

    def init_user(self, func):
        return False

    def on_call_outcome(self, func, call, outcome, env, user):
        if not call[1] and outcome == "ok":
            ce = strip(call[2])
            while kind(ce) == "deref":
                ce = strip(ce[1])
            if (mem_field(ce) or (0, 0))[1] == "pgout":
                return True
        return user

    def on_stmt(self, func, bid, idx, stmt, env, user):
        for x in walk(stmt["e"], True):
            if x[0] == "asg" and x[1] in ("&=",) and (mem_field(x[2]) or (0, 0))[1] == "flags":
                r = strip(x[3])
                if kind(r) == "un" and r[1] == "~" and _flag_const(r[2], DIRTY) or (is_int(r) and (int_val(r) & DIRTY) == 0):
                    self.clears += 1
                    if not user:
                        self.bad.append(stmt.get("l"))
        return user


class _SyncBeforeClose(PathAnalysis):
    def __init__(self, prog):
        super().__init__(prog)
        self.bad = {}
        self.closes = set()

    def init_user(self, func):
        return frozenset()

    def on_stmt(self, func, bid, idx, stmt, env, user):
        s = set(user)
        for c in calls_in(stmt["e"]):
            if c[1] == "mcache_sync" and c[3]:
                p = path(c[3][0])
                if p:
                    s.add(p)
            elif c[1] == "mcache_close" and c[3]:
                p = path(c[3][0])
                self.closes.add((c[5], c[6]))
                if p not in s:
                    self.bad[(c[5], c[6])] = "mcache_close(%s) at line %d can be reached without mcache_sync(%s) before it: dirty chunks still in the cache would be discarded" % (p, c[5], p)
                s.discard(p)
        return frozenset(s)


def rule_cache_internal(ctx):
    prog = ctx.prog
    n = 0
    f = prog.func("mcache_bkt")
    if f is None:
        ctx.unrecognised("K2", "K2:mcache_bkt", "-", "mcache_bkt not found")
    else:
        a = _Evict(prog)
        a.fails = fail_values(f, prog)
        a.run(f)
        n += a.removes
        if not a.removes:
            ctx.unrecognised("K2", "K2:mcache_bkt", f.where(), "eviction shape not recognised (no queue removal found)")
        elif a.bad:
            ctx.violated("K2", "K2:mcache_bkt", f.where(a.bad[0]), "a page can be taken off the cache queues for reuse although its MCACHE_DIRTY bit may be set and mcache_write() was not seen to succeed for it")
        else:
            ctx.holds("K2", "K2:mcache_bkt", f.where(), "%d queue removal(s): only after `flags & MCACHE_DIRTY` was false or mcache_write succeeded" % a.removes, nontrivial=True)
    f = prog.func("mcache_write")
    if f is None:
        ctx.unrecognised("K3", "K3:mcache_write", "-", "mcache_write not found")
    else:
        a = _CleanAfterOut(prog)
        a.fails = fail_values(f, prog)
        a.run(f)
        n += a.clears
        if not a.clears:
            ctx.unrecognised("K3", "K3:mcache_write", f.where(), "no statement clearing MCACHE_DIRTY found")
        elif a.bad:
            ctx.violated("K3", "K3:mcache_write", f.where(a.bad[0]), "MCACHE_DIRTY is cleared on a path where the page-out callback was not seen to succeed")
        else:
            ctx.holds("K3", "K3:mcache_write", f.where(), "DIRTY cleared only after pgout() != FAIL", nontrivial=True)
    # K6 mcache_put
    f = prog.func("mcache_put")
    if f is None:
        ctx.unrecognised("K6", "K6:mcache_put", "-", "mcache_put not found")
    else:
        ors = clears = 0
        bad = None
        fl = f.params[2][0] if len(f.params) >= 3 else None
        for _b, _i, st, x in f.nodes(True):
            if x[0] == "asg" and (mem_field(x[2]) or (0, 0))[1] == "flags":
                r = strip(x[3])
                if x[1] == "|=":
                    if any(y[0] == "var" and y[1] == fl for y in walk(r, True)):
                        ors += 1
                elif x[1] == "&=":
                    clears += 1
                    keeps_dirty = (is_int(r) and (int_val(r) & DIRTY) != 0) or (kind(r) == "un" and r[1] == "~" and _flag_const(r[2], PINNED))
                    if not keeps_dirty:
                        bad = "mcache_put clears MCACHE_DIRTY from the page flags (&= %s): a page written earlier and put back after a read would lose its data" % render(r)
                elif x[1] == "=":
                    bad = "mcache_put overwrites the page flags (a DIRTY page put back clean loses its data)"
        n += 1
        if bad:
            ctx.violated("K6", "K6:mcache_put", f.where(), bad)
        elif not ors:
            ctx.violated("K6", "K6:mcache_put", f.where(), "mcache_put no longer ORs the caller's flags into the page flags: MCACHE_DIRTY would never be recorded")
        else:
            ctx.holds("K6", "K6:mcache_put", f.where(), "flags |= (caller flags & DIRTY); only PINNED is cleared", nontrivial=True)
    # K6b: nobody outside the cache touches the page flags
    outside = []
    for g in prog.lib_funcs():
        if g.rel.endswith("mcache.c"):
            continue
        for _b, _i, st, x in g.nodes(True):
            if x[0] in ("asg", "incdec"):
                mf = mem_field(x[2] if x[0] == "asg" else x[3])
                if mf and mf[0] in ("_bkt", "BKT") and mf[1] == "flags":
                    outside.append((g, st.get("l")))
    if outside:
        ctx.violated("K6", "K6:flags-owner", outside[0][0].where(outside[0][1]), "%s writes BKT.flags outside mcache.c: the DIRTY/PINNED protocol is no longer confined to the cache" % outside[0][0].name)
    else:
        ctx.holds("K6", "K6:flags-owner", "hdf/src/mcache.c", "BKT.flags is written only inside mcache.c", nontrivial=False)
    ctx.floor("K2", 3, n, "(eviction removals, DIRTY clears, put)")
    return n


def rule_cache_clients(ctx):
    prog = ctx.prog
    n = 0
    for f in prog.lib_funcs():
        if f.rel.endswith("mcache.c"):
            continue
        calls = [c for _, _, _, c in f.calls()]
        if any(c[1] == "mcache_close" for c in calls):
            a = _SyncBeforeClose(prog)
            a.fails = fail_values(f, prog)
            a.run(f)
            n += len(a.closes)
            key = "K4:%s" % f.name
            if a.bad:
                k = sorted(a.bad)[0]
                ctx.violated("K4", key, f.where(k[0]), a.bad[k])
            else:
                ctx.holds("K4", key, f.where(), "%d mcache_close site(s), each after mcache_sync on the same cache" % len(a.closes), nontrivial=True)
        opens = [c for c in calls if c[1] == "mcache_open"]
        if opens:
            filt = [c for c in calls if c[1] == "mcache_filter"]
            n += len(opens)
            key = "K5:%s" % f.name
            ok = len(filt) >= len(opens) and all(len(c[3]) >= 3 and kind(strip(c[3][1])) in ("fn", "addr") and kind(strip(c[3][2])) in ("fn", "addr") for c in filt)
            if ok:
                ctx.holds("K5", key, f.where(), "%d mcache_open, %d mcache_filter with page-in and page-out functions" % (len(opens), len(filt)), nontrivial=False)
            else:
                ctx.violated("K5", key, f.where(opens[0][5]), "a cache opened here is not given both page-in and page-out callbacks (mcache_filter): pages could not be written back")
    ctx.floor("K4", 5, n, "(mcache_close and mcache_open call sites)")
    return n


def rule_fill_covers_chunk(ctx):
    """FILLCOVER (C04): a chunk that has never been written is materialised in its cache page by HDmemfill(page, fill value, item
    size, nitems).  A page holds chunk_size elements of nt_size bytes; the item count must therefore be computed from both
    (`chunk_size * nt_size / fill_val_len`).  A count without one of the factors fills only part of the page; the rest keeps
    the bytes of the chunk that occupied the page before (or heap garbage) and is written to the file with the next flush."""
    from .facts import kind, strip, walk, render, calls_in
    prog = ctx.prog
    n = 0
    for f in prog.lib_funcs():
        if not f.rel.endswith("hchunks.c"):
            continue
        fills = [c for _b, _i, _s, c in f.calls() if c[1] == "HDmemfill" and len(c[3]) >= 4]
        if not fills:
            continue
        for k, c in enumerate(fills):
            cntv = strip(c[3][3])
            while kind(cntv) == "cast":
                cntv = strip(cntv[2])
            if kind(cntv) != "var":
                continue
            defs = [x for _b, _i, _s, x in f.nodes(True) if x[0] == "asg" and x[1] == "=" and kind(strip(x[2])) == "var" and strip(x[2])[1] == cntv[1] and x[4] <= c[5]]
            if not defs:
                continue
            d = max(defs, key=lambda x: x[4])
            n += 1
            key = "FILLCOVER:%s#%d" % (f.name, k + 1)
            flds = {y[2] for y in walk(d[3], True) if y[0] == "mem"}
            missing = [w for w in ("chunk_size", "nt_size") if w not in flds]
            if missing:
                ctx.violated("FILLCOVER", key, f.where(d[4]), "the item count of the fill, `%s`, leaves out `%s`: only part of the cache page is filled with the fill value, the rest is "
                             "whatever the page held before" % (render(d)[:70], "`, `".join(missing)))
            else:
                ctx.holds("FILLCOVER", key, f.where(d[4]), "`%s` covers chunk_size * nt_size bytes" % render(d)[:60], nontrivial=True)
    ctx.floor("FILLCOVER", 2, n, "(fills of chunk cache pages)")
    return n


def _linear(e, env=None):
    """linear normal form of an integer expression: {rendered term: coefficient}, constants under ''"""
    from .facts import kind, strip, render, is_int, int_val
    out = {}

    def add(t, c):
        out[t] = out.get(t, 0) + c
        if out[t] == 0:
            del out[t]

    def go(x, sign):
        x = strip(x)
        if kind(x) == "bin" and x[1] in ("+", "-"):
            go(x[2], sign)
            go(x[3], sign if x[1] == "+" else -sign)
        elif is_int(x):
            add("", sign * int_val(x))
        elif kind(x) == "var" and env and x[1] in env:
            for t, c in env[x[1]].items():
                add(t, sign * c)
        elif kind(x) == "bin" and x[1] == "*" and (is_int(x[2]) or is_int(x[3])):
            k, o = (x[2], x[3]) if is_int(x[2]) else (x[3], x[2])
            add(render(strip(o)), sign * int_val(k))
        else:
            add(render(x), sign)
    go(e, 1)
    return out


def rule_chunk_header_length(ctx):
    """HDRLEN (C02, C04): HMCcreate computes the total size of the chunked-element header in one switch over the element's kind and
    the length it *stores* in the header (everything behind the tag and the length field itself) in a second switch.  Whatever the
    kind, the stored length is the same function of the element's description: total minus the 6 bytes of tag and length field,
    minus the nested compression header for compressed chunks.  With the first switch substituted into the second, all arms
    must reduce to one and the same linear expression; an arm that stores 6 bytes more announces a header that runs past the
    element."""
    from .rules_conv import switch_arms, _find_switch
    from .facts import kind, strip, walk, render, mem_field
    from .codec import ast_exprs
    prog = ctx.prog
    f = prog.func("HMCcreate")
    key = "HDRLEN:HMCcreate"
    if f is None:
        ctx.unrecognised("HDRLEN", key, "-", "HMCcreate not found")
        return 0
    tot = {}
    stored = {}
    for sw in _find_switch(f):
        for labels, stmts, ft in switch_arms(sw):
            for stt in stmts:
                for e in ast_exprs(stt):
                    for x in walk(e, True):
                        if x[0] == "asg" and x[1] == "=":
                            t = strip(x[2])
                            if kind(t) == "var" and t[1] == "sp_tag_header_len":
                                tot[tuple(labels)] = x[3]
                            elif (mem_field(t) or (0, 0))[1] == "sp_tag_header_len":
                                stored[tuple(labels)] = x[3]
    if len(tot) < 2 or set(tot) != set(stored):
        ctx.unrecognised("HDRLEN", key, f.where(), "the two header-length switches were not recognised (%d / %d arms)" % (len(tot), len(stored)))
        return 0
    forms = {}
    for lab in tot:
        env = {"sp_tag_header_len": _linear(tot[lab])}
        forms[lab] = _linear(stored[lab], env)
    vals = list(forms.values())
    if all(v == vals[0] for v in vals):
        ctx.holds("HDRLEN", key, f.where(), "every arm stores %s" % " + ".join("%s%s" % (("%d*" % c) if c != 1 and t else (str(c) if not t else ""), t) for t, c in sorted(vals[0].items()))[:120], nontrivial=True)
    else:
        ctx.violated("HDRLEN", key, f.where(), "the header length stored differs between the kinds of chunked element: %s — one kind announces a header of another size than the one written" % "; ".join(
            "%s: const %+d" % ("/".join(str(l) for l in lab), forms[lab].get("", 0)) for lab in forms))
    return 1


def rule_cache_open_flags(ctx):
    """MCFLAG (C04): mcache_open's last argument says whether the object the cache fronts already exists: 0 = every page is first
    brought in through the page-in filter, 1 (MCACHE_EXTEND-style) = pages start out as blank memory.  The chunk layer relies on
    the page-in filter (HMCPchunkread) to give a never-written chunk the fill value, and mcache.c documents "for 'flags' input
    only '0' should be used for now".  Every mcache_open call in the library passes the constant 0: with any other value the
    unwritten part of a partially written chunk is whatever malloc returned, and it is flushed to the file."""
    from .facts import kind, strip, is_int, render
    prog = ctx.prog
    n = 0
    for f in prog.lib_funcs():
        k = 0
        for _b, _i, s, c in f.calls():
            if c[1] != "mcache_open" or not c[3]:
                continue
            k += 1
            n += 1
            key = "MCFLAG:%s#%d" % (f.name, k)
            a = c[3][-1]
            if is_int(a, 0):
                ctx.holds("MCFLAG", key, f.where(s.get("l", f.line)), "mcache_open(.., 0): pages are brought in through the page-in filter", nontrivial=True)
            else:
                ctx.violated("MCFLAG", key, f.where(s.get("l", f.line)), "mcache_open is called with flags `%s`: pages of this cache start out as uninitialised memory instead of going through the page-in filter that supplies the fill value" % render(a)[:30])
    ctx.floor("MCFLAG", 2, n, "(mcache_open calls)")
    return n


def rule_header_limit_shared(ctx):
    """HDRLIMIT (C04, C02): the special header of a chunked element has no fixed length (33 + 12 x rank + fill value bytes), and HMCcreate
    writes whatever length that comes to.  A routine that reads the header back may bound the stored length only by a limit the
    creator enforces as well; a reader-side limit the creator does not know makes elements that were created and written
    without complaint impossible to open.  Every comparison of the header length with a positive constant in a reading routine
    of hchunks.c has a counterpart with the same constant in HMCcreate."""
    from .facts import kind, strip, walk, render, is_int, int_val
    prog = ctx.prog
    limits = {}
    readers = 0
    for f in prog.lib_funcs():
        if not f.rel.endswith("hdf/src/hchunks.c"):
            continue
        uses = [x for _b, _i, _s, x in f.nodes(True) if (x[0] == "mem" and x[2] == "sp_tag_header_len") or (x[0] == "var" and x[1] == "sp_tag_header_len")]
        if not uses:
            continue
        readers += 1
        for _b, _i, s, c in f.nodes(True):
            if c[0] == "bin" and c[1] in (">", ">=", "<", "<="):
                for a, o in ((c[2], c[3]), (c[3], c[2])):
                    a = strip(a)
                    nm = a[2] if kind(a) == "mem" else (a[1] if kind(a) == "var" else None)
                    if nm == "sp_tag_header_len" and is_int(o) and int_val(o) > 0:
                        limits.setdefault(f.name, set()).add((int_val(o), s.get("l", f.line)))
    creator = limits.get("HMCcreate", set())
    n = 0
    for fn, ls in sorted(limits.items()):
        if fn == "HMCcreate":
            continue
        f = prog.func(fn)
        for k, line in sorted(ls):
            n += 1
            key = "HDRLIMIT:%s:%d" % (fn, k)
            if any(k2 <= k for k2, _l in creator):
                ctx.holds("HDRLIMIT", key, f.where(line), "the reader's limit %d is enforced by HMCcreate as well" % k, nontrivial=True)
            else:
                ctx.violated("HDRLIMIT", key, f.where(line), "%s refuses a chunk header longer than %d bytes, a limit HMCcreate does not enforce: a chunked element with a longer header (rank >= %d) is created and written and cannot be opened again" % (fn, k, (k - 33) // 12 + 1))
    ctx.holds("HDRLIMIT", "HDRLIMIT:all", "hdf/src/hchunks.c", "%d routines handle the chunk header length; %d reader-side limits" % (readers, n), nontrivial=False)
    ctx.floor("HDRLIMIT", 3, readers, "(routines of hchunks.c that handle the special header length)")
    return n


def rule_chunk_coord_in_grid(ctx):
    """GRIDBOUND (C02, C04): calculate_chunk_num folds a coordinate vector into one chunk number with the per-dimension chunk
    counts as radix and has no notion of range: a coordinate past the grid along one dimension is the number of a chunk in
    the next row.  Where the vector is a *parameter* of the routine (the user's origin of SDreadchunk/SDwritechunk/GRreadchunk,
    the chunk coordinates of SDgetdatainfo) it is compared, element by element, with the `num_chunks` of its dimension before the
    number is computed; vectors the chunk layer computes itself (seek_chunk_indices) are in range by construction."""
    from .codec import ast_walk
    from .facts import calls_in
    prog = ctx.prog
    n = 0
    for f in prog.lib_funcs():
        ast = f.raw.get("ast")
        if not ast or not f.rel.endswith("hdf/src/hchunks.c"):
            continue
        params = {(p[0] if isinstance(p, (list, tuple)) else p.get("name")) for p in f.params}
        order = []
        ast_walk(ast, lambda nd, st: (order.append(nd) if nd[0] in ("s", "if", "while", "for", "switch") else None, True)[1])
        bounded = set()
        k = 0
        for nd in order:
            exprs = [x for x in (nd[1:4] if nd[0] == "for" else [nd[1]]) if isinstance(x, list) and x and isinstance(x[0], str)]
            for e in exprs:
                for x in walk(e, True):
                    if x[0] == "bin" and x[1] in ("<", ">", "<=", ">="):
                        sides = [strip(x[2]), strip(x[3])]
                        if any(any(y[0] == "mem" and y[2] == "num_chunks" for y in walk(s_, True)) for s_ in sides):
                            for s_ in sides:
                                if kind(s_) == "idx" and kind(strip(s_[1])) == "var":
                                    bounded.add(strip(s_[1])[1])
                for c in calls_in(e, True):
                    if c[1] != "calculate_chunk_num" or len(c[3]) < 4:
                        continue
                    v = strip(c[3][2])
                    if kind(v) != "var" or v[1] not in params:
                        continue
                    k += 1
                    n += 1
                    key = "GRIDBOUND:%s#%d" % (f.name, k)
                    line = nd[-3] if isinstance(nd[-3], int) else f.line
                    if v[1] in bounded:
                        ctx.holds("GRIDBOUND", key, f.where(line), "the caller's `%s[]` is compared with num_chunks before the chunk number is computed" % v[1], nontrivial=True)
                    else:
                        ctx.violated("GRIDBOUND", key, f.where(line), "the chunk number is computed from the caller's `%s[]` with no comparison against num_chunks before it: a coordinate past the grid selects another chunk, whose data or location is then read, overwritten or reported" % v[1])
    ctx.floor("GRIDBOUND", 3, n, "(chunk numbers computed from a caller-supplied coordinate vector)")
    return n


def rule_shared_seek_state_refreshed(ctx):
    """SEEKIDX (C04): the chunk coordinates of "where the next byte is" (`seek_chunk_indices`, `seek_pos_chunk`) live in the
    chunk information record, which every access id open on the element shares, while the byte position lives in each
    access record.  A transfer routine of the chunked kind therefore recomputes them from its own `access_rec->posn`
    (update_chunk_indices_seek) before it uses them; relying on what the last operation left behind lets a seek or read
    through another access id redirect this one to a different chunk."""
    prog = ctx.prog
    n = 0
    for name in ("HMCPread", "HMCPwrite"):
        f = prog.func(name)
        if f is None:
            ctx.unrecognised("SEEKIDX", "SEEKIDX:%s" % name, "-", "%s not found" % name)
            continue
        n += 1
        key = "SEEKIDX:%s" % name
        first_use = None
        refresh = None
        for _b, _i, s, x in sorted(f.nodes(True), key=lambda t: t[2].get("l", 0)):
            if x[0] == "call" and x[1] == "update_chunk_indices_seek" and x[3] and any(y[0] == "mem" and y[2] == "posn" for y in walk(x[3][0], True)):
                if refresh is None:
                    refresh = s.get("l", 0)
            if x[0] == "call" and x[1] in ("calculate_chunk_num", "calculate_chunk_for_chunk", "compute_chunk_to_seek") and first_use is None:
                first_use = s.get("l", 0)
        if refresh is not None and (first_use is None or refresh <= first_use):
            ctx.holds("SEEKIDX", key, f.where(refresh), "the shared chunk coordinates are recomputed from this access record's position before they are used", nontrivial=True)
        else:
            ctx.violated("SEEKIDX", key, f.where(first_use or f.line), "the shared chunk coordinates are used without being recomputed from access_rec->posn first: an operation through another access id on the same element decides which chunk this transfer touches")
    ctx.floor("SEEKIDX", 2, n, "(transfer routines of the chunked kind)")
    return n
