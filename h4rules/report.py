"""Instances, verdicts, known findings, evidence files, exit codes."""
import json
import os
import re
import sys
import time

from .facts import VERIF, REPO

KNOWN_FILE = os.path.join(VERIF, "known_findings.txt")
EVID_DIR = os.environ.get("H4_EVID_DIR") or os.path.join(VERIF, "evidence")


class Instance:
    __slots__ = ("rule", "key", "where", "verdict", "detail", "nontrivial", "path")

    def __init__(self, rule, key, where, verdict, detail="", nontrivial=True, path=None):
        self.rule = rule  # e.g. 'F3'
        self.key = key  # stable key: rule:function:what  (no line numbers)
        self.where = where  # file:line
        self.verdict = verdict  # holds | violated | unrecognised | excepted
        self.detail = detail
        self.nontrivial = nontrivial
        self.path = path

    def as_dict(self):
        d = {"rule": self.rule, "key": self.key, "where": self.where, "verdict": self.verdict, "detail": self.detail}
        if self.path:
            d["path"] = self.path
        return d


class Ctx:
    """What a rule gets: the program, the tier, and a sink for instances."""

    def __init__(self, prop, tier, prog):
        self.prop = prop
        self.tier = tier
        self.prog = prog
        self.instances = []
        self.notes = []
        self.floors = []  # (rule, minimum, found)
        self.stats = {}

    def add(self, rule, key, where, verdict, detail="", nontrivial=True, path=None):
        self.instances.append(Instance(rule, key, where, verdict, detail, nontrivial, path))

    def holds(self, rule, key, where, detail="", nontrivial=True):
        self.add(rule, key, where, "holds", detail, nontrivial)

    def violated(self, rule, key, where, detail="", path=None):
        self.add(rule, key, where, "violated", detail, True, path)

    def unrecognised(self, rule, key, where, detail=""):
        self.add(rule, key, where, "unrecognised", detail)

    def excepted(self, rule, key, where, reason):
        self.add(rule, key, where, "excepted", reason, False)

    def floor(self, rule, minimum, found, what=""):
        """a rule must match at least `minimum` live instances, else the analysis is broken"""
        self.floors.append((rule, minimum, found, what))

    def note(self, s):
        self.notes.append(s)


def load_known():
    known = {}  # (prop, key) -> text
    fixed = []
    if os.path.exists(KNOWN_FILE):
        for ln in open(KNOWN_FILE):
            ln = ln.strip()
            if not ln or ln.startswith("#"):
                continue
            m = re.match(r"known:\s+property=(\S+)\s+key=(\S+)\s+(.*)", ln)
            if m:
                known[(m.group(1), m.group(2))] = m.group(3)
                continue
            m = re.match(r"fixed:\s+property=(\S+)\s+(\S+)\s+(.*)", ln)
            if m:
                fixed.append((m.group(1), m.group(2), m.group(3)))
    return known, fixed


def finish(ctx, t0, level, explanation, rule_text, trusted, assumptions, broken=None):
    """Print verdict lines, write evidence, return the exit code (0/1/2)."""
    prop = ctx.prop
    known, fixed = load_known()
    os.makedirs(os.path.join(EVID_DIR, "violations"), exist_ok=True)
    # remove stale replay files of this property
    for f in os.listdir(os.path.join(EVID_DIR, "violations")):
        if f.startswith(prop + "-"):
            os.unlink(os.path.join(EVID_DIR, "violations", f))
    # de-duplicate by key (keep worst verdict)
    rank = {"violated": 3, "unrecognised": 2, "holds": 1, "excepted": 0}
    bykey = {}
    for i in ctx.instances:
        o = bykey.get(i.key)
        if o is None or rank[i.verdict] > rank[o.verdict]:
            bykey[i.key] = i
    insts = list(bykey.values())
    viol = [i for i in insts if i.verdict == "violated"]
    unrec = [i for i in insts if i.verdict == "unrecognised"]
    holds = [i for i in insts if i.verdict == "holds"]
    exc = [i for i in insts if i.verdict == "excepted"]
    new_viol = []
    matched = []
    for v in viol:
        if (prop, v.key) in known:
            matched.append(v)
            print("KNOWN-FINDING: property=%s %s — %s [%s at %s]" % (prop, v.key, known[(prop, v.key)], v.rule, v.where))
        else:
            new_viol.append(v)
    stale = [k for (p, k) in known if p == prop and k not in bykey or (p == prop and bykey.get(k) is not None and bykey[k].verdict != "violated")]
    for n, v in enumerate(new_viol):
        rp = os.path.join(EVID_DIR, "violations", "%s-%d.json" % (prop, n))
        with open(rp, "w") as fh:
            json.dump({"property": prop, "instance": v.as_dict(), "tier": ctx.tier}, fh, indent=1)
        print("VIOLATION property=%s replay=%s" % (prop, rp))
        print("   %s %s at %s: %s" % (v.rule, v.key, v.where, v.detail))
        if v.path:
            for p in v.path[:30]:
                print("      " + p)
    floor_fail = [(r, m, f, w) for (r, m, f, w) in ctx.floors if f < m]
    for r, m, f, w in floor_fail:
        print("ANALYSIS-BROKEN property=%s rule %s matched %d instance(s), floor is %d %s" % (prop, r, f, m, w))
    for u in unrec:
        print("ANALYSIS-BROKEN property=%s unrecognised shape: %s %s at %s: %s" % (prop, u.rule, u.key, u.where, u.detail))
    if broken:
        print("ANALYSIS-BROKEN property=%s %s" % (prop, broken))
    for k in stale:
        print("note: known finding no longer reproduced (move it to 'fixed:' when repaired): property=%s key=%s" % (prop, k))
    obligations = len(holds) + len(viol) + len(unrec)
    discharged = len(holds)
    per_rule = {}
    for i in insts:
        d = per_rule.setdefault(i.rule, {"holds": 0, "violated": 0, "unrecognised": 0, "excepted": 0})
        d[i.verdict] += 1
    samples = [i.as_dict() for i in (viol[:4] + [h for h in holds if h.nontrivial][:8])]
    if not samples:
        samples = [i.as_dict() for i in insts[:6]]
    cov = {
        "explanation": explanation,
        "evaluations": len(insts),
        "distinct_nontrivial": len([i for i in insts if i.nontrivial]),
        "rule": rule_text,
        "obligations": obligations,
        "discharged": discharged,
        "checker_cmd": "./check %s --tier %s" % (prop, ctx.tier),
        "trusted_base": trusted,
        "samples": samples,
        "per_rule": per_rule,
        "exceptions_used": [{"key": i.key, "reason": i.detail} for i in exc],
        "known_findings_matched": [i.key for i in matched],
        "unrecognised": len(unrec),
        "tus_parsed": getattr(ctx.prog, "n_units", 0),
        "functions_analysed": len(ctx.prog.funcs) if ctx.prog else 0,
        "instance_floors": [{"rule": r, "floor": m, "found": f} for (r, m, f, w) in ctx.floors],
        "exhaustive": False,
        "notes": ctx.notes,
    }
    cov.update(ctx.stats)
    ev = {
        "property_id": prop,
        "tier": ctx.tier,
        "seed": int(os.environ.get("VERIF_SEED", "0") or 0),
        "level": level if not (level == "proof" and discharged != obligations) else "other",
        "coverage": cov,
        "assumptions": assumptions,
        "wall_s": round(time.time() - t0, 2),
        "violations": len(new_viol),
    }
    with open(os.path.join(EVID_DIR, prop + ".json"), "w") as fh:
        json.dump(ev, fh, indent=1)
    print("%s tier=%s: %d instance(s): %d hold, %d violated (%d known), %d excepted, %d unrecognised; %.1fs" % (
        prop, ctx.tier, len(insts), len(holds), len(viol), len(matched), len(exc), len(unrec), time.time() - t0))
    if new_viol:
        return 1
    if unrec or floor_fail or broken:
        return 2
    return 0
