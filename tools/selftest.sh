#!/bin/bash
# selftest.sh — for every "fixed:" entry in known_findings.txt re-introduce the defect (reverse-apply the fix commit in a
# scratch worktree of /repo), run the property's check against that worktree (H4_REPO), expect exit 1 with a VIOLATION
# line.  Development tool: never part of a registered check; /repo itself is not touched and the evidence files of the
# real tree are restored afterwards.  Usage: tools/selftest.sh [property]
set -u
cd /verif
WT=/tmp/wt/selftest
git -C /repo worktree remove --force $WT 2>/dev/null
git -C /repo worktree add --detach $WT HEAD >/dev/null 2>&1 || { echo "cannot create worktree"; exit 3; }
SAVE=$(mktemp -d)
cp -r evidence $SAVE/
trap 'git -C /repo worktree remove --force $WT; rm -rf evidence; mv $SAVE/evidence evidence; rm -rf $SAVE' EXIT
grep "^fixed:" known_findings.txt | grep -v "no static rule" | while read -r _ prop commit rest; do
  p=${prop#property=}
  [ $# -ge 1 ] && [ "$1" != "$p" ] && continue
  revok=1
  for c in $(echo "$commit" | tr '+' ' ' | awk '{for(i=NF;i>0;i--) printf "%s ", $i}'); do
    git -C /repo show "$c" --format= -- . | git -C $WT apply -R 2>/dev/null || revok=0
  done
  [ $revok -eq 1 ] || { git -C $WT checkout -- .; echo "SKIP  $p $commit (reverse patch does not apply: superseded by a later fix)"; continue; }
  out=$(H4_REPO=$WT ./check "$p" --tier quick 2>&1); rc=$?
  git -C $WT checkout -- .
  if [ $rc -eq 1 ]; then echo "FIRES $p $commit: $(echo "$out" | grep -A1 '^VIOLATION' | sed -n 2p | cut -c1-150)"; else echo "MISS  $p $commit (exit $rc): $rest" | cut -c1-200; fi
done
