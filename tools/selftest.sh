#!/bin/bash
# selftest.sh — for every "fixed:" entry in known_findings.txt re-introduce the defect (reverse-apply the fix commit to
# /repo's working tree), run the property's check, expect exit 1 with a VIOLATION line, and undo.  Development tool:
# never part of a registered check.  Usage: tools/selftest.sh [property]
set -u
cd /verif
git -C /repo diff --quiet || { echo "/repo has local changes; refusing"; exit 3; }
trap 'git -C /repo checkout -- .' EXIT
ok=0; bad=0
grep '^fixed:' known_findings.txt | while read -r _ prop commit rest; do
  p=${prop#property=}
  [ $# -ge 1 ] && [ "$1" != "$p" ] && continue
  revok=1
  for c in $(echo "$commit" | tr '+' ' ' | awk '{for(i=NF;i>0;i--) printf "%s ", $i}'); do
    git -C /repo show "$c" --format= -- . | git -C /repo apply -R 2>/dev/null || revok=0
  done
  [ $revok -eq 1 ] || { git -C /repo checkout -- .; echo "SKIP  $p $commit (reverse patch does not apply: superseded by a later fix)"; continue; }
  out=$(./check "$p" --tier quick 2>&1); rc=$?
  git -C /repo checkout -- .
  if [ $rc -eq 1 ]; then echo "FIRES $p $commit: $(echo "$out" | grep -A1 '^VIOLATION' | sed -n 2p | cut -c1-150)"; else echo "MISS  $p $commit (exit $rc): $rest" | cut -c1-200; fi
done
