#!/bin/bash
# verify_seed.sh <seed dir with patch.diff + demo.c|demo.sh> [workdir]
# Confirms in a scratch worktree of /repo HEAD: baseline builds, demo passes; with the patch: builds, 405/405 ctest, demo fails.
# Prints a one-line JSON summary. The worktree and its build output are removed at the end.
set -u
S=$(realpath "$1")
W=${2:-$(mktemp -d /tmp/vs.XXXXXX)}
rmdir "$W" 2>/dev/null
git -C /repo worktree add -q --detach "$W" HEAD || exit 3
cleanup() { git -C /repo worktree remove --force "$W" >/dev/null 2>&1; rm -rf "$W"; }
trap cleanup EXIT
cd "$W"
CM="cmake -G Ninja -S . -B _build -DCMAKE_BUILD_TYPE=RelWithDebInfo -DBUILD_TESTING=ON -DHDF4_BUILD_EXAMPLES=ON -DHDF4_BUILD_TOOLS=ON -DHDF4_BUILD_FORTRAN=OFF -DHDF4_BUILD_JAVA=OFF -DHDF4_ENABLE_SZIP_SUPPORT=OFF -DH4EX_BUILD_TESTING=ON"
$CM >/dev/null 2>&1 && ninja -C _build >/dev/null 2>&1 || { echo '{"ok":false,"why":"baseline build failed"}'; exit 1; }
rundemo() {
  local d=$W/_demo; rm -rf $d; mkdir -p $d; cd $d
  if [ -f "$S/demo.c" ]; then
    sed "s#/tmp/wt/[A-Za-z0-9]*#$W#g" "$S/demo.c" > demo.c
    # a demo that interposes stdio names its linker flags (-Wl,--wrap=...) in its header comment
    XLD=$(grep -o -- '-Wl,--wrap=[A-Za-z_,=-]*' demo.c | sort -u | tr '\n' ' ')
    cc -g $XLD -I$W/hdf/src -I$W/mfhdf/src -I$W/_build demo.c -o demo $W/_build/bin/libmfhdf.a $W/_build/bin/libhdf.a -ljpeg -lz -lm -ldl >/dev/null 2>&1 || { echo 98; return; }
    timeout 300 ./demo >demo.out 2>&1; echo $?
  else
    sed "s#/tmp/wt/[A-Za-z0-9]*#$W#g" "$S/demo.sh" > demo.sh; chmod +x demo.sh
    WT=$W timeout 300 ./demo.sh $W >demo.out 2>&1; echo $?
  fi
  cd $W
}
B=$(rundemo)
git apply "$S/patch.diff" || { echo '{"ok":false,"why":"patch does not apply"}'; exit 1; }
ninja -C _build >/dev/null 2>&1 || { echo '{"ok":false,"why":"patched build failed"}'; exit 1; }
T=$(ctest --test-dir _build -j8 --timeout 900 2>&1 | grep -E "tests passed|tests failed" | head -1)
A=$(rundemo)
OK=false
case "$T" in "100% tests passed, 0 tests failed out of 405") [ "$B" = "0" ] && [ "$A" != "0" ] && OK=true;; esac
echo "{\"ok\":$OK,\"demo_baseline_exit\":$B,\"demo_patched_exit\":$A,\"ctest_patched\":\"$T\"}"
