#!/bin/bash
# runall.sh [quick|thorough] — run every command registered in MANIFEST.json and report exit codes (development aid)
cd /verif
T=${1:-quick}
python3 - "$T" <<'PY'
import json,subprocess,sys,time
m=json.load(open('MANIFEST.json'))
bad=0
for c in m['checks']:
    cmd=c[sys.argv[1]+'_cmd']
    t=time.time()
    r=subprocess.run(cmd,shell=True,cwd='/verif',capture_output=True,text=True)
    last=[l for l in r.stdout.splitlines() if l.strip()][-1:] or ['']
    viol=sum(1 for l in r.stdout.splitlines() if l.startswith('VIOLATION'))
    print("%-4s exit=%d viol=%d %5.1fs %s"%(c['property_id'],r.returncode,viol,time.time()-t,last[0][:110]))
    bad+= (r.returncode!=0) or viol>0
print("FAILED" if bad else "ALL OK")
PY
