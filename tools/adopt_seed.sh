#!/bin/bash
# adopt_seed.sh <src seed dir> <property> <name>   — verify a sub-agent's seeded change and keep it as /verif/seeded/<name>/
set -u
SRC=$1; PROP=$2; NAME=$3
DST=/verif/seeded/$NAME
R=$(/verif/tools/verify_seed.sh "$SRC" | tail -1)
echo "$NAME: $R"
case "$R" in *'"ok":true'*) ;; *) echo "NOT adopted"; exit 1;; esac
mkdir -p $DST
cp "$SRC/patch.diff" $DST/
[ -f "$SRC/demo.c" ] && cp "$SRC/demo.c" $DST/
[ -f "$SRC/demo.sh" ] && cp "$SRC/demo.sh" $DST/
[ -f "$SRC/NOTES.md" ] && cp "$SRC/NOTES.md" $DST/
python3 - "$DST" "$PROP" "$R" <<'PY'
import json,sys,re,os
dst,prop,r=sys.argv[1:4]
notes=open(os.path.join(dst,'NOTES.md')).read() if os.path.exists(os.path.join(dst,'NOTES.md')) else ''
files=sorted(set(re.findall(r'^\+\+\+ b/(\S+)', open(os.path.join(dst,'patch.diff')).read(), re.M)))
meta={"property":prop,"files":files,"origin":"independent sub-agent given only the property text and a scratch worktree",
      "needs_to_manifest":"see NOTES.md","verified_by":"tools/verify_seed.sh in a scratch worktree of /repo HEAD: baseline demo exit 0; patched: build ok, ctest 405/405, demo non-zero",
      "verification":json.loads(r),"detected_by":None}
json.dump(meta,open(os.path.join(dst,'meta.json'),'w'),indent=1)
PY
