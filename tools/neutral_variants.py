#!/usr/bin/env python3
"""neutral_variants.py <worktree> — apply behaviour-preserving edits to a scratch worktree of /repo (never /repo itself).
Development tool: the quick checks of the touched properties must stay silent on the result (`H4_REPO=<worktree> ./check Cxx quick`),
which guards the narrow rules against firing on a refactoring that leaves behaviour unchanged."""
import sys
wt = sys.argv[1]
EDITS = [
    ("hdf/src/hfiledd.c", "offset = file_rec->ddlast->prev->nextoffset + NDDS_SZ;", "offset = file_rec->ddlast->myoffset + NDDS_SZ;"),
    ("hdf/src/dfan.c", "        DFANdir[0] = DFANdir[1] = NULL;\n    }\n    else {", "        for (int t_ = 0; t_ < 2; t_++)\n            DFANdir[t_] = NULL;\n    }\n    else {"),
    ("hdf/src/crle.c", "rle_info->buf_pos += (int)dec_len;", "rle_info->buf_pos = rle_info->buf_pos + (int)dec_len;"),
    ("hdf/src/cdeflate.c", "            if (deflate_info->deflate_context.avail_out < DEFLATE_BUF_SIZE)\n                if (Hwrite", "            if (DEFLATE_BUF_SIZE - deflate_info->deflate_context.avail_out > 0)\n                if (Hwrite"),
    ("mfhdf/src/cdf.c", "    unsigned magic = NCMAGIC;\n", "    unsigned magic;\n\n    magic = NCMAGIC;\n"),
    ("hdf/src/dfan.c", "    if (newflag == 0) { /* does prev annotation exist? */", "    if (!newflag) { /* does prev annotation exist? */"),
    ("hdf/src/mfgr.c", "    if (inil == outil) /* check for trivial input=output 'conversion' */", "    if (outil == inil) /* check for trivial input=output 'conversion' */"),
    ("mfhdf/hrepack/hrepack_opttable.c", "            found = 0;\n            /* linear table search */\n            for (i = 0; i < op_tbl->nelems; i++) {\n                /*already on the table */\n                if (strcmp(obj_list[j].obj, op_tbl->objs[i].objpath) == 0) {\n                    /* already chunk info inserted for this one; exit */",
     "            /* linear table search */\n            for (found = 0, i = 0; i < op_tbl->nelems; i++) {\n                /*already on the table */\n                if (strcmp(obj_list[j].obj, op_tbl->objs[i].objpath) == 0) {\n                    /* already chunk info inserted for this one; exit */"),
    ("hdf/src/vsfld.c", "        if (vs->nusym >= INT16_MAX)", "        if (vs->nusym == INT16_MAX)"),
    ("mfhdf/src/mfsd.c", "    if (rank > H4_MAX_VAR_DIMS || strlen(name) > H4_MAX_NC_NAME) {", "    if (rank >= H4_MAX_VAR_DIMS + 1 || strlen(name) > H4_MAX_NC_NAME) {"),
    ("mfhdf/hdp/show.c", "            for (j = 0; j < count; j++) /* each iteration causes one record\n                                       to be printed */", "            for (j = 0; j != count; j++) /* each iteration causes one record\n                                       to be printed */"),
    ("hdf/src/hblocks.c", "    /* the position may have been moved past the end of the element */\n    if (length < 0)", "    /* the position may have been moved past the end of the element */\n    if (0 > length)"),
    ("mfhdf/hdfimport/hdfimport.c", "        in.is_hdf  = FALSE;\n        in.is_text = FALSE;\n        in.is_fp32 = FALSE;\n        in.is_fp64 = FALSE;\n", "        reset_input_flags(&in);\n"),
    ("mfhdf/hdfimport/hdfimport.c", "static int\nprocess(struct Options *opt)", "static void\nreset_input_flags(struct Input *in)\n{\n    in->is_hdf  = FALSE;\n    in->is_text = FALSE;\n    in->is_fp32 = FALSE;\n    in->is_fp64 = FALSE;\n}\n\nstatic int\nprocess(struct Options *opt)"),
    ("hdf/src/vgp.c", "            v->nattach++;\n        }\n        else {\n            vg         = v->vg;", "            v->nattach += 1;\n        }\n        else {\n            vg         = v->vg;"),
    ("hdf/src/hchunks.c", "        if ((ddims[ndims - 1].last_chunk_length - spb[ndims - 1]) * nt_size > (len - bytes_finished))\n            *chunk_size = len - bytes_finished; /* less than a chunk to write */\n        else                                    /* last full chunk */\n            *chunk_size = (ddims[ndims - 1].last_chunk_length - spb[ndims - 1]) * nt_size;",
     "        if ((len - bytes_finished) < (ddims[ndims - 1].last_chunk_length - spb[ndims - 1]) * nt_size)\n            *chunk_size = len - bytes_finished; /* less than a chunk to write */\n        else                                    /* last full chunk */\n            *chunk_size = (ddims[ndims - 1].last_chunk_length - spb[ndims - 1]) * nt_size;"),
    ("hdf/src/bitvect.c", "        if (base_elem < b->last_zero)\n            b->last_zero = base_elem;", "        if (b->last_zero > base_elem)\n            b->last_zero = base_elem;"),
    ("hdf/src/hfile.c", "    if (!(access_rec->access & DFACC_WRITE))\n        HGOTO_ERROR(DFE_DENIED, FAIL);\n\n    file_rec = HAatom_object(access_rec->file_id);", "    if ((access_rec->access & DFACC_WRITE) == 0)\n        HGOTO_ERROR(DFE_DENIED, FAIL);\n\n    file_rec = HAatom_object(access_rec->file_id);"),
    ("hdf/src/cskphuff.c", "            if (Hbitread(info->aid, 1, &bit) != 1) /* a failed read returns a short count */", "            if (1 != Hbitread(info->aid, 1, &bit)) /* a failed read returns a short count */"),
    ("mfhdf/src/cdf.c", "                if ((*handlep)->vgid != 0)\n                    HGOTO_ERROR(DFE_READERROR, FAIL);", "                if ((*handlep)->vgid) {\n                    HGOTO_ERROR(DFE_READERROR, FAIL);\n                }"),
    # round 12 rules
    ("hdf/src/hblocks.c", "    if (length == 0)\n        HGOTO_DONE(0);\n", "    if (length < 1)\n        HGOTO_DONE(0);\n"),   # DOENTRY
    ("hdf/src/cnbit.c", "        if (nbit_info->buf_pos >= nbit_info->buf_len) { /* re-fill buffer */", "        if (nbit_info->buf_len <= nbit_info->buf_pos) { /* re-fill buffer */"),  # FILLEXT
    ("hdf/src/crle.c", "                        rle_info->rle_state   = RLE_INIT;\n                        rle_info->second_byte = rle_info->last_byte = (unsigned)RLE_NIL;\n                    }\n                }\n                buf++;\n                length--;\n                break;\n\n            case RLE_MIX:",
     "                        rle_info->second_byte = (unsigned)RLE_NIL;\n                        rle_info->last_byte   = (unsigned)RLE_NIL;\n                        rle_info->rle_state   = RLE_INIT;\n                    }\n                }\n                buf++;\n                length--;\n                break;\n\n            case RLE_MIX:"),  # STATEHIST
    ("hdf/src/hfile.c", "    /* seek and write data */\n    if (HPseek(file_rec, access_rec->posn + data_off) == FAIL)\n        HGOTO_ERROR(DFE_SEEKERROR, FAIL);\n\n    if (HP_write(file_rec, data, length) == FAIL)",
     "    /* seek and write data */\n    if (HPseek(file_rec, access_rec->posn + data_off) == FAIL)\n        HGOTO_ERROR(DFE_SEEKERROR, FAIL);\n    HEclear();\n\n    if (HP_write(file_rec, data, length) == FAIL)"),  # SEEKGAP: a call that cannot move the file pointer
    ("mfhdf/src/cdf.c", "            if (handle->file_type == HDF_FILE)\n                val = (*var)->numrecs;\n            else\n                val = handle->numrecs;", "            if (handle->file_type != HDF_FILE)\n                val = handle->numrecs;\n            else\n                val = (*var)->numrecs;"),  # RECOWNER
    ("mfhdf/src/cdf.c", "    for (t = 0; t < n; t++) { /* get tag/ref of element in vgroup */\n        if (FAIL == Vgettagref(vg, t, &tag, &ref)) {\n            HGOTO_FAIL(FAIL);\n        }\n\n        /* switch on the type of element: vgroup, vdata, data,",
     "    for (t = 0; n > t; t++) { /* get tag/ref of element in vgroup */\n        if (FAIL == Vgettagref(vg, t, &tag, &ref)) {\n            HGOTO_FAIL(FAIL);\n        }\n\n        /* switch on the type of element: vgroup, vdata, data,"),  # MEMBERSCAN
    ("mfhdf/src/putget.c", "                        HDmemfill(values, (*attr)->data->values, vp->szof, count);\n                    else\n                        NC_arrayfill(values, count * vp->szof, vp->type);", "                        HDmemfill(values, (*attr)->data->values, vp->szof, count);\n                    else\n                        NC_arrayfill(values, vp->szof * count, vp->type);"),  # FILLPAIR
    ("hdf/src/hblocks.c", "    /* this access record no longer refers to the information record, freed or not */\n    access_rec->special_info = NULL;\n\n    return ret_value;\n} /* HLPcloseAID */",
     "    /* this access record no longer refers to the information record, freed or not */\n    access_rec->special_info = (void *)0;\n\n    return ret_value;\n} /* HLPcloseAID */"),  # DETACHNULL
    ("hdf/src/dfgr.c", "    if ((rigref = Hnewref(file_id)) == 0)\n        HGOTO_ERROR(DFE_INTERNAL, FAIL);", "    rigref = Hnewref(file_id);\n    if (rigref == 0)\n        HGOTO_ERROR(DFE_INTERNAL, FAIL);"),  # GROUPREF
]
bad = 0
for rel, old, new in EDITS:
    p = "%s/%s" % (wt, rel)
    s = open(p).read()
    if s.count(old) < 1:
        print("variant no longer applies: %s: %s" % (rel, old[:50].replace("\n", " ")))
        bad += 1
        continue
    open(p, "w").write(s.replace(old, new, 1))
print("%d variant(s) applied, %d stale" % (len(EDITS) - bad, bad))
