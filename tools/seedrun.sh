#!/bin/bash
# seedrun.sh <seed name> <property ids...>  — apply a kept seeded change to /repo, run the checks, undo it straight afterwards
set -u
N=$1; shift
P=/verif/seeded/$N/patch.diff
git -C /repo diff --quiet || { echo "/repo has local changes; refusing"; exit 3; }
git -C /repo apply "$P" || { echo "patch does not apply to /repo HEAD"; exit 3; }
trap 'git -C /repo checkout -- . ' EXIT
for p in "$@"; do
  out=$(cd /verif && ./check $p --tier quick 2>&1); rc=$?
  echo "== $N vs $p: exit $rc"
  echo "$out" | grep -E "^VIOLATION|^   |ANALYSIS-BROKEN" | head -8
done
