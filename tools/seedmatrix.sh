#!/bin/bash
# seedmatrix.sh [seed...] — apply every kept seeded change (seeded/<name>/patch.diff) to a scratch worktree of /repo,
# run the quick check of the seed's property (and of the other properties given in SEED_ALSO) against that worktree, and
# write seeded/MATRIX.md plus "detected_by" in each meta.json.  Development tool; /repo and the evidence files of the
# real tree are left untouched.
set -u
cd /verif
WT=/tmp/wt/seedmatrix
git -C /repo worktree remove --force $WT 2>/dev/null
git -C /repo worktree add --detach $WT HEAD >/dev/null 2>&1 || { echo "cannot create worktree"; exit 3; }
SAVE=$(mktemp -d); cp -r evidence $SAVE/
trap 'git -C /repo worktree remove --force $WT; rm -rf evidence; mv $SAVE/evidence evidence; rm -rf $SAVE' EXIT
seeds=${@:-$(ls seeded | grep -v MATRIX)}
out=seeded/MATRIX.md
[ $# -eq 0 ] && { echo "| seed | property | detected by (quick check, rule:instance) |" > $out; echo "|---|---|---|" >> $out; }
for s in $seeds; do
  [ -f seeded/$s/patch.diff ] || continue
  p=$(python3 -c "import json;print(json.load(open('seeded/$s/meta.json'))['property'])")
  git -C $WT checkout -q -- .
  git -C $WT apply /verif/seeded/$s/patch.diff 2>/dev/null || { echo "| $s | $p | patch no longer applies |" | tee -a $out; continue; }
  det=""
  for q in $p ${SEED_ALSO:-}; do
    o=$(H4_REPO=$WT ./check $q --tier quick 2>&1); rc=$?
    if [ $rc -eq 1 ]; then det="$det $q: $(echo "$o" | grep -A1 '^VIOLATION' | sed -n 2p | awk '{print $1" "$2}')"; fi
    [ $rc -eq 2 ] && det="$det $q: ANALYSIS-BROKEN"
  done
  git -C $WT checkout -q -- .
  [ -z "$det" ] && det="— (missed)"
  echo "| $s | $p | $det |" | tee -a $out
  python3 - "$s" "$det" <<'PY'
import json,sys
p='seeded/%s/meta.json'%sys.argv[1]
m=json.load(open(p)); d=sys.argv[2].strip()
m['detected_by']=None if d.startswith('—') else d
json.dump(m,open(p,'w'),indent=1)
PY
done
