// h4x — fact extractor for the hdf4 static rules (LibTooling, clang 14).
//
// usage: h4x <out.json> <source.c> -- <compile flags>
//
// Emits one JSON file per translation unit:
//   functions : every function *defined* in a /repo file: signature, per-function
//               clang::CFG (blocks, successors, terminator + condition, labels)
//               and for every CFG element a compact, type-resolved expression tree
//   macros    : every function-like macro expansion (name, position of the
//               outermost expansion, argument spellings)
//   defs      : object-like macro definitions from /repo headers (name -> body text)
//   globals   : file-scope variables with initialisers (function tables …)
//   records   : struct layouts
//   decls     : function name -> header files that declare it (public API set)
//   types     : type spelling -> [kind, bits, signed, aux]
//
// Nothing here decides a property: the rules live in /verif/h4rules (python).

#include "clang/AST/ASTConsumer.h"
#include "clang/AST/ASTContext.h"
#include "clang/AST/Decl.h"
#include "clang/AST/Expr.h"
#include "clang/AST/RecursiveASTVisitor.h"
#include "clang/AST/Stmt.h"
#include "clang/Analysis/CFG.h"
#include "clang/Basic/SourceManager.h"
#include "clang/Frontend/CompilerInstance.h"
#include "clang/Frontend/FrontendAction.h"
#include "clang/Lex/Lexer.h"
#include "clang/Lex/MacroArgs.h"
#include "clang/Lex/PPCallbacks.h"
#include "clang/Lex/Preprocessor.h"
#include "clang/Tooling/CompilationDatabase.h"
#include "clang/Tooling/Tooling.h"
#include "llvm/Support/JSON.h"
#include "llvm/Support/raw_ostream.h"

#include <map>
#include <set>
#include <string>
#include <vector>

using namespace clang;
namespace json = llvm::json;

static std::string gOut;
static std::string gRepo = "/repo/";

namespace {

struct Shared {
    json::Array  macros;
    json::Object defs;
};

static bool inRepo(const SourceManager &SM, SourceLocation L)
{
    if (L.isInvalid())
        return false;
    SourceLocation F = SM.getFileLoc(L);
    StringRef      N = SM.getFilename(F);
    return N.startswith(gRepo) || !N.startswith("/usr");
}

static std::string fileOf(const SourceManager &SM, SourceLocation L)
{
    SourceLocation F = SM.getFileLoc(L);
    PresumedLoc    P = SM.getPresumedLoc(F);
    if (P.isInvalid())
        return "";
    return P.getFilename();
}

class PPC : public PPCallbacks {
  public:
    Preprocessor &PP;
    Shared       &S;
    PPC(Preprocessor &pp, Shared &s) : PP(pp), S(s) {}

    void MacroExpands(const Token &Tok, const MacroDefinition &MD, SourceRange Range,
                      const MacroArgs *Args) override
    {
        const MacroInfo *MI = MD.getMacroInfo();
        if (!MI || !MI->isFunctionLike())
            return;
        SourceManager &SM = PP.getSourceManager();
        SourceLocation B  = Range.getBegin();
        if (!inRepo(SM, B))
            return;
        bool           nested = B.isMacroID();
        SourceLocation X      = SM.getExpansionLoc(B);
        SourceLocation XE     = SM.getExpansionLoc(Range.getEnd());
        json::Array    args;
        if (Args) {
            unsigned n = MI->getNumParams();
            for (unsigned i = 0; i < n; i++) {
                const Token *T = Args->getUnexpArgument(i);
                std::string  s;
                for (; T && T->isNot(tok::eof); ++T) {
                    if (!s.empty() && T->hasLeadingSpace())
                        s += ' ';
                    s += PP.getSpelling(*T);
                    if (s.size() > 300)
                        break;
                }
                args.push_back(s);
            }
        }
        json::Object o;
        o["n"] = Tok.getIdentifierInfo()->getName().str();
        o["f"] = fileOf(SM, X);
        o["l"] = SM.getExpansionLineNumber(X);
        o["c"] = SM.getExpansionColumnNumber(X);
        o["el"] = SM.getExpansionLineNumber(XE);
        o["a"] = std::move(args);
        if (nested)
            o["nested"] = true;
        S.macros.push_back(std::move(o));
    }

    void MacroDefined(const Token &Tok, const MacroDirective *MD) override
    {
        const MacroInfo *MI = MD->getMacroInfo();
        if (!MI || MI->isFunctionLike() || MI->getNumTokens() == 0 || MI->getNumTokens() > 16)
            return;
        SourceManager &SM = PP.getSourceManager();
        if (!inRepo(SM, MI->getDefinitionLoc()))
            return;
        StringRef fn = SM.getFilename(SM.getFileLoc(MI->getDefinitionLoc()));
        if (!fn.startswith(gRepo))
            return;
        std::string s;
        for (const Token &T : MI->tokens()) {
            if (!s.empty() && T.hasLeadingSpace())
                s += ' ';
            s += PP.getSpelling(T);
        }
        S.defs[Tok.getIdentifierInfo()->getName()] = s;
    }
};

class Emitter {
  public:
    ASTContext                        &Ctx;
    SourceManager                     &SM;
    const LangOptions                 &LO;
    json::Object                       types;
    std::set<std::string>              typeSeen;
    std::map<const RecordDecl *, bool> recSeen;
    json::Array                        records;
    std::set<const Stmt *>             seenElsewhere; // CFG elements evaluated in an earlier block
    const Stmt                        *curRoot = nullptr;
    std::map<const Stmt *, unsigned>   elemBlockOf; // CFG element -> its block
    int                                curBlock = -1;

    static const Stmt *norm(const Stmt *S)
    {
        if (const Expr *E = dyn_cast_or_null<Expr>(S))
            return E->IgnoreParenImpCasts();
        return S;
    }

    Emitter(ASTContext &C) : Ctx(C), SM(C.getSourceManager()), LO(C.getLangOpts()) {}

    std::string ty(QualType T)
    {
        if (T.isNull())
            return "?";
        std::string s = T.getUnqualifiedType().getAsString();
        if (!typeSeen.count(s)) {
            typeSeen.insert(s);
            QualType    C = T.getCanonicalType();
            json::Array a;
            if (C->isPointerType()) {
                a.push_back("ptr");
                a.push_back((int64_t)Ctx.getTypeSize(C));
                a.push_back(false);
                QualType P = C->getPointeeType();
                if (P->isFunctionType())
                    a.push_back("fn");
                else
                    a.push_back(P.getUnqualifiedType().getAsString());
            }
            else if (C->isIntegralOrEnumerationType()) {
                a.push_back("int");
                a.push_back((int64_t)Ctx.getTypeSize(C));
                a.push_back(C->isSignedIntegerOrEnumerationType());
                a.push_back(C.getUnqualifiedType().getAsString());
            }
            else if (C->isFloatingType()) {
                a.push_back("float");
                a.push_back((int64_t)Ctx.getTypeSize(C));
                a.push_back(true);
                a.push_back("");
            }
            else if (C->isRecordType()) {
                a.push_back("rec");
                a.push_back(C->isIncompleteType() ? (int64_t)0 : (int64_t)Ctx.getTypeSize(C));
                a.push_back(false);
                a.push_back(C.getUnqualifiedType().getAsString());
                if (const RecordType *RT = C->getAs<RecordType>())
                    addRecord(RT->getDecl());
            }
            else if (const ConstantArrayType *AT = Ctx.getAsConstantArrayType(C)) {
                a.push_back("arr");
                a.push_back((int64_t)AT->getSize().getZExtValue());
                a.push_back(false);
                a.push_back(ty(AT->getElementType()));
            }
            else {
                a.push_back("other");
                a.push_back(0);
                a.push_back(false);
                a.push_back(C.getAsString());
            }
            types[s] = std::move(a);
        }
        return s;
    }

    void addRecord(const RecordDecl *RD)
    {
        RD = RD->getDefinition();
        if (!RD || recSeen.count(RD))
            return;
        recSeen[RD] = true;
        if (!inRepo(SM, RD->getLocation()))
            return;
        json::Object o;
        std::string  nm = RD->getNameAsString();
        if (nm.empty())
            if (const TypedefNameDecl *TD = RD->getTypedefNameForAnonDecl())
                nm = TD->getNameAsString();
        o["name"] = nm;
        o["file"] = fileOf(SM, RD->getLocation());
        o["line"] = SM.getExpansionLineNumber(RD->getLocation());
        json::Array fs;
        for (const FieldDecl *F : RD->fields()) {
            json::Array f;
            f.push_back(F->getNameAsString());
            f.push_back(ty(F->getType()));
            fs.push_back(std::move(f));
        }
        o["fields"] = std::move(fs);
        records.push_back(std::move(o));
    }

    // name of the macro whose body spells exactly this (constant) expression
    std::string constName(const Expr *E)
    {
        SourceLocation B = E->getBeginLoc(), En = E->getEndLoc();
        if (!B.isMacroID() || !En.isMacroID())
            return "";
        while (B.isMacroID() && SM.isMacroArgExpansion(B))
            B = SM.getImmediateSpellingLoc(B);
        while (En.isMacroID() && SM.isMacroArgExpansion(En))
            En = SM.getImmediateSpellingLoc(En);
        if (!B.isMacroID() || !En.isMacroID())
            return "";
        // climb while both ends are the first/last token of their expansion so that
        // nested definitions (#define A B, #define B ((uint16)20)) name the outermost
        std::string name;
        for (int guard = 0; guard < 8; guard++) {
            if (SM.getFileID(B) != SM.getFileID(En))
                break;
            SourceLocation mb, me;
            if (!Lexer::isAtStartOfMacroExpansion(B, SM, LO, &mb) ||
                !Lexer::isAtEndOfMacroExpansion(En, SM, LO, &me))
                break;
            name = Lexer::getImmediateMacroName(B, SM, LO).str();
            // one level up
            SourceLocation nb = SM.getImmediateExpansionRange(B).getBegin();
            SourceLocation ne = SM.getImmediateExpansionRange(En).getEnd();
            B                 = nb;
            En                = ne;
            while (B.isMacroID() && SM.isMacroArgExpansion(B))
                B = SM.getImmediateSpellingLoc(B);
            while (En.isMacroID() && SM.isMacroArgExpansion(En))
                En = SM.getImmediateSpellingLoc(En);
            if (!B.isMacroID() || !En.isMacroID())
                break;
        }
        return name;
    }

    json::Array macroChain(SourceLocation L)
    {
        json::Array chain;
        int         guard = 0;
        while (L.isMacroID() && guard++ < 32) {
            if (SM.isMacroArgExpansion(L)) {
                L = SM.getImmediateSpellingLoc(L);
                continue;
            }
            chain.push_back(Lexer::getImmediateMacroName(L, SM, LO).str());
            L = SM.getImmediateExpansionRange(L).getBegin();
        }
        return chain;
    }

    int line(SourceLocation L) { return L.isValid() ? (int)SM.getExpansionLineNumber(L) : 0; }
    int col(SourceLocation L) { return L.isValid() ? (int)SM.getExpansionColumnNumber(L) : 0; }

    json::Value intNode(const llvm::APSInt &V, const std::string &name)
    {
        json::Array a;
        a.push_back("int");
        if (V.isSigned() || V.getActiveBits() <= 63)
            a.push_back(V.isSigned() ? V.getSExtValue() : (int64_t)V.getZExtValue());
        else
            a.push_back((int64_t)V.getZExtValue());
        if (!name.empty())
            a.push_back(name);
        return std::move(a);
    }

    json::Value J(const Stmt *S)
    {
        if (!S)
            return nullptr;
        if (const Expr *E = dyn_cast<Expr>(S))
            return JE(E);
        json::Array a;
        if (const ReturnStmt *R = dyn_cast<ReturnStmt>(S)) {
            a.push_back("ret");
            a.push_back(R->getRetValue() ? JE(R->getRetValue()) : json::Value(nullptr));
            a.push_back(line(R->getBeginLoc()));
            return std::move(a);
        }
        if (const DeclStmt *D = dyn_cast<DeclStmt>(S)) {
            a.push_back("decl");
            json::Array ds;
            for (const Decl *d : D->decls()) {
                if (const VarDecl *V = dyn_cast<VarDecl>(d)) {
                    json::Array v;
                    v.push_back(V->getNameAsString());
                    v.push_back(ty(V->getType()));
                    v.push_back(V->getInit() ? JE(V->getInit()) : json::Value(nullptr));
                    v.push_back(V->isStaticLocal());
                    ds.push_back(std::move(v));
                }
            }
            a.push_back(std::move(ds));
            a.push_back(line(D->getBeginLoc()));
            return std::move(a);
        }
        a.push_back("stmt");
        a.push_back(S->getStmtClassName());
        return std::move(a);
    }

    json::Value JE(const Expr *E)
    {
        if (!E)
            return nullptr;
        const Expr *Orig = E;
        E = E->IgnoreParens();
        // skip implicit nodes
        while (true) {
            if (const ImplicitCastExpr *IC = dyn_cast<ImplicitCastExpr>(E)) {
                E = IC->getSubExpr()->IgnoreParens();
                continue;
            }
            if (const ConstantExpr *CE = dyn_cast<ConstantExpr>(E)) {
                E = CE->getSubExpr()->IgnoreParens();
                continue;
            }
            if (const OpaqueValueExpr *OV = dyn_cast<OpaqueValueExpr>(E)) {
                if (OV->getSourceExpr()) {
                    E = OV->getSourceExpr()->IgnoreParens();
                    continue;
                }
            }
            break;
        }
        json::Array a;
        if (curRoot && E != curRoot && seenElsewhere.count(E) &&
            !(curBlock >= 0 && elemBlockOf.count(E) && (int)elemBlockOf[E] == curBlock)) {
            const Stmt *save = curRoot;
            curRoot          = E; // emit the tree itself once, wrapped
            json::Value inner = JE(E);
            curRoot          = save;
            a.push_back("seen");
            a.push_back(std::move(inner));
            return std::move(a);
        }
        // constants
        if (E->isPRValue() && E->getType()->isIntegralOrEnumerationType() && !isa<CallExpr>(E)) {
            Expr::EvalResult R;
            if (E->EvaluateAsInt(R, Ctx, Expr::SE_NoSideEffects) && !R.HasSideEffects) {
                std::string nm = constName(Orig);
                if (nm.empty())
                    nm = constName(E);
                if (nm.empty()) {
                    if (const DeclRefExpr *DR = dyn_cast<DeclRefExpr>(E))
                        nm = DR->getDecl()->getNameAsString();
                    else if (const UnaryExprOrTypeTraitExpr *U = dyn_cast<UnaryExprOrTypeTraitExpr>(E)) {
                        if (U->getKind() == UETT_SizeOf)
                            nm = "sizeof(" +
                                 (U->isArgumentType() ? ty(U->getArgumentType())
                                                      : ty(U->getArgumentExpr()->getType())) +
                                 ")";
                    }
                }
                json::Value v = intNode(R.Val.getInt(), nm);
                // keep explicit casts of constants visible: (uint16)x folded is fine
                return v;
            }
        }
        if (const DeclRefExpr *DR = dyn_cast<DeclRefExpr>(E)) {
            const ValueDecl *D = DR->getDecl();
            if (const FunctionDecl *FD = dyn_cast<FunctionDecl>(D)) {
                a.push_back("fn");
                a.push_back(FD->getNameAsString());
                return std::move(a);
            }
            if (const VarDecl *V = dyn_cast<VarDecl>(D)) {
                a.push_back("var");
                a.push_back(V->getNameAsString());
                const char *k = "l";
                if (isa<ParmVarDecl>(V))
                    k = "p";
                else if (V->isStaticLocal())
                    k = "s";
                else if (V->hasGlobalStorage())
                    k = "g";
                a.push_back(k);
                a.push_back(ty(V->getType()));
                return std::move(a);
            }
            a.push_back("ref");
            a.push_back(D->getNameAsString());
            return std::move(a);
        }
        if (const MemberExpr *M = dyn_cast<MemberExpr>(E)) {
            a.push_back("mem");
            a.push_back(JE(M->getBase()));
            a.push_back(M->getMemberDecl()->getNameAsString());
            std::string rn;
            if (const FieldDecl *F = dyn_cast<FieldDecl>(M->getMemberDecl())) {
                const RecordDecl *RD = F->getParent();
                rn                   = RD->getNameAsString();
                if (rn.empty())
                    if (const TypedefNameDecl *TD = RD->getTypedefNameForAnonDecl())
                        rn = TD->getNameAsString();
                addRecord(RD);
            }
            a.push_back(rn);
            a.push_back(ty(M->getType()));
            a.push_back(M->isArrow() ? 1 : 0);
            return std::move(a);
        }
        if (const ArraySubscriptExpr *AS = dyn_cast<ArraySubscriptExpr>(E)) {
            a.push_back("idx");
            a.push_back(JE(AS->getBase()));
            a.push_back(JE(AS->getIdx()));
            a.push_back(ty(AS->getType()));
            return std::move(a);
        }
        if (const UnaryOperator *U = dyn_cast<UnaryOperator>(E)) {
            switch (U->getOpcode()) {
                case UO_Deref:
                    a.push_back("deref");
                    a.push_back(JE(U->getSubExpr()));
                    a.push_back(ty(U->getType()));
                    return std::move(a);
                case UO_AddrOf:
                    a.push_back("addr");
                    a.push_back(JE(U->getSubExpr()));
                    return std::move(a);
                case UO_PostInc:
                case UO_PostDec:
                case UO_PreInc:
                case UO_PreDec:
                    a.push_back("incdec");
                    a.push_back(U->isIncrementOp() ? "++" : "--");
                    a.push_back(U->isPrefix());
                    a.push_back(JE(U->getSubExpr()));
                    a.push_back(line(U->getBeginLoc()));
                    a.push_back(ty(U->getType()));
                    return std::move(a);
                default:
                    a.push_back("un");
                    a.push_back(UnaryOperator::getOpcodeStr(U->getOpcode()).str());
                    a.push_back(JE(U->getSubExpr()));
                    return std::move(a);
            }
        }
        if (const BinaryOperator *B = dyn_cast<BinaryOperator>(E)) {
            if (B->isAssignmentOp()) {
                a.push_back("asg");
                a.push_back(B->getOpcodeStr().str());
                a.push_back(JE(B->getLHS()));
                a.push_back(JE(B->getRHS()));
                a.push_back(line(B->getOperatorLoc()));
                a.push_back(ty(B->getLHS()->getType()));
                return std::move(a);
            }
            if (B->getOpcode() == BO_Comma) {
                a.push_back("comma");
                a.push_back(JE(B->getLHS()));
                a.push_back(JE(B->getRHS()));
                return std::move(a);
            }
            a.push_back("bin");
            a.push_back(B->getOpcodeStr().str());
            a.push_back(JE(B->getLHS()));
            a.push_back(JE(B->getRHS()));
            a.push_back(ty(B->getType()));
            return std::move(a);
        }
        if (const CallExpr *C = dyn_cast<CallExpr>(E)) {
            a.push_back("call");
            const FunctionDecl *FD = C->getDirectCallee();
            if (FD) {
                a.push_back(FD->getNameAsString());
                a.push_back(nullptr);
            }
            else {
                a.push_back(nullptr);
                a.push_back(JE(C->getCallee()));
            }
            json::Array args;
            for (const Expr *A : C->arguments())
                args.push_back(JE(A));
            a.push_back(std::move(args));
            a.push_back(ty(C->getType()));
            a.push_back(line(C->getBeginLoc()));
            a.push_back(col(C->getBeginLoc()));
            a.push_back(macroChain(C->getBeginLoc()));
            return std::move(a);
        }
        if (const ExplicitCastExpr *CC = dyn_cast<ExplicitCastExpr>(E)) {
            a.push_back("cast");
            a.push_back(ty(CC->getType()));
            a.push_back(JE(CC->getSubExpr()));
            return std::move(a);
        }
        if (const AbstractConditionalOperator *CO = dyn_cast<AbstractConditionalOperator>(E)) {
            a.push_back("cond");
            a.push_back(JE(CO->getCond()));
            a.push_back(JE(CO->getTrueExpr()));
            a.push_back(JE(CO->getFalseExpr()));
            return std::move(a);
        }
        if (const StringLiteral *SL = dyn_cast<StringLiteral>(E)) {
            a.push_back("str");
            if (SL->getCharByteWidth() == 1)
                a.push_back(SL->getString().substr(0, 200).str());
            else
                a.push_back("<wide>");
            a.push_back((int64_t)SL->getLength());
            return std::move(a);
        }
        if (const FloatingLiteral *FL = dyn_cast<FloatingLiteral>(E)) {
            a.push_back("flt");
            a.push_back(FL->getValueAsApproximateDouble());
            return std::move(a);
        }
        if (const InitListExpr *IL = dyn_cast<InitListExpr>(E)) {
            if (IL->isSyntacticForm() && IL->getSemanticForm())
                IL = IL->getSemanticForm();
            a.push_back("init");
            a.push_back(ty(IL->getType()));
            json::Array els, names;
            for (const Expr *I : IL->inits())
                els.push_back(JE(I));
            if (const RecordType *RT = IL->getType()->getAs<RecordType>()) {
                for (const FieldDecl *F : RT->getDecl()->fields())
                    names.push_back(F->getNameAsString());
            }
            a.push_back(std::move(els));
            a.push_back(std::move(names));
            return std::move(a);
        }
        if (isa<ImplicitValueInitExpr>(E)) {
            a.push_back("zero");
            return std::move(a);
        }
        if (const UnaryExprOrTypeTraitExpr *U = dyn_cast<UnaryExprOrTypeTraitExpr>(E)) {
            a.push_back("sizeof?");
            a.push_back(U->isArgumentType() ? ty(U->getArgumentType()) : ty(U->getArgumentExpr()->getType()));
            return std::move(a);
        }
        if (const CompoundLiteralExpr *CL = dyn_cast<CompoundLiteralExpr>(E)) {
            a.push_back("complit");
            a.push_back(JE(CL->getInitializer()));
            return std::move(a);
        }
        if (const StmtExpr *SE = dyn_cast<StmtExpr>(E)) {
            (void)SE;
            a.push_back("stmtexpr");
            return std::move(a);
        }
        if (const VAArgExpr *VA = dyn_cast<VAArgExpr>(E)) {
            a.push_back("vaarg");
            a.push_back(ty(VA->getType()));
            return std::move(a);
        }
        if (const PredefinedExpr *PE = dyn_cast<PredefinedExpr>(E)) {
            (void)PE;
            a.push_back("str");
            a.push_back("__func__");
            a.push_back(0);
            return std::move(a);
        }
        a.push_back("other");
        a.push_back(E->getStmtClassName());
        return std::move(a);
    }

    json::Value stmtEntry(const Stmt *S)
    {
        json::Object   o;
        SourceLocation L = S->getBeginLoc();
        curRoot          = norm(S);
        o["e"]           = J(S);
        curRoot          = nullptr;
        o["l"]           = line(L);
        o["c"]           = col(L);
        if (L.isMacroID())
            o["m"] = macroChain(L);
        return std::move(o);
    }

    json::Value caseLabel(const Stmt *Lb)
    {
        if (!Lb)
            return nullptr;
        json::Object o;
        if (const CaseStmt *CS = dyn_cast<CaseStmt>(Lb)) {
            Expr::EvalResult R;
            if (CS->getLHS()->EvaluateAsInt(R, Ctx)) {
                std::string nm = constName(CS->getLHS()->IgnoreParenImpCasts());
                if (nm.empty())
                    if (const DeclRefExpr *DR = dyn_cast<DeclRefExpr>(CS->getLHS()->IgnoreParenImpCasts()))
                        nm = DR->getDecl()->getNameAsString();
                o["case"] = R.Val.getInt().getSExtValue();
                if (!nm.empty())
                    o["name"] = nm;
            }
            else
                o["case"] = nullptr;
            if (CS->getRHS()) {
                Expr::EvalResult R2;
                if (CS->getRHS()->EvaluateAsInt(R2, Ctx))
                    o["hi"] = R2.Val.getInt().getSExtValue();
            }
            o["line"] = line(CS->getBeginLoc());
        }
        else if (isa<DefaultStmt>(Lb)) {
            o["default"] = true;
            o["line"]    = line(Lb->getBeginLoc());
        }
        else if (const LabelStmt *LS = dyn_cast<LabelStmt>(Lb)) {
            o["label"] = LS->getName();
            o["line"]  = line(Lb->getBeginLoc());
        }
        return std::move(o);
    }

    // structured (AST-shaped) view of a function body, for layout / table / kernel rules
    json::Value A(const Stmt *S)
    {
        json::Array a;
        if (!S) {
            a.push_back("null");
            return std::move(a);
        }
        SourceLocation L = S->getBeginLoc();
        auto pos = [&](json::Array &x) {
            x.push_back(line(L));
            x.push_back(col(L));
            x.push_back(L.isMacroID() ? json::Value(macroChain(L)) : json::Value(json::Array()));
        };
        if (const CompoundStmt *C = dyn_cast<CompoundStmt>(S)) {
            a.push_back("block");
            json::Array ch;
            for (const Stmt *c : C->body())
                ch.push_back(A(c));
            a.push_back(std::move(ch));
            pos(a);
            return std::move(a);
        }
        if (const IfStmt *I = dyn_cast<IfStmt>(S)) {
            a.push_back("if");
            a.push_back(JE(I->getCond()));
            a.push_back(A(I->getThen()));
            a.push_back(I->getElse() ? A(I->getElse()) : json::Value(nullptr));
            pos(a);
            return std::move(a);
        }
        if (const ForStmt *F = dyn_cast<ForStmt>(S)) {
            a.push_back("for");
            a.push_back(F->getInit() ? J(F->getInit()) : json::Value(nullptr));
            a.push_back(F->getCond() ? JE(F->getCond()) : json::Value(nullptr));
            a.push_back(F->getInc() ? JE(F->getInc()) : json::Value(nullptr));
            a.push_back(A(F->getBody()));
            pos(a);
            return std::move(a);
        }
        if (const WhileStmt *W = dyn_cast<WhileStmt>(S)) {
            a.push_back("while");
            a.push_back(JE(W->getCond()));
            a.push_back(A(W->getBody()));
            pos(a);
            return std::move(a);
        }
        if (const DoStmt *D = dyn_cast<DoStmt>(S)) {
            a.push_back("do");
            a.push_back(A(D->getBody()));
            a.push_back(JE(D->getCond()));
            pos(a);
            return std::move(a);
        }
        if (const SwitchStmt *Sw = dyn_cast<SwitchStmt>(S)) {
            a.push_back("switch");
            a.push_back(JE(Sw->getCond()));
            a.push_back(A(Sw->getBody()));
            pos(a);
            return std::move(a);
        }
        if (const CaseStmt *CS = dyn_cast<CaseStmt>(S)) {
            a.push_back("case");
            a.push_back(caseLabel(CS));
            a.push_back(A(CS->getSubStmt()));
            pos(a);
            return std::move(a);
        }
        if (const DefaultStmt *DS = dyn_cast<DefaultStmt>(S)) {
            a.push_back("default");
            a.push_back(A(DS->getSubStmt()));
            pos(a);
            return std::move(a);
        }
        if (const LabelStmt *LS = dyn_cast<LabelStmt>(S)) {
            a.push_back("label");
            a.push_back(LS->getName());
            a.push_back(A(LS->getSubStmt()));
            pos(a);
            return std::move(a);
        }
        if (const GotoStmt *G = dyn_cast<GotoStmt>(S)) {
            a.push_back("goto");
            a.push_back(G->getLabel()->getName());
            pos(a);
            return std::move(a);
        }
        if (isa<BreakStmt>(S)) {
            a.push_back("break");
            pos(a);
            return std::move(a);
        }
        if (isa<ContinueStmt>(S)) {
            a.push_back("continue");
            pos(a);
            return std::move(a);
        }
        if (isa<NullStmt>(S)) {
            a.push_back("nop");
            pos(a);
            return std::move(a);
        }
        // leaf: expression, return, declaration
        a.push_back("s");
        a.push_back(J(S));
        pos(a);
        return std::move(a);
    }

    json::Value function(const FunctionDecl *FD)
    {
        json::Object f;
        f["name"]   = FD->getNameAsString();
        f["file"]   = fileOf(SM, FD->getLocation());
        f["line"]   = line(FD->getBeginLoc());
        f["endline"] = line(FD->getEndLoc());
        f["ret"]    = ty(FD->getReturnType());
        f["static"] = FD->getStorageClass() == SC_Static;
        json::Array ps;
        for (const ParmVarDecl *P : FD->parameters()) {
            json::Array p;
            p.push_back(P->getNameAsString());
            p.push_back(ty(P->getType()));
            ps.push_back(std::move(p));
        }
        f["params"] = std::move(ps);
        curRoot     = nullptr;
        seenElsewhere.clear();
        f["ast"]    = A(FD->getBody());

        CFG::BuildOptions BO;
        BO.PruneTriviallyFalseEdges = true;
        BO.AddEHEdges               = false;
        BO.AddInitializers          = false;
        BO.AddImplicitDtors         = false;
        std::unique_ptr<CFG> cfg    = CFG::buildCFG(FD, FD->getBody(), &Ctx, BO);
        if (!cfg) {
            f["cfg_failed"] = true;
            return std::move(f);
        }
        json::Array blocks;
        f["entry"] = cfg->getEntry().getBlockID();
        f["exit"]  = cfg->getExit().getBlockID();
        // which CFG elements are sub-expressions of other elements?
        std::map<const Stmt *, unsigned> elemBlock;
        for (const CFGBlock *B : *cfg)
            for (const CFGElement &El : *B)
                if (auto CS = El.getAs<CFGStmt>())
                    elemBlock[norm(CS->getStmt())] = B->getBlockID();
        std::set<const Stmt *> dropped;
        seenElsewhere.clear();
        elemBlockOf = elemBlock;
        for (const CFGBlock *B : *cfg)
            for (const CFGElement &El : *B)
                if (auto CS = El.getAs<CFGStmt>()) {
                    const Stmt               *X = norm(CS->getStmt());
                    std::vector<const Stmt *> work;
                    for (const Stmt *c : X->children())
                        if (c)
                            work.push_back(c);
                    while (!work.empty()) {
                        const Stmt *Y = work.back();
                        work.pop_back();
                        const Stmt *N  = norm(Y);
                        auto        it = elemBlock.find(N);
                        if (it != elemBlock.end() && N != X) {
                            if (it->second == B->getBlockID())
                                dropped.insert(N);
                            else
                                seenElsewhere.insert(N);
                        }
                        for (const Stmt *c : Y->children())
                            if (c)
                                work.push_back(c);
                    }
                }
        for (const CFGBlock *B : *cfg) {
            json::Object b;
            b["id"]  = B->getBlockID();
            curBlock = (int)B->getBlockID();
            json::Array stmts;
            const Stmt *last = nullptr;
            for (const CFGElement &El : *B) {
                if (auto CS = El.getAs<CFGStmt>()) {
                    const Stmt *S = CS->getStmt();
                    last          = S;
                    if (dropped.count(norm(S)))
                        continue;
                    stmts.push_back(stmtEntry(S));
                }
            }
            b["s"] = std::move(stmts);
            json::Array succs;
            for (auto I = B->succ_begin(); I != B->succ_end(); ++I) {
                const CFGBlock *Sb = I->getReachableBlock();
                succs.push_back(Sb ? (int64_t)Sb->getBlockID() : (int64_t)-1);
            }
            b["succ"] = std::move(succs);
            if (B->getLabel())
                b["label"] = caseLabel(B->getLabel());
            if (const Stmt *T = B->getTerminatorStmt()) {
                json::Object t;
                t["k"]           = T->getStmtClassName();
                t["l"]           = line(T->getBeginLoc());
                const Stmt *Cnd = B->getTerminatorCondition(false);
                if (const Expr *LC = B->getLastCondition())
                    if (B->succ_size() == 2 && !isa<SwitchStmt>(T))
                        Cnd = LC;
                if (Cnd) {
                    t["cond"] = J(Cnd);
                    const Expr *ce = dyn_cast<Expr>(Cnd);
                    const Expr *le = last ? dyn_cast<Expr>(last) : nullptr;
                    t["cil"]       = (ce && le && ce->IgnoreParens() == le->IgnoreParens());
                }
                if (const BinaryOperator *BOp = dyn_cast<BinaryOperator>(T))
                    t["op"] = BOp->getOpcodeStr().str();
                if (const GotoStmt *G = dyn_cast<GotoStmt>(T))
                    t["goto"] = G->getLabel()->getName();
                if (isa<SwitchStmt>(T)) {
                    json::Array cases;
                    for (auto I = B->succ_begin(); I != B->succ_end(); ++I) {
                        const CFGBlock *Sb = I->getReachableBlock();
                        if (!Sb)
                            Sb = I->getPossiblyUnreachableBlock();
                        if (Sb && Sb->getLabel() && (isa<CaseStmt>(Sb->getLabel()) || isa<DefaultStmt>(Sb->getLabel())))
                            cases.push_back(caseLabel(Sb->getLabel()));
                        else
                            cases.push_back(nullptr);
                    }
                    t["cases"] = std::move(cases);
                }
                b["term"] = std::move(t);
            }
            blocks.push_back(std::move(b));
        }
        curBlock    = -1;
        f["blocks"] = std::move(blocks);
        return std::move(f);
    }
};

class Consumer : public ASTConsumer {
  public:
    Shared &S;
    Consumer(Shared &s) : S(s) {}

    void HandleTranslationUnit(ASTContext &Ctx) override
    {
        Emitter        Em(Ctx);
        SourceManager &SM = Ctx.getSourceManager();
        json::Array    funcs, globals;
        json::Object   decls;
        std::map<std::string, std::set<std::string>> declFiles;

        for (const Decl *D : Ctx.getTranslationUnitDecl()->decls()) {
            if (!inRepo(SM, D->getLocation()))
                continue;
            if (const FunctionDecl *FD = dyn_cast<FunctionDecl>(D)) {
                declFiles[FD->getNameAsString()].insert(fileOf(SM, FD->getLocation()));
                if (FD->doesThisDeclarationHaveABody())
                    funcs.push_back(Em.function(FD));
            }
            else if (const VarDecl *VD = dyn_cast<VarDecl>(D)) {
                json::Object g;
                g["name"]   = VD->getNameAsString();
                g["type"]   = Em.ty(VD->getType());
                g["file"]   = fileOf(SM, VD->getLocation());
                g["line"]   = Em.line(VD->getLocation());
                g["static"] = VD->getStorageClass() == SC_Static;
                g["def"]    = VD->isThisDeclarationADefinition() != VarDecl::DeclarationOnly;
                if (VD->getInit())
                    g["init"] = Em.JE(VD->getInit());
                globals.push_back(std::move(g));
            }
            else if (const RecordDecl *RD = dyn_cast<RecordDecl>(D)) {
                if (RD->isCompleteDefinition())
                    Em.addRecord(RD);
            }
            else if (const TypedefNameDecl *TD = dyn_cast<TypedefNameDecl>(D)) {
                Em.ty(Ctx.getTypedefType(TD));
            }
        }
        for (auto &kv : declFiles) {
            json::Array a;
            for (auto &s : kv.second)
                a.push_back(s);
            decls[kv.first] = std::move(a);
        }
        json::Object root;
        root["tu"]        = SM.getFileEntryForID(SM.getMainFileID())->getName().str();
        root["functions"] = std::move(funcs);
        root["globals"]   = std::move(globals);
        root["records"]   = std::move(Em.records);
        root["types"]     = std::move(Em.types);
        root["decls"]     = std::move(decls);
        root["macros"]    = std::move(S.macros);
        root["defs"]      = std::move(S.defs);
        std::error_code      EC;
        llvm::raw_fd_ostream OS(gOut, EC);
        if (EC) {
            llvm::errs() << "h4x: cannot write " << gOut << "\n";
            exit(3);
        }
        OS << json::Value(std::move(root));
        OS << "\n";
    }
};

class Action : public ASTFrontendAction {
  public:
    Shared S;
    std::unique_ptr<ASTConsumer> CreateASTConsumer(CompilerInstance &CI, StringRef) override
    {
        CI.getPreprocessor().addPPCallbacks(std::make_unique<PPC>(CI.getPreprocessor(), S));
        return std::make_unique<Consumer>(S);
    }
};

} // namespace

int main(int argc, const char **argv)
{
    if (argc < 4) {
        llvm::errs() << "usage: h4x <out.json> <source.c> -- <flags>\n";
        return 2;
    }
    gOut                = argv[1];
    std::string src     = argv[2];
    std::vector<std::string> flags;
    int                      i = 3;
    if (std::string(argv[i]) == "--")
        i++;
    for (; i < argc; i++)
        flags.push_back(argv[i]);
    if (const char *r = getenv("H4X_REPO"))
        gRepo = std::string(r) + "/";
    clang::tooling::FixedCompilationDatabase CDB(".", flags);
    clang::tooling::ClangTool                Tool(CDB, {src});
    int rc = Tool.run(clang::tooling::newFrontendActionFactory<Action>().get());
    return rc;
}
