#!/usr/bin/env python3
"""Regenerate /verif/MANIFEST.json from h4rules/props.py (single source of truth)."""
import json, os, sys
V = os.path.dirname(os.path.dirname(os.path.abspath(__file__)))
sys.path.insert(0, V)
from h4rules import props

ALL = [json.loads(l)["id"] for l in open(os.path.join(V, "properties.jsonl"))]
checks = []
for pid in sorted(props.PROPS):
    s = props.PROPS[pid]
    checks.append({
        "property_id": pid,
        "quick_cmd": "./check %s --tier quick" % pid,
        "thorough_cmd": "./check %s --tier thorough" % pid,
        "evidence_file": "/verif/evidence/%s.json" % pid,
        "replay_cmd_template": "./check --replay {path}",
        "engine": "h4rules",
        "level_claimed": {"category": s["level"], "text": s["level_text"], "design_ref": s.get("design_ref", "DESIGN.md §4 " + pid)},
        "level_note": s["level_note"],
        "technique": s["technique"],
    })
na = [{"property_id": p, "reason": props.NOT_APPLICABLE.get(p, "no check built yet for this property (work in progress; see DESIGN.md)")}
      for p in ALL if p not in props.PROPS]
m = {
    "version": 1,
    "setup_cmd": "./check --setup",
    "hooks": {
        "guard": "HDF4_VERIF",
        "enable": "none needed: the checks are static and execute no hdf4 code; no hook was added to /repo",
        "baseline_off_cmd": "ctest --test-dir /repo/_build -j8 --timeout 900",
        "source_commits": [],
        "add_only": True,
    },
    "engines": [
        {"name": "h4x", "path": "tools/h4x.cc", "serves_properties": sorted(props.PROPS),
         "kind_free_text": "LibTooling (clang 14) fact extractor: per-function CFG with typed expression trees, macro expansions, tables"},
        {"name": "h4rules", "path": "h4rules/", "serves_properties": sorted(props.PROPS),
         "kind_free_text": "python rule engine: call graph, dominators, path-sensitive product-state dataflow, rule families F1..F11"},
    ],
    "checks": checks,
    "not_applicable": na,
    "notes": "Static analysis only. Exit 0 holds/known findings, 1 VIOLATION, 2 analysis broken (unrecognised shape, vanished anchor, instance floor). "
             "Known findings and fixed defects: /verif/known_findings.txt.",
}
json.dump(m, open(os.path.join(V, "MANIFEST.json"), "w"), indent=1)
print("MANIFEST.json: %d checks, %d not_applicable" % (len(checks), len(na)))
