/* TRIAGE ONLY (C15): a DFSD data set whose first dimension has label/unit/format strings but no scale.  DFSD reads the
 * strings back; the SD interface shows the same dimension with empty strings, because hdf_read_ndgs tests its SUCCEED/FAIL
 * flag `new_dim` as a truth value and so creates the coordinate variable (which carries the strings) exactly for the
 * dimensions that have no strings.  Expected: both lines show 'time' 's' 'F5.1'. */
#include <stdio.h>
#include <string.h>
#include "hdf.h"
#include "mfhdf.h"
int main(void)
{
    int32   dims[2] = {3, 4}, dz[2];
    float32 d[12]   = {0};
    char    l[64] = "", u[64] = "", f[64] = "";
    int     rank;
    remove("c15_dimstrs.hdf");
    DFSDclear();
    DFSDsetdims(2, dims);
    DFSDsetdimstrs(1, "time", "s", "F5.1");
    DFSDadddata("c15_dimstrs.hdf", 2, dims, d);
    DFSDrestart();
    DFSDgetdims("c15_dimstrs.hdf", &rank, dz, 2);
    DFSDgetdimstrs(1, l, u, f);
    printf("DFSD dim 1: '%s' '%s' '%s'\n", l, u, f);
    int32 sd = SDstart("c15_dimstrs.hdf", DFACC_READ), sds = SDselect(sd, SDreftoindex(sd, DFSDlastref())), dim = SDgetdimid(sds, 0);
    l[0] = u[0] = f[0] = 0;
    int rc = SDgetdimstrs(dim, l, u, f, 64);
    printf("SD   dim 0: rc %d '%s' '%s' '%s'\n", rc, l, u, f);
    SDend(sd);
    return strcmp(l, "time") != 0;
}
