/* TRIAGE ONLY: LD_PRELOAD shim that makes the FAIL_AT-th fwrite of the process fail (short count 0, EIO) */
#define _GNU_SOURCE
#include <dlfcn.h>
#include <errno.h>
#include <stdio.h>
#include <stdlib.h>
static long n;
size_t
fwrite(const void *p, size_t s, size_t m, FILE *f)
{
    static size_t (*real)(const void *, size_t, size_t, FILE *);
    if (!real)
        real = dlsym(RTLD_NEXT, "fwrite");
    if (f != stdout && f != stderr) {
        const char *k = getenv("FAIL_AT");
        long        me = n++;
        if (k && me == atol(k)) {
            errno = EIO;
            return 0;
        }
        if (getenv("COUNT_ONLY") && 0)
            ;
    }
    return real(p, s, m, f);
}
__attribute__((destructor)) static void
fin(void)
{
    if (getenv("COUNT_ONLY"))
        fprintf(stderr, "FWRITES %ld\n", n);
}
