/* C12 / F3 finding: HTPdelete persists the DD before HTIunregister_tag_ref clears the tag.
 * With DD caching off the deleted element is still on disk after close.
 * expected: 1 element after reopen; defect: 2 */
#include "hdf.h"
#include <stdio.h>
int main(void)
{
    const char *fn = "c12_del.hdf";
    int32 f = Hopen(fn, DFACC_CREATE, 0);
    Hcache(f, FALSE);
    Hputelement(f, 1000, 1, (const uint8 *)"aaaa", 4);
    Hputelement(f, 1000, 2, (const uint8 *)"bbbb", 4);
    if (Hdeldd(f, 1000, 1) == FAIL) { printf("Hdeldd failed\n"); return 2; }
    if (Hclose(f) == FAIL) { printf("Hclose failed\n"); return 2; }
    f = Hopen(fn, DFACC_READ, 0);
    int n = Hnumber(f, 1000);
    int ex = Hexist(f, 1000, 1);
    printf("after reopen: Hnumber(1000)=%d Hexist(1000,1)=%d\n", n, ex);
    Hclose(f);
    return (n == 1 && ex == FAIL) ? 0 : 1;
}
