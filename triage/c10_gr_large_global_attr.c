/* TRIAGE replay (not a check): a new *file-level* GR attribute too large for the attribute cache (>= 2048 bytes) is
 * written by GRsetattr at once (data_modified = FALSE, new_at = TRUE); GRend links new attributes into the GR Vgroup only
 * inside `if (data_modified == TRUE)` in its global-attribute loop, so the attribute is never linked and is gone after
 * reopen.  The per-image loop tests new_at independently.  exit 0 = attribute survives, 1 = lost. */
#include <stdio.h>
#include <string.h>
#include "hdf.h"

int
main(void)
{
    static char big[3000];
    int32       n_img = -1, n_attr = -1;
    memset(big, 'x', sizeof big);
    int32 fid = Hopen("c10_grattr.hdf", DFACC_CREATE, 0);
    int32 gr  = GRstart(fid);
    int32 one = 1;
    if (GRsetattr(gr, "small", DFNT_INT32, 1, &one) == FAIL || GRsetattr(gr, "large", DFNT_CHAR8, 3000, big) == FAIL)
        return 2;
    if (GRend(gr) == FAIL || Hclose(fid) == FAIL)
        return 2;
    fid = Hopen("c10_grattr.hdf", DFACC_READ, 0);
    gr  = GRstart(fid);
    GRfileinfo(gr, &n_img, &n_attr);
    printf("global attributes after reopen: %d (2 were set)  index of 'large': %d\n", (int)n_attr, (int)GRfindattr(gr, "large"));
    GRend(gr);
    Hclose(fid);
    return n_attr == 2 ? 0 : 1;
}
