/* TRIAGE ONLY (C20): VSfdefine counts the user-defined fields of a vdata in the int16 `nusym` and never compares it with a limit.
 * The 32768th distinct definition makes the counter wrap to -32768: the table of definitions is then "empty" for every later
 * lookup (VSsetfields no longer finds any user field) and the next definition reallocates the table to a non-positive size.
 * Expected: the definition that cannot be counted fails and the earlier ones stay usable.  Exit 1 when the wrap is observed. */
#include "hdf.h"
#include <stdio.h>
int main(void)
{
    const char *fn = "c20_vsfdefine_nusym_wrap.hdf";
    char        name[32];
    int32       f = Hopen(fn, DFACC_CREATE, 0), bad = 0, i, r = 0;
    Vstart(f);
    int32 vs = VSattach(f, -1, "w");
    for (i = 0; i < 32767; i++) {
        snprintf(name, sizeof name, "f%d", (int)i);
        if (VSfdefine(vs, name, DFNT_INT32, 1) == FAIL) {
            printf("definition %d failed\n", (int)i);
            break;
        }
    }
    printf("defined %d fields; VSsetfields(f0) = %d\n", (int)i, (int)VSsetfields(vs, "f0"));
    r = VSfdefine(vs, "one_more", DFNT_INT32, 1);
    printf("definition 32768 returns %d\n", (int)r);
    if (r != FAIL) {
        int32 s = VSsetfields(vs, "f1");
        printf("VSsetfields(f1) afterwards = %d\n", (int)s);
        if (s == FAIL)
            bad = 1;
    }
    VSdetach(vs);
    Vend(f);
    Hclose(f);
    remove(fn);
    return bad;
}
