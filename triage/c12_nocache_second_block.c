/* C12/C02 / F11c finding: with DD caching off a new DD block gets only its 6-byte header written, never its NIL list.
 * expected: file reopens and holds 20 elements; defect: Hopen fails after a clean close */
#include "hdf.h"
#include <stdio.h>
int main(void)
{
    const char *fn = "c12_blk.hdf";
    int32 f = Hopen(fn, DFACC_CREATE, 16);
    int i;
    Hcache(f, FALSE);
    for (i = 1; i <= 20; i++)
        if (Hputelement(f, 1000, (uint16)i, (const uint8 *)"abcd", 4) == FAIL) { printf("put %d failed\n", i); return 2; }
    if (Hclose(f) == FAIL) { printf("close failed\n"); return 2; }
    f = Hopen(fn, DFACC_READ, 0);
    if (f == FAIL) { printf("reopen FAILED after a clean close\n"); return 1; }
    i = Hnumber(f, 1000);
    printf("reopen ok, Hnumber=%d\n", i);
    Hclose(f);
    return i == 20 ? 0 : 1;
}
