/* C17 / F11c finding: crash at a write boundary inside the flush of a session that only ADDS objects.
 * Build with -Wl,--wrap=fwrite (triage/run.sh does when WRAP=1): after every library write the file image
 * is copied; afterwards every prefix image must open and still hold the old elements.
 * exit 0 = every prefix image is fine; 1 = some prefix image fails to open / lost old data */
#include "hdf.h"
#include <stdio.h>
#include <stdlib.h>
#include <string.h>
static int nwrites = 0, armed = 0;
static const char *fn = "c17.hdf";
size_t __real_fwrite(const void *p, size_t s, size_t n, FILE *f);
static void snapshot(int k)
{
    char cmd[256];
    snprintf(cmd, sizeof cmd, "cp %s c17_img_%02d.hdf", fn, k);
    if (system(cmd) != 0) exit(3);
}
size_t __wrap_fwrite(const void *p, size_t s, size_t n, FILE *f)
{
    size_t r = __real_fwrite(p, s, n, f);
    if (armed) { fflush(f); snapshot(++nwrites); }
    return r;
}
int main(void)
{
    int i, bad = 0;
    int32 f = Hopen(fn, DFACC_CREATE, 16);
    char buf[8];
    for (i = 1; i <= 15; i++) { /* 15 + version DD = 16: first block full */
        memset(buf, 'a' + i, 8);
        Hputelement(f, 1000, (uint16)i, (uint8 *)buf, 8);
    }
    Hclose(f);
    f = Hopen(fn, DFACC_RDWR, 0);
    armed = 1;
    for (i = 16; i <= 18; i++) { memset(buf, 'A' + i, 8); Hputelement(f, 1000, (uint16)i, (uint8 *)buf, 8); }
    Hclose(f);
    armed = 0;
    printf("%d library writes in the append session\n", nwrites);
    for (int k = 1; k <= nwrites; k++) {
        char nm[64]; snprintf(nm, sizeof nm, "c17_img_%02d.hdf", k);
        int32 g = Hopen(nm, DFACC_READ, 0);
        int ok = 1;
        if (g == FAIL) ok = 0;
        else {
            for (i = 1; i <= 15 && ok; i++) {
                char b2[8]; memset(buf, 'a' + i, 8);
                if (Hgetelement(g, 1000, (uint16)i, (uint8 *)b2) != 8 || memcmp(buf, b2, 8)) ok = 0;
            }
            Hclose(g);
        }
        printf("  image after write %2d: %s\n", k, ok ? "opens, old elements intact" : "DAMAGED (does not open / old data lost)");
        if (!ok) bad++;
    }
    return bad ? 1 : 0;
}
