/* TRIAGE replay (not a check): Vgetvgroups on a vgroup id counts only sub-vgroups that have a class; a child vgroup without a
 * class is skipped although the file-wide enumeration counts it.  exit 0 = both children are reported */
#include <stdio.h>
#include "hdf.h"
int
main(void)
{
    int32 f = Hopen("c08_vgv.hdf", DFACC_CREATE, 0);
    Vstart(f);
    int32 p = Vattach(f, -1, "w"), a = Vattach(f, -1, "w"), b = Vattach(f, -1, "w");
    Vsetname(p, "p");
    Vsetname(a, "a");
    Vsetclass(a, "cls");
    Vsetname(b, "b"); /* no class */
    Vinsert(p, a);
    Vinsert(p, b);
    int32 n_sub = Vgetvgroups(p, 0, 0, NULL), n_all = Vgetvgroups(f, 0, 0, NULL);
    printf("sub-vgroups of p: %d (2 exist); vgroups in file: %d (3 exist)\n", (int)n_sub, (int)n_all);
    Vdetach(a);
    Vdetach(b);
    Vdetach(p);
    Vend(f);
    Hclose(f);
    return (n_sub == 2 && n_all == 3) ? 0 : 1;
}
