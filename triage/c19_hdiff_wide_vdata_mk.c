#include "hdf.h"
#include <stdio.h>
#include <string.h>
int main(int argc,char**argv)
{
    int nf = 100; int32 f=Hopen(argv[1],DFACC_CREATE,0); Vstart(f);
    int32 vs=VSattach(f,-1,"w"); char names[2000]=""; char nm[16]; int32 rec[100];
    for(int i=0;i<nf;i++){ sprintf(nm,"f%d",i); VSfdefine(vs,nm,DFNT_INT32,1); if(i) strcat(names,","); strcat(names,nm); rec[i]=i; }
    printf("setfields=%d ",VSsetfields(vs,names)); VSsetname(vs,"wide"); printf("write=%d\n",VSwrite(vs,(uint8*)rec,1,FULL_INTERLACE));
    VSdetach(vs); Vend(f); Hclose(f); return 0; }
