/* TRIAGE ONLY (C13): a Vdata attached for writing is attached again for reading.  VSattach's own description forbids it ("if
 * "w" => being written, unstable! forbidden"), but the read branch only looks for an earlier *read* attachment: it starts a
 * second access element, overwrites the shared vs->aid (the write element is never ended) and resets nattach to 1.  After both
 * ids are released Hclose still fails with DFE_OPENAID: the library keeps state although every handle was released.
 * Expected: the second attach fails, the first id stays valid, Hclose succeeds.  Exit 1 when the defect is observed. */
#include "hdf.h"
#include <stdio.h>
int main(void)
{
    const char *fn = "c13_vsattach_w_then_r.hdf";
    int32 f = Hopen(fn, DFACC_CREATE, 0), v[4] = {1, 2, 3, 4}, bad = 0;
    Vstart(f);
    int32 vs = VSattach(f, -1, "w");
    VSfdefine(vs, "a", DFNT_INT32, 1);
    VSsetfields(vs, "a");
    VSwrite(vs, (uint8 *)v, 4, FULL_INTERLACE);
    int32 ref = VSQueryref(vs);
    VSdetach(vs);

    int32 w = VSattach(f, ref, "w");
    int32 r = VSattach(f, ref, "r");
    printf("w=%d r=%d\n", (int)w, (int)r);
    if (r != FAIL) {
        bad = 1;
        VSdetach(r);
    }
    if (VSdetach(w) == FAIL) {
        printf("VSdetach(w) failed\n");
        bad = 1;
    }
    Vend(f);
    if (Hclose(f) == FAIL) {
        printf("Hclose failed although every id was released\n");
        HEprint(stdout, 0);
        bad = 1;
    }
    remove(fn);
    return bad;
}
