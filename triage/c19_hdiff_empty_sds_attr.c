/* TRIAGE ONLY (C19): two files, each with one data set that has no data yet and one attribute; the attribute values differ.
 * Before the fix hdiff's diff_sds left through its "empty SDS" exit before it compared the attributes: no output, exit 0.
 * Expected: the attribute difference is reported, exit 1.   ./gen a.hdf b.hdf && hdiff a.hdf b.hdf */
#include "mfhdf.h"
static void mk(const char *fn, int32 v)
{
    int32 sd = SDstart(fn, DFACC_CREATE), dims[1] = {4};
    int32 s  = SDcreate(sd, "empty", DFNT_INT32, 1, dims);
    SDsetattr(s, "att", DFNT_INT32, 1, &v);
    SDendaccess(s);
    SDend(sd);
}
int main(int argc, char **argv)
{
    mk(argv[1], 1);
    mk(argv[2], 2);
    return 0;
}
