/* C13: SDendaccess with a data-set id whose index equals the number of data sets (never issued) must fail without touching memory past the table. valgrind. */
#include "mfhdf.h"
#include <stdio.h>
int main(void)
{
    int32 sd=SDstart("c13i.hdf",DFACC_CREATE); int32 dims[1]={3};
    int32 s0=SDcreate(sd,"a",DFNT_INT32,1,dims), s1=SDcreate(sd,"b",DFNT_INT32,1,dims);
    int32 forged=(s1 & 0xffff0000) | 2;          /* index 2 of 2 data sets */
    intn r=SDendaccess(forged); printf("SDendaccess(index == count) = %d\n",r);
    SDendaccess(s0); SDendaccess(s1); SDend(sd); remove("c13i.hdf"); return r!=FAIL; }
