/* C14 (last clause) / C05: an RLE-compressed SDS read through a DFACC_RDWR handle.
 * HCPcrle_endaccess flushes the coder state whenever the AID has write access, even if only reads happened.
 * write SDS (RLE) ; close ; open RDWR ; read a partial slab ; close ; reopen ; compare everything.
 * exit 0 = content identical ; 1 = content changed by a read-only use of a writable handle */
#include "mfhdf.h"
#include <stdio.h>
#include <stdlib.h>
#include <string.h>
#define N 20000
int main(void)
{
    static int32 a[N], b[N];
    int32 sd, sds, dims[1] = {N}, start[1] = {0}, cnt[1] = {N}, i, bad = 0;
    comp_info ci; memset(&ci, 0, sizeof ci);
    for (i = 0; i < N; i++) a[i] = (i / 7) % 5 ? i : 42;
    sd = SDstart("c14_rle.hdf", DFACC_CREATE); sds = SDcreate(sd, "d", DFNT_INT32, 1, dims);
    if (SDsetcompress(sds, COMP_CODE_RLE, &ci) == FAIL) { printf("setcompress failed\n"); return 2; }
    SDwritedata(sds, start, NULL, cnt, a); SDendaccess(sds); SDend(sd);
    sd = SDstart("c14_rle.hdf", DFACC_RDWR); sds = SDselect(sd, 0);
    start[0] = 100; cnt[0] = 300;
    if (SDreaddata(sds, start, NULL, cnt, b) == FAIL) { printf("partial read failed\n"); return 2; }
    SDendaccess(sds); SDend(sd);
    sd = SDstart("c14_rle.hdf", DFACC_READ); sds = SDselect(sd, 0);
    start[0] = 0; cnt[0] = N; memset(b, 0, sizeof b);
    if (SDreaddata(sds, start, NULL, cnt, b) == FAIL) { printf("full read after reopen FAILED\n"); bad = N; }
    else for (i = 0; i < N; i++) if (a[i] != b[i]) bad++;
    SDendaccess(sds); SDend(sd);
    printf("%d of %d values differ after a partial read through a read/write handle\n", (int)bad, N);
    remove("c14_rle.hdf");
    return bad ? 1 : 0;
}
