/* C20 / F9a: Hwrite computes posn + length in 32 bits. Append 1 GiB twice to an element at end of file (fine, 2 GiB - small),
 * then a third time: must FAIL; defect: posn+length wraps, the DD is not extended / gets a negative length. exit 0 ok / 1 defect */
#include "hdf.h"
#include <stdio.h>
#include <stdlib.h>
int main(void)
{
    int32 f = Hopen("c20_hw.hdf", DFACC_CREATE, 0), a, len = 0, r, i, bad = 0;
    size_t n = 0x3ff00000;
    char *buf = calloc(1, n);
    a = Hstartwrite(f, 1000, 1, 16);
    Hwrite(a, 16, buf);
    Happendable(a);
    for (i = 0; i < 3; i++) {
        r = Hwrite(a, (int32)n, buf);
        Hinquire(a, NULL, NULL, NULL, &len, NULL, NULL, NULL, NULL);
        printf("append %d: Hwrite=%d element length now %d\n", i, (int)r, (int)len);
        if (r != FAIL && len < 0) bad = 1;
        if (r != FAIL && len != 16 + (i + 1) * (int32)n) bad = 1;
    }
    Hendaccess(a); Hclose(f); remove("c20_hw.hdf");
    return bad;
}
