#include "mfhdf.h"
#include <stdio.h>
#include <string.h>
int main(void){
  int32 sd, sds, dim, dims[1]={4}; char l[50]="?",u[50],f[50];
  sd=SDstart("b7.hdf",DFACC_CREATE); sds=SDcreate(sd,"time",DFNT_INT32,1,dims);
  dim=SDgetdimid(sds,0); printf("setdimname=%d\n",SDsetdimname(dim,"time"));
  printf("setdimstrs=%d\n",SDsetdimstrs(dim,"lbl","unit","fmt"));
  printf("getdimstrs=%d label=%s\n",SDgetdimstrs(dim,l,u,f,50),l);
  SDendaccess(sds); SDend(sd);
  return 0;
}
