/* TRIAGE replay (not a check): VSfdefine's redefinition check compares the new type/order with rstab[j] (the table of
 * reserved field names) using the index j of the *user* table: a redefinition is silently ignored (or applied by luck), and
 * with more than 9 user fields the loop reads past rstab.  exit 0 = redefinition takes effect */
#include <stdio.h>
#include "hdf.h"
int
main(void)
{
    int32 fid = Hopen("c07_fdef.hdf", DFACC_CREATE, 0);
    Vstart(fid);
    int32 vs = VSattach(fid, -1, "w");
    intn  r1 = VSfdefine(vs, "f", DFNT_INT32, 1);
    intn  r2 = VSfdefine(vs, "f", DFNT_FLOAT32, 2);
    VSsetfields(vs, "f");
    int32 t = VFfieldtype(vs, 0), o = VFfieldorder(vs, 0);
    printf("VSfdefine twice -> %d %d; field type %d order %d (expected %d, 2)\n", r1, r2, (int)t, (int)o, DFNT_FLOAT32);
    VSdetach(vs);
    Vend(fid);
    Hclose(fid);
    return (t == DFNT_FLOAT32 && o == 2) ? 0 : 1;
}
