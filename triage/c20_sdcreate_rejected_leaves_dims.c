/* TRIAGE ONLY (C20): SDcreate with a 300-character name is refused (names may have H4_MAX_NC_NAME = 256 characters), but before
 * the fix the refusal came after the data set's dimensions had been added to the file: the next data set's dimensions were
 * named fakeDim2/fakeDim3 and SDend wrote two orphan dimensions.  Expected: the refused call leaves nothing behind. */
#include "mfhdf.h"
#include <stdio.h>
#include <string.h>
int main(void)
{
    char  n[301], nm[300];
    int32 d[2] = {3, 4}, sz, nt, na;
    memset(n, 'x', 300);
    n[300]   = 0;
    int32 sd = SDstart("c20_sdcreate.hdf", DFACC_CREATE);
    int32 r  = SDcreate(sd, n, DFNT_INT32, 2, d);
    printf("SDcreate(300-character name) = %d (expected -1)\n", (int)r);
    int32 s = SDcreate(sd, "ok", DFNT_INT32, 2, d);
    SDdiminfo(SDgetdimid(s, 0), nm, &sz, &nt, &na);
    printf("first dimension of the next data set: %s (expected fakeDim0)\n", nm);
    SDendaccess(s);
    SDend(sd);
    return !(r == FAIL && strcmp(nm, "fakeDim0") == 0);
}
