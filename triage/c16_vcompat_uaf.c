/* TRIAGE replay (not a check): vimakecompat frees its conversion buffer at the end of every loop iteration without
 * resetting the pointer; with two old-style Vgroup descriptors of the same size the second iteration reads into and
 * frees the already freed buffer (and a read failure in that iteration frees it a third time).
 * run: SAN="-fsanitize=address" triage/run.sh triage/c16_vcompat_uaf.c   (or under valgrind) */
#include <stdio.h>
#include <string.h>
#include "hdf.h"



int
main(void)
{
    uint8 desc[64];
    uint8 *p = desc;
    memset(desc, 0, sizeof desc);
    *p++ = 0; /* nvelt = 0 (big-endian int16) */
    *p++ = 0;
    strcpy((char *)p, "oldgroup");
    int32 fid = Hopen("c16_vcompat.hdf", DFACC_CREATE, 0);
    Hputelement(fid, OLD_VGDESCTAG, 1, desc, 40);
    Hputelement(fid, OLD_VGDESCTAG, 2, desc, 40);
    Hclose(fid);
    int32 r = vmakecompat("c16_vcompat.hdf");
    printf("vmakecompat -> %d\n", (int)r);
    return 0;
}
