/* TRIAGE ONLY (C09): an 8x10 uint8 image is created with a fill value attribute (7) and the file is closed before any pixel is
 * written.  In a later session a part of the image is written.  The image still has no data, so the write has to lay down fill
 * values around the region — but only images created in the *same* session carry the `fill_img` flag: (a) a write that does not
 * start at pixel 0 fails with "seek past end of element", (b) a write of the first rows leaves the rest of the image zero instead
 * of 7.  Expected: both writes succeed and never-written pixels read as 7.  Exit 1 otherwise. */
#include "hdf.h"
#include <stdio.h>
#include <string.h>
static int run(const char *fn, int32 *st, int32 *cnt, const char *what)
{
    int32 dims[2] = {8, 10}, z[2] = {0, 0};
    uint8 fv = 7, px[80], got[80];
    int32 f = Hopen(fn, DFACC_CREATE, 0), gr = GRstart(f);
    int32 ri = GRcreate(gr, "img", 1, DFNT_UINT8, MFGR_INTERLACE_PIXEL, dims);
    GRsetattr(ri, FILL_ATTR, DFNT_UINT8, 1, &fv);
    GRendaccess(ri);
    GRend(gr);
    Hclose(f);
    f  = Hopen(fn, DFACC_RDWR, 0);
    gr = GRstart(f);
    ri = GRselect(gr, 0);
    memset(px, 1, sizeof px);
    int w = GRwriteimage(ri, st, NULL, cnt, px);
    memset(got, 0xEE, sizeof got);
    int r   = GRreadimage(ri, z, NULL, dims, got);
    int bad = (w == FAIL || r == FAIL);
    for (int y = 0; y < 10 && !bad; y++)
        for (int x = 0; x < 8; x++) {
            int   in  = x >= st[0] && x < st[0] + cnt[0] && y >= st[1] && y < st[1] + cnt[1];
            uint8 exp = in ? 1 : 7;
            if (got[y * 8 + x] != exp) {
                printf("%s: pixel (%d,%d) = %d, expected %d\n", what, x, y, got[y * 8 + x], exp);
                bad = 1;
                break;
            }
        }
    printf("%s: write = %d, read = %d -> %s\n", what, w, r, bad ? "WRONG" : "ok");
    GRendaccess(ri);
    GRend(gr);
    Hclose(f);
    remove(fn);
    return bad;
}
int main(void)
{
    int32 s1[2] = {2, 3}, c1[2] = {3, 2}, s2[2] = {0, 0}, c2[2] = {8, 2};
    int   a = run("c09_fill_a.hdf", s1, c1, "(a) region in the middle");
    int   b = run("c09_fill_b.hdf", s2, c2, "(b) first two rows");
    return a || b;
}
