/* TRIAGE replay (not a check): HCPseek turns a relative offset into an absolute one and then hands the *original* origin on;
 * the 'none' coder passes both to Hseek, so the offset is applied twice.  exit 0 = DF_CURRENT seek lands where it should */
#include <stdio.h>
#include <string.h>
#include "hdf.h"
int
main(void)
{
    uint8      w[64], r[8];
    comp_info  ci;
    model_info mi;
    memset(&ci, 0, sizeof ci);
    for (int i = 0; i < 64; i++)
        w[i] = (uint8)i;
    int32 fid = Hopen("c05_none.hdf", DFACC_CREATE, 0);
    int32 aid = HCcreate(fid, 1000, 1, COMP_MODEL_STDIO, &mi, COMP_CODE_NONE, &ci);
    Hwrite(aid, 64, w);
    Hendaccess(aid);
    aid = Hstartread(fid, 1000, 1);
    Hread(aid, 10, r);
    Hseek(aid, 5, DF_CURRENT); /* now at 15 */
    int32 n = Hread(aid, 1, r);
    printf("after read 10 + seek(+5, DF_CURRENT): read byte %d (expected 15), n=%d\n", r[0], (int)n);
    Hendaccess(aid);
    Hclose(fid);
    return r[0] == 15 ? 0 : 1;
}
