/* TRIAGE ONLY (C01/C20): Htrunc(aid, -1) on a 20-byte element.  Before the fix the call was accepted (it returns its argument,
 * -1, which is also the failure value) and the descriptor's length became -1: Hlength then fails and the element is lost.
 * Expected: the call is refused and the element keeps its 20 bytes. */
#include "hdf.h"
#include <stdio.h>
int main(void)
{
    uint8 b[20] = {0};
    int32 fid = Hopen("c01_trunc.hdf", DFACC_CREATE, 0);
    Hputelement(fid, 1000, 1, b, 20);
    int32 aid = Hstartaccess(fid, 1000, 1, DFACC_RDWR);
    int32 rc  = Htrunc(aid, -1);
    int32 len = -99;
    Hinquire(aid, NULL, NULL, NULL, &len, NULL, NULL, NULL, NULL);
    printf("Htrunc(-1) = %d, element length afterwards %d (expected 20)\n", (int)rc, (int)len);
    Hendaccess(aid);
    Hclose(fid);
    return len != 20;
}
