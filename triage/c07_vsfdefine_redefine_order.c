/* TRIAGE ONLY (C07): a user-defined field is defined twice with the same name, the second time with another order.  VSfdefine
 * replaces an existing definition only when type AND order both differ; otherwise it appends a second entry of the same name, and
 * every lookup finds the first one: the redefinition is silently ignored (VSfdefine returned SUCCEED), VFfieldorder reports 1 and
 * the record size is 4 where the caller defined 3 x 4 bytes, so VSwrite takes a third of each record from the caller's buffer.
 * Expected: the last definition is the one in force (or the call fails).  Exit 1 when the first definition silently wins. */
#include "hdf.h"
#include <stdio.h>
int main(void)
{
    const char *fn = "c07_vsfdefine_redefine_order.hdf";
    int32 f = Hopen(fn, DFACC_CREATE, 0), bad = 0;
    Vstart(f);
    int32 vs = VSattach(f, -1, "w");
    int   a  = VSfdefine(vs, "A", DFNT_INT32, 1);
    int   b  = VSfdefine(vs, "A", DFNT_INT32, 3);
    int   c  = VSsetfields(vs, "A");
    printf("define#1=%d define#2=%d setfields=%d order=%d sizeof=%d\n", a, b, c, (int)VFfieldorder(vs, 0), (int)VSsizeof(vs, "A"));
    if (b == SUCCEED && (VFfieldorder(vs, 0) != 3 || VSsizeof(vs, "A") != 12))
        bad = 1;
    VSdetach(vs);
    Vend(f);
    Hclose(f);
    remove(fn);
    return bad;
}
