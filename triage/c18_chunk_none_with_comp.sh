#!/bin/sh
# TRIAGE ONLY (C18): `hrepack -c '*:NONE' -t 'a:GZIP 1'` (unchunk everything, compress one data set).  Before the fix options_get_info
# assigned HDF_NONE to its out-parameter *pointer* (`chunk_flags = HDF_NONE;`, its three sibling branches write `*chunk_flags`)
# and dereferenced the NULL pointer a few lines later: hrepack died with SIGSEGV (exit 139).  Expected: exit 0 and an output file.
B=${B:-/repo/_build}
T=$(mktemp -d); trap 'rm -rf $T' EXIT
cc -g -w -I/repo/hdf/src -I/repo/mfhdf/src -I$B -I$B/hdf/src /verif/triage/agent_obs/C18/gen_an_vg.c -o $T/gen $B/bin/libmfhdf.a $B/bin/libhdf.a -ljpeg -lz -lm
cd $T && ./gen in.hdf && $B/bin/hrepack -i in.hdf -o out.hdf -c '*:NONE' -t 'a:GZIP 1' >/dev/null 2>&1; echo "hrepack exit $?"; ls -l out.hdf 2>&1 | cut -c1-60
