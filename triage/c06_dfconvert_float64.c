/* C06: DFconvert(.., DFNT_FLOAT64, .., size = 16) converts two doubles and stays inside 16-byte buffers. valgrind. */
#include "hdf.h"
#include <stdio.h>
#include <stdlib.h>
#include <string.h>
int main(void)
{
    double v[2]={1.5,-2.25}; uint8 *src=malloc(16), *dst=malloc(16), *back=malloc(16);
    memcpy(src,v,16);
    int r1=DFconvert(src,dst,DFNT_FLOAT64,DFNTF_PC,DFNTF_IEEE,16);
    int r2=DFconvert(dst,back,DFNT_FLOAT64,DFNTF_IEEE,DFNTF_PC,16);
    double w[2]; memcpy(w,back,16);
    printf("out=%d in=%d values %g %g  file bytes %02x %02x\n",r1,r2,w[0],w[1],dst[0],dst[1]);
    int ok = r1==0 && r2==0 && w[0]==1.5 && w[1]==-2.25 && dst[0]==0x3f && dst[1]==0xf8;
    free(src); free(dst); free(back); return !ok; }
