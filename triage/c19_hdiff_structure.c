/* TRIAGE ONLY (C19): cases in which hdiff prints a difference but (before the fixes) still exits 0.
 *   1. a Vdata with 5 records against the same Vdata with 6 records   ("Different attributes")
 *   2. an SDS with one attribute against the same SDS with two          ("Different number of attributes")
 *   3. an SDS attribute of 2 values against the same attribute with 3   ("Different information for attribute")
 * build against the library, run in an empty directory with the directory of the tools as argv[1]; expected: exit 1 three times */
#include <stdio.h>
#include <stdlib.h>
#include <sys/wait.h>
#include "hdf.h"
#include "mfhdf.h"
static int sh(const char *bin, const char *a, const char *b)
{
    char c[1024];
    snprintf(c, sizeof c, "%s/hdiff %s %s", bin, a, b);
    int st = system(c);
    return WIFEXITED(st) ? WEXITSTATUS(st) : -99;
}
static void vd(const char *f, int n)
{
    int32 fid = Hopen(f, DFACC_CREATE, 0);
    int32 v[10] = {1, 2, 3, 4, 5, 6, 7, 8, 9, 10};
    Vstart(fid);
    VHstoredata(fid, "fld", (uint8 *)v, n, DFNT_INT32, "vd", "cls");
    Vend(fid);
    Hclose(fid);
}
static void sds(const char *f, int nattr, int nval)
{
    int32 sd = SDstart(f, DFACC_CREATE), dims[1] = {4}, st[1] = {0}, v[4] = {1, 2, 3, 4}, a[3] = {7, 8, 9};
    int32 s = SDcreate(sd, "a", DFNT_INT32, 1, dims);
    SDwritedata(s, st, NULL, dims, v);
    SDsetattr(s, "first", DFNT_INT32, nval, a);
    if (nattr > 1)
        SDsetattr(s, "second", DFNT_INT32, 1, a);
    SDendaccess(s);
    SDend(sd);
}
int main(int argc, char **argv)
{
    const char *bin = argc > 1 ? argv[1] : "/repo/_build/bin";
    vd("v5.hdf", 5);
    vd("v6.hdf", 6);
    printf("== 1: hdiff exit %d (want 1)\n", sh(bin, "v5.hdf", "v6.hdf"));
    sds("a1.hdf", 1, 2);
    sds("a2.hdf", 2, 2);
    printf("== 2: hdiff exit %d (want 1)\n", sh(bin, "a1.hdf", "a2.hdf"));
    sds("a3.hdf", 1, 3);
    printf("== 3: hdiff exit %d (want 1)\n", sh(bin, "a1.hdf", "a3.hdf"));
    return 0;
}
