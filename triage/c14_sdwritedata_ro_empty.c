/* TRIAGE ONLY (C14): a data set that has no data yet, in a file opened with SDstart(.., DFACC_READ).  Before the fix
 * SDwritedata returned SUCCEED (nothing was written: the 'no data element, read-only file' branch of hdf_xdr_NCvdata, meant to
 * hand fill values to a reader, was taken for writes too).  Expected: SDwritedata returns FAIL. */
#include "mfhdf.h"
#include <stdio.h>
int main(void)
{
    int32 dims[1] = {4}, st[1] = {0}, v[4] = {1, 2, 3, 4};
    int32 sd = SDstart("c14_ro_empty.hdf", DFACC_CREATE), s = SDcreate(sd, "d", DFNT_INT32, 1, dims);
    SDendaccess(s);
    SDend(sd);
    sd     = SDstart("c14_ro_empty.hdf", DFACC_READ);
    s      = SDselect(sd, 0);
    int rc = SDwritedata(s, st, NULL, dims, v);
    printf("SDwritedata on a read-only file = %d (expected -1)\n", rc);
    SDendaccess(s);
    SDend(sd);
    return rc != FAIL;
}
