/* TRIAGE replay (not a check): writing across the 2^31-1 boundary of an external element.  Expected: refused (FAIL) or handled
 * without the position/length wrapping negative. exit 0 = clean refusal or consistent state, 1 = wrap observed */
#include <stdio.h>
#include <string.h>
#include <unistd.h>
#include "hdf.h"
int
main(void)
{
    char  buf[64];
    int32 fid = Hopen("c20_hx.hdf", DFACC_CREATE, 0);
    memset(buf, 'x', sizeof buf);
    unlink("c20_hx.dat");
    int32 aid = HXcreate(fid, 1000, 1, "c20_hx.dat", 0, 0);
    int   bad = 0;
    int32 r   = Hseek(aid, 0x7fffffff - 8, DF_START);
    printf("Hseek(2^31-9) -> %d\n", (int)r);
    r = Hwrite(aid, 32, buf);
    printf("Hwrite(32 bytes across 2^31) -> %d\n", (int)r);
    int32 len = -1, off = -1, posn = -1;
    Hinquire(aid, NULL, NULL, NULL, &off, &len, &posn, NULL, NULL);
    printf("after: length=%d posn=%d\n", (int)len, (int)posn);
    if (r != FAIL && (posn < 0 || len < 0))
        bad = 1;
    Hendaccess(aid);
    Hclose(fid);
    unlink("c20_hx.dat");
    return bad;
}
