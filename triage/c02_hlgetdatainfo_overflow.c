/* C02 / F2 finding: HLgetdatainfo's inner loop over one block table ignores info_count.
 * A Vdata stored in 7 linked blocks, VSgetdatainfo(vs, 0, 1, off, len) must fill 1 entry; defect: fills 7.
 * exit 0 = only off[0]/len[0] written and 1 returned; 1 = canaries overwritten */
#include "hdf.h"
#include <stdio.h>
#include <string.h>
int main(void)
{
    const char *fn = "c02.hdf";
    int32 f = Hopen(fn, DFACC_CREATE, 0), vs, i;
    int32 rec[64];
    int32 off[8], len[8];
    Vstart(f);
    vs = VSattach(f, -1, "w");
    VSfdefine(vs, "a", DFNT_INT32, 1);
    VSsetfields(vs, "a");
    VSsetblocksize(vs, 64);
    VSsetnumblocks(vs, 16);
    for (i = 0; i < 64; i++) rec[i] = i;
    VSwrite(vs, (uint8 *)rec, 16, FULL_INTERLACE);
    /* make it not the last element so that appends create linked blocks */
    Hputelement(f, 2000, 1, (const uint8 *)"x", 1);
    for (i = 0; i < 6; i++) { VSseek(vs, 16 * (i + 1) - 0 > 0 ? VSelts(vs) - 1 : 0); VSseek(vs, VSelts(vs)-1); VSread(vs,(uint8*)rec,1,FULL_INTERLACE); VSwrite(vs, (uint8 *)rec, 16, FULL_INTERLACE); }
    VSdetach(vs);
    vs = VSattach(f, VSfind(f, "") ? VSgetid(f, -1) : VSgetid(f, -1), "r");
    int total = VSgetdatainfo(vs, 0, 0, NULL, NULL);
    for (i = 0; i < 8; i++) off[i] = len[i] = -777;
    int got = VSgetdatainfo(vs, 0, 1, off, len);
    int over = 0;
    for (i = 1; i < 8; i++) if (off[i] != -777 || len[i] != -777) over++;
    printf("blocks in element=%d; asked for 1: returned %d, entries written beyond capacity=%d\n", total, got, over);
    VSdetach(vs); Vend(f); Hclose(f);
    if (total < 2) { printf("scenario did not produce linked blocks\n"); return 2; }
    return (over == 0 && got == 1) ? 0 : 1;
}
