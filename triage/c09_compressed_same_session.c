/* C09: new deflate-compressed GR image: (a) write whole, read back in the same session; (b) two partial writes, then read */
#include "hdf.h"
#include <stdio.h>
#include <string.h>
int main(void)
{
    int bad=0; int32 dims[2]={8,6}; uint8 px[48], rd[48]; for(int i=0;i<48;i++) px[i]=(uint8)(i+1);
    comp_info ci; ci.deflate.level=6;
    int32 f=Hopen("c09p.hdf",DFACC_CREATE,0), gr=GRstart(f);
    int32 ri=GRcreate(gr,"a",1,DFNT_UINT8,MFGR_INTERLACE_PIXEL,dims);
    printf("setcompress=%d\n",GRsetcompress(ri,COMP_CODE_DEFLATE,&ci));
    int32 st[2]={0,0};
    printf("write=%d\n",GRwriteimage(ri,st,NULL,dims,px));
    memset(rd,0xEE,sizeof rd); printf("read(same session)=%d ",GRreadimage(ri,st,NULL,dims,rd)); printf("same=%d\n",memcmp(px,rd,48)==0); if(memcmp(px,rd,48)) bad|=1;
    GRendaccess(ri);
    /* (b) */
    ri=GRcreate(gr,"b",1,DFNT_UINT8,MFGR_INTERLACE_PIXEL,dims); GRsetcompress(ri,COMP_CODE_DEFLATE,&ci);
    int32 s1[2]={0,0}, e1[2]={8,3}, s2[2]={0,3}, e2[2]={8,3};
    printf("w1=%d ",GRwriteimage(ri,s1,NULL,e1,px)); printf("w2=%d\n",GRwriteimage(ri,s2,NULL,e2,px+24));
    GRendaccess(ri); GRend(gr); Hclose(f);
    f=Hopen("c09p.hdf",DFACC_READ,0); gr=GRstart(f);
    for(int k=0;k<2;k++){ ri=GRselect(gr,k); memset(rd,0xEE,sizeof rd); int32 r=GRreadimage(ri,st,NULL,dims,rd); printf("image %d after reopen: read=%d same=%d first bytes %d %d .. %d\n",k,(int)r,memcmp(px,rd,48)==0,rd[0],rd[1],rd[47]); if(memcmp(px,rd,48)) bad|=(2<<k); GRendaccess(ri);} 
    GRend(gr); Hclose(f); remove("c09p.hdf"); printf("bad=%d\n",bad); return bad; }
