/* C02: SDgetanndatainfo with fewer slots than annotations must fill only `size` slots and must not overrun anything.
   Run under valgrind: the unrepaired code writes all 12 ids into a 1-id heap block. */
#include "mfhdf.h"
#include <stdio.h>
int main(void)
{
    int32 dims[1]={4}; int32 sd=SDstart("c02a.hdf",DFACC_CREATE); int32 s=SDcreate(sd,"v",DFNT_INT32,1,dims);
    int32 st[1]={0}, d[4]={1,2,3,4}; SDwritedata(s,st,NULL,dims,d); int32 ref=SDidtoref(s); SDendaccess(s); SDend(sd);
    int32 f=Hopen("c02a.hdf",DFACC_RDWR,0); int32 an=ANstart(f);
    for(int i=0;i<12;i++){ int32 a=ANcreate(an,DFTAG_NDG,(uint16)ref,AN_DATA_LABEL); ANwriteann(a,"label",5); ANendaccess(a);} ANend(an); Hclose(f);
    sd=SDstart("c02a.hdf",DFACC_READ); s=SDselect(sd,0);
    int32 off[1]={-1}, len[1]={-1};
    intn n=SDgetanndatainfo(s,AN_DATA_LABEL,1,off,len);
    printf("SDgetanndatainfo(size=1) = %d off=%d len=%d\n",n,(int)off[0],(int)len[0]);
    SDendaccess(s); SDend(sd); remove("c02a.hdf"); return !(n==1 && len[0]==5); }
