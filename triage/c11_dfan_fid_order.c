/* C11: listing the file labels with DFANgetfidlen/DFANgetfid returns each label exactly once, whatever order they sit in the file */
#include "hdf.h"
#include <stdio.h>
#include <string.h>
int main(void)
{
    int32 fid=Hopen("c11o.hdf",DFACC_CREATE,0), an=ANstart(fid);
    int32 a=ANcreatef(an,AN_FILE_LABEL), b=ANcreatef(an,AN_FILE_LABEL);   /* refs 1, 2 */
    ANwriteann(b,"label B",7); ANwriteann(a,"label A",7);                 /* stored in reverse order */
    ANendaccess(a); ANendaccess(b); ANend(an); Hclose(fid);
    fid=Hopen("c11o.hdf",DFACC_READ,0);
    int first=1, n=0; char buf[64];
    while (DFANgetfidlen(fid,first)!=FAIL && n<8) { DFANgetfid(fid,buf,64,first); printf("%s (ref %d)\n",buf,(int)DFANlastref()); first=0; n++; }
    printf("labels listed: %d (2 exist)\n",n);
    Hclose(fid); remove("c11o.hdf"); return n!=2; }
