/* TRIAGE ONLY (C01): a linked-block element of 16 bytes (block size 8, 2 blocks per table); the position is moved past the end
 * with Hseek (allowed: the element is extendable) and a read is attempted there.  HLPread clamps the request to
 * `info->length - posn`, which is negative, walks the block tables with the position and dereferences the NULL `next` of the
 * last table: SIGSEGV.  A contiguous element returns FAIL for the same history.  Expected: FAIL (or 0 bytes), no crash. */
#include "hdf.h"
#include <stdio.h>
int main(void)
{
    const char *fn = "c01_hlpread_past_end.hdf";
    uint8       pat[16], buf[16];
    for (int i = 0; i < 16; i++)
        pat[i] = (uint8)(i + 1);
    int32 f   = Hopen(fn, DFACC_CREATE, 0);
    int32 aid = HLcreate(f, 1000, 1, 8, 2);
    Hwrite(aid, 16, pat);
    int32 s = Hseek(aid, 30, DF_START);
    printf("Hseek(30) = %d\n", (int)s);
    fflush(stdout);
    int32 r = Hread(aid, 4, buf);
    printf("Hread(4) past the end = %d\n", (int)r);
    Hendaccess(aid);
    Hclose(f);
    remove(fn);
    return r > 0;
}
