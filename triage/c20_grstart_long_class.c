/* TRIAGE ONLY (C20/C08): a file whose top-level Vgroup "RIG0.0" has a member Vgroup with a 300-character class name (legal since
 * Vgroup names and classes are no longer limited to 64 characters).  GRstart reads the classes of the members of that group into
 * `char textbuf[VGNAMELENMAX + 1]` with Vgetclass, an unbounded copy: stack overflow.  Expected: GRstart succeeds and simply does
 * not take the member for an image.  Prints and returns 0 when it survives. */
#include "hdf.h"
#include <stdio.h>
#include <string.h>
int main(void)
{
    const char *fn = "c20_grstart_long_class.hdf";
    char        cls[301];
    memset(cls, 'Z', 300);
    cls[300]  = 0;
    int32 fid = Hopen(fn, DFACC_CREATE, 0);
    Vstart(fid);
    int32 sub = Vattach(fid, -1, "w");
    Vsetname(sub, "img");
    Vsetclass(sub, cls);
    int32 vg = Vattach(fid, -1, "w");
    Vsetname(vg, "RIG0.0");
    Vinsert(vg, sub);
    Vdetach(sub);
    Vdetach(vg);
    Vend(fid);
    Hclose(fid);
    fid      = Hopen(fn, DFACC_RDONLY, 0);
    int32 gr = GRstart(fid);
    int32 n = -1, na = -1;
    GRfileinfo(gr, &n, &na);
    printf("GRstart = %d, images = %d\n", (int)gr, (int)n);
    GRend(gr);
    Hclose(fid);
    remove(fn);
    return gr == FAIL || n != 0;
}
