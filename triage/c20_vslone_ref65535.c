/* TRIAGE replay (not a check): VSlone/Vlone index a calloc(MAX_REF) byte table by reference number; reference MAX_REF
 * (65535) is a legal reference, so a Vdata / Vgroup with that ref writes one byte past the table (ASan), and is never
 * reported as lone because the scan stops at MAX_REF - 1. */
#include <stdio.h>
#include <string.h>
#include "hdf.h"
int
main(void)
{
    int32 fid = Hopen("c20_lone.hdf", DFACC_CREATE, 0);
    Vstart(fid);
    int32 vs = VSattach(fid, -1, "w");
    int32 d  = 5;
    VSfdefine(vs, "A", DFNT_INT32, 1);
    VSsetfields(vs, "A");
    VSsetname(vs, "tab");
    VSwrite(vs, (uint8 *)&d, 1, FULL_INTERLACE);
    int32 ref = VSQueryref(vs);
    VSdetach(vs);
    Vend(fid);
    /* give the same Vdata a second identity with the highest legal reference number */
    uint8 buf[4096];
    int32 n = Hgetelement(fid, DFTAG_VH, (uint16)ref, buf);
    Hputelement(fid, DFTAG_VH, 65535, buf, n);
    n = Hgetelement(fid, DFTAG_VS, (uint16)ref, buf);
    Hputelement(fid, DFTAG_VS, 65535, buf, n);
    Hclose(fid);
    fid = Hopen("c20_lone.hdf", DFACC_READ, 0);
    Vstart(fid);
    int32 ids[10];
    int32 nl = VSlone(fid, ids, 10);
    printf("VSlone -> %d lone vdatas:", (int)nl);
    for (int i = 0; i < nl && i < 10; i++)
        printf(" %d", (int)ids[i]);
    printf("\n");
    Vend(fid);
    Hclose(fid);
    return nl == 2 ? 0 : 1;
}
