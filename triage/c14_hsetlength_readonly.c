/* TRIAGE ONLY (C14): an element that was created but never written has no offset/length yet ("new" element).  Hsetlength only
 * looks at that flag: on an access record started with Hstartread on a file opened DFACC_READ (descriptor caching on) it
 * returns SUCCEED, Hlength then reports the new length, and Hclose fails with DFE_CANTFLUSH because it cannot write the changed
 * descriptor.  Expected: Hsetlength is refused on a read access.  Exit 1 when it is accepted. */
#include "hdf.h"
#include <stdio.h>
int main(void)
{
    const char *fn = "c14_hsetlength_readonly.hdf";
    int32 f = Hopen(fn, DFACC_CREATE, 0);
    int32 aid = Hstartaccess(f, 1001, 1, DFACC_WRITE);
    Hendaccess(aid);
    Hclose(f);
    f = Hopen(fn, DFACC_READ, 0);
    Hcache(f, TRUE);
    aid   = Hstartread(f, 1001, 1);
    int r = Hsetlength(aid, 10);
    Hendaccess(aid);
    int32 l = Hlength(f, 1001, 1);
    int   c = Hclose(f);
    printf("Hsetlength on a read access = %d, Hlength afterwards = %d, Hclose = %d\n", r, (int)l, c);
    remove(fn);
    return r != FAIL;
}
