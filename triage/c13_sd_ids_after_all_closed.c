/* TRIAGE ONLY (C13): three SD files are opened and closed in the order b, c, a.  When the last one is closed the file table is
 * freed, but before the fix the count of table positions in use (_ncdf) kept the value 2 it had after c was closed (it is
 * lowered only when the top position closes): any SD call with the stale id of b then read _cdfs[1] through the NULL table
 * pointer and crashed.  Expected: SDselect(stale id) returns FAIL. */
#include "mfhdf.h"
#include <stdio.h>
int main(void)
{
    int32 a = SDstart("c13_a.hdf", DFACC_CREATE), b = SDstart("c13_b.hdf", DFACC_CREATE), c = SDstart("c13_c.hdf", DFACC_CREATE);
    SDend(b);
    SDend(c);
    SDend(a);
    int32 r = SDselect(b, 0);
    printf("SDselect(stale id of b) = %d (expected -1)\n", (int)r);
    return r != FAIL;
}
