/* C01: a read positioned exactly at the end of a linked-block element must return 0 bytes and leave the buffer alone */
#include "hdf.h"
#include <stdio.h>
#include <string.h>
int main(void)
{
    uint8 w[40], r[64]; int bad=0;
    for(int i=0;i<40;i++) w[i]=(uint8)(i+1);
    int32 f=Hopen("c01e.hdf",DFACC_CREATE,0);
    int32 a=HLcreate(f,1000,1,16,4); Hwrite(a,40,w); Hendaccess(a); Hclose(f);
    f=Hopen("c01e.hdf",DFACC_READ,0); a=Hstartread(f,1000,1);
    Hseek(a,40,DF_START); memset(r,0xEE,sizeof r);
    int32 n=Hread(a,5,r);
    int32 pos; Hinquire(a,NULL,NULL,NULL,NULL,NULL,&pos,NULL,NULL);
    int touched=0; for(int i=0;i<64;i++) if(r[i]!=0xEE) touched++;
    printf("Hread(5) at end of linked element = %d, buffer bytes touched = %d, posn = %d\n",(int)n,touched,(int)pos);
    if(n!=0||touched||pos!=40) bad=1;
    Hseek(a,40,DF_START); n=Hread(a,0,r); printf("Hread(0) at end = %d\n",(int)n); if(n!=0) bad=1;
    Hendaccess(a); Hclose(f); remove("c01e.hdf"); return bad; }
