/* TRIAGE replay (not a check): HLPread adds a stale `nbytes` (set by the previous block's Hread, or 0) instead of the number of
 * zero bytes it delivered when a block of a linked-block element was never written: the byte count returned and the position
 * are wrong although the buffer is filled correctly.  exit 0 = count and position right */
#include <stdio.h>
#include <string.h>
#include "hdf.h"
int
main(void)
{
    uint8 w[8], buf[64];
    memset(w, 'w', sizeof w);
    int32 fid = Hopen("c01_hole.hdf", DFACC_CREATE, 0);
    int32 aid = HLcreate(fid, 1000, 1, 8, 2);
    Hseek(aid, 20, DF_START);
    Hwrite(aid, 8, w);
    Hseek(aid, 0, DF_START);
    memset(buf, 0xEE, sizeof buf);
    int32 n = Hread(aid, 28, buf), pos = Htell(aid);
    printf("Hread(28) -> %d, Htell -> %d (both should be 28)\n", (int)n, (int)pos);
    Hendaccess(aid);
    Hclose(fid);
    return (n == 28 && pos == 28) ? 0 : 1;
}
