#!/bin/sh
# usage: triage/run_c16.sh [workload] [build-dir] — fault-injection sweep (TRIAGE ONLY, not a check)
set -e
B=${2:-/repo/_build}
T=$(mktemp -d)
trap 'rm -rf "$T"' EXIT
WR="-Wl,--wrap=fwrite,--wrap=fread,--wrap=fseek,--wrap=fflush,--wrap=fclose,--wrap=fopen"
cc -no-pie -g $WR -I/repo/hdf/src -I/repo/mfhdf/src -I$B -I$B/hdf/src /verif/triage/c16_sweep.c -o $T/a.out $B/bin/libmfhdf.a $B/bin/libhdf.a -ljpeg -lz -lm 2>&1 | grep -E "error" | head -5 || true
cd $T && ./a.out $1 > out.txt || true
# symbolise backtraces: keep library frames only
python3 - "$T" <<'PY'
import sys,subprocess,re,collections
T=sys.argv[1]
lines=open(T+'/out.txt').read().splitlines()
addrs=set()
for l in lines:
    if l.startswith(('SILENT','CRASH','LIST')) and 'bt=' in l:
        addrs.update(re.findall(r'0x[0-9a-f]+', l.split('bt=')[1]))
sym={}
if addrs:
    al=sorted(addrs)
    out=subprocess.run(['addr2line','-f','-e',T+'/a.out']+al,capture_output=True,text=True).stdout.splitlines()
    for i,a in enumerate(al):
        sym[a]=out[2*i]
groups=collections.OrderedDict()
SKIP=('hit','??','main','child','run','_start','__libc_start_main')
for l in lines:
    if l.startswith(('SILENT','CRASH','LIST')):
        head,bt=l.split('bt=')
        op=bt.split()[0] if bt.split() else '?'
        fr=[sym[a] for a in re.findall(r'0x[0-9a-f]+',bt)]
        fr=[f for f in fr if f not in SKIP and not f.startswith(('__wrap_','w_','__libc'))]
        m=re.match(r'(\S+) (\S+) k=(\d+) sticky=(\d) sig=(\d+)',head)
        kind=m.group(1) if m.group(1) in ('SILENT','LIST') else 'CRASH(sig%s)'%m.group(5)
        key=(kind,m.group(2),op,' < '.join(fr[:14]))
        groups.setdefault(key,[]).append((int(m.group(3)),int(m.group(4))))
    elif l.startswith(('WORKLOAD','BASE')):
        print(l)
for (kind,w,op,bt),ks in groups.items():
    print("%-12s %-12s %-6s n=%d (k=%s) %s"%(kind,w,op,len(ks),','.join('%d%s'%(k,'s' if s else '') for k,s in ks[:4]),bt))
PY
