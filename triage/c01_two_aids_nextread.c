/* C01/C13: two read AIDs on one linked-block element; moving one of them to another element with Hnextread must not
   free the block table the other still uses.  Run under valgrind. */
#include "hdf.h"
#include <stdio.h>
#include <string.h>
int main(void)
{
    uint8 w[40], r[40]; for(int i=0;i<40;i++) w[i]=(uint8)(i+1);
    int32 f=Hopen("c01n.hdf",DFACC_CREATE,0);
    int32 a=HLcreate(f,1000,1,16,4); Hwrite(a,40,w); Hendaccess(a);
    a=HLcreate(f,1000,2,16,4); Hwrite(a,40,w); Hendaccess(a); Hclose(f);
    f=Hopen("c01n.hdf",DFACC_READ,0);
    int32 a1=Hstartread(f,1000,1), a2=Hstartread(f,1000,1);
    printf("Hnextread=%d\n",(int)Hnextread(a1,1000,DFREF_WILDCARD,DF_CURRENT));
    memset(r,0,sizeof r);
    int32 n=Hread(a2,40,r);
    printf("Hread(a2)=%d match=%d\n",(int)n,memcmp(w,r,40)==0);
    Hendaccess(a1); Hendaccess(a2); printf("Hclose=%d\n",(int)Hclose(f)); remove("c01n.hdf");
    return !(n==40 && memcmp(w,r,40)==0); }
