/* TRIAGE ONLY (C03): a strided write whose count is 0 along a dimension selects no cell.  NCgenio performs one NCvario transfer of
 * one element before it looks at its stop condition, so SDwritedata(start={2}, stride={2}, count={0}, buf={-9}) returns SUCCEED
 * and overwrites cell 2.  (With stride == NULL the same request writes nothing.)  Expected: no cell changes.  Exit 1 otherwise. */
#include "mfhdf.h"
#include <stdio.h>
int main(void)
{
    const char *fn = "c03_strided_zero_count.hdf";
    int32 sd = SDstart(fn, DFACC_CREATE), dims[1] = {6}, st0[1] = {0}, v[6] = {1, 2, 3, 4, 5, 6}, got[6];
    int32 s  = SDcreate(sd, "d", DFNT_INT32, 1, dims);
    SDwritedata(s, st0, NULL, dims, v);
    int32 st[1] = {2}, str[1] = {2}, cnt[1] = {0}, x[1] = {-9};
    int   r = SDwritedata(s, st, str, cnt, x);
    SDreaddata(s, st0, NULL, dims, got);
    printf("SDwritedata(count 0, stride 2) = %d; data now:", r);
    int bad = 0;
    for (int i = 0; i < 6; i++) {
        printf(" %d", (int)got[i]);
        if (got[i] != v[i])
            bad = 1;
    }
    printf("\n");
    SDendaccess(s);
    SDend(sd);
    remove(fn);
    return bad;
}
