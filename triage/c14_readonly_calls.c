/* C14 / F5B candidates: each public mutator is called through handles of a file opened READ-ONLY.
 * Expected by the property: every call returns its failure value; the file's bytes stay unchanged.
 * Prints one line per call; exit 1 if any call "succeeds" or the file changed. */
#include "hdf.h"
#include "mfhdf.h"
#include <stdio.h>
#include <stdlib.h>
#include <string.h>
static const char *FN = "c14_ro.hdf";
static long fsum(void) { FILE *f = fopen(FN, "rb"); long s = 0, n = 0; int c; while ((c = fgetc(f)) != EOF) { s = s * 131 + c; n++; } fclose(f); return s ^ n; }
static int nacc = 0;
#define T(name, call, failcond) do { long r = (long)(call); int rej = (failcond); printf("%-22s -> %ld %s\n", name, r, rej ? "refused" : "ACCEPTED on a read-only handle"); if (!rej) nacc++; } while (0)
int main(void)
{
    int32 dims[2] = {4, 4}, start[2] = {0, 0}, buf[16] = {0}, f, sd, sds, vs, vg, gr, ri, dim, aid;
    int32 gdims[2] = {4, 4};
    float64 cal = 1.0; int32 rng[2] = {0, 9};
    /* build a file with one of everything */
    sd = SDstart(FN, DFACC_CREATE); sds = SDcreate(sd, "ds", DFNT_INT32, 2, dims); SDwritedata(sds, start, NULL, dims, buf);
    SDsetattr(sds, "a", DFNT_INT32, 1, buf); SDendaccess(sds); SDend(sd);
    f = Hopen(FN, DFACC_RDWR, 0); Vstart(f);
    vs = VSattach(f, -1, "w"); VSsetname(vs, "vd"); VSfdefine(vs, "x", DFNT_INT32, 1); VSsetfields(vs, "x"); VSwrite(vs, (uint8 *)buf, 4, FULL_INTERLACE); int32 vsref = VSQueryref(vs); VSdetach(vs);
    vg = Vattach(f, -1, "w"); Vsetname(vg, "vg"); Vaddtagref(vg, DFTAG_VH, vsref); int32 vgref = VQueryref(vg); Vdetach(vg);
    gr = GRstart(f); ri = GRcreate(gr, "im", 1, DFNT_UINT8, MFGR_INTERLACE_PIXEL, gdims); GRwriteimage(ri, start, NULL, gdims, buf); GRendaccess(ri); GRend(gr);
    Hputelement(f, 1000, 1, (const uint8 *)"abcd", 4);
    { int32 a = Hstartwrite(f, 1001, 1, 0); Hendaccess(a); } /* element without data */
    Vend(f); Hclose(f);
    long before = fsum();
    /* now read-only */
    f = Hopen(FN, DFACC_READ, 0); Vstart(f);
    T("Hdupdd", Hdupdd(f, 1000, 7, 1000, 1), r == FAIL);
    aid = Hstartread(f, 1000, 1);
    if (aid != FAIL) { T("Hnextread+Hsetlength", (Hnextread(aid, 1001, 1, DF_START) == FAIL ? -2 : Hsetlength(aid, 10)), r == FAIL); Hendaccess(aid); }
    T("HDreuse_tagref", HDreuse_tagref(f, 1000, 1), r == FAIL);
    T("Hdeldd", Hdeldd(f, 1000, 1), r == FAIL);
    vs = VSattach(f, vsref, "r");
    T("VSsetname", VSsetname(vs, "zz"), r == FAIL);
    T("VSsetclass", VSsetclass(vs, "cc"), r == FAIL);
    VSdetach(vs);
    T("VSattach(-1,w)", (vs = VSattach(f, -1, "w")), r == FAIL);
    if (vs != FAIL) VSdetach(vs);
    T("VSdelete", VSdelete(f, vsref), r == FAIL);
    vg = Vattach(f, vgref, "r");
    T("Vaddtagref", Vaddtagref(vg, 1000, 1), r == FAIL);
    T("Vdeletetagref", Vdeletetagref(vg, DFTAG_VH, vsref), r == FAIL);
    Vdetach(vg);
    gr = GRstart(f); ri = GRselect(gr, 0);
    T("GRsetattr(ri)", GRsetattr(ri, "ga", DFNT_INT32, 1, buf), r == FAIL);
    T("GRsetattr(gr)", GRsetattr(gr, "gg", DFNT_INT32, 1, buf), r == FAIL);
    GRendaccess(ri); GRend(gr);
    Vend(f);
    T("Hclose", Hclose(f), 1);
    sd = SDstart(FN, DFACC_READ); sds = SDselect(sd, 0); dim = SDgetdimid(sds, 0);
    T("SDcreate", SDcreate(sd, "n", DFNT_INT32, 2, dims), r == FAIL);
    T("SDsetattr(sds)", SDsetattr(sds, "b", DFNT_INT32, 1, buf), r == FAIL);
    T("SDsetattr(file)", SDsetattr(sd, "fb", DFNT_INT32, 1, buf), r == FAIL);
    T("SDsetcal", SDsetcal(sds, cal, cal, cal, cal, DFNT_INT32), r == FAIL);
    T("SDsetdatastrs", SDsetdatastrs(sds, "l", "u", "f", "c"), r == FAIL);
    T("SDsetdimname", SDsetdimname(dim, "dd"), r == FAIL);
    T("SDsetdimstrs", SDsetdimstrs(dim, "l", "u", "f"), r == FAIL);
    T("SDsetdimscale", SDsetdimscale(dim, 4, DFNT_INT32, buf), r == FAIL);
    T("SDsetdimval_comp", SDsetdimval_comp(dim, SD_DIMVAL_BW_INCOMP), r == FAIL);
    T("SDsetfillvalue", SDsetfillvalue(sds, buf), r == FAIL);
    T("SDsetrange", SDsetrange(sds, &rng[1], &rng[0]), r == FAIL);
    { comp_info ci; ci.deflate.level = 1; T("SDsetcompress", SDsetcompress(sds, COMP_CODE_DEFLATE, &ci), r == FAIL); }
    T("SDwritedata", SDwritedata(sds, start, NULL, dims, buf), r == FAIL);
    SDendaccess(sds);
    T("SDend", SDend(sd), 1);
    long after = fsum();
    printf("file bytes %s; %d call(s) accepted\n", before == after ? "unchanged" : "CHANGED", nacc);
    return (nacc || before != after) ? 1 : 0;
}
