/* C18: hrepack -t "A:GZIP 6" on an SDS that is already chunked (and not compressed) must produce a GZIP-compressed A */
#include "mfhdf.h"
#include <stdio.h>
#include <stdlib.h>
int main(int argc,char**argv)
{
    const char *hrepack = argc>1?argv[1]:"/repo/_build/bin/hrepack";
    int32 dims[2]={32,32}, st[2]={0,0}; int32 d[1024]; for(int i=0;i<1024;i++) d[i]=i%5;
    int32 sd=SDstart("c18in.hdf",DFACC_CREATE); int32 s=SDcreate(sd,"A",DFNT_INT32,2,dims);
    HDF_CHUNK_DEF c; c.chunk_lengths[0]=16; c.chunk_lengths[1]=16; SDsetchunk(s,c,HDF_CHUNK);
    SDwritedata(s,st,NULL,dims,d); SDendaccess(s); SDend(sd);
    char cmd[512]; snprintf(cmd,sizeof cmd,"%s -i c18in.hdf -o c18out.hdf -t 'A:GZIP 6' >/dev/null",hrepack);
    int rc=system(cmd); printf("hrepack rc=%d\n",rc);
    sd=SDstart("c18out.hdf",DFACC_READ); s=SDselect(sd,SDnametoindex(sd,"A"));
    comp_coder_t ct=COMP_CODE_INVALID; comp_info ci; SDgetcompinfo(s,&ct,&ci);
    HDF_CHUNK_DEF co; int32 fl=0; SDgetchunkinfo(s,&co,&fl);
    printf("output A: comp_type=%d (GZIP=%d) chunk flags=%d\n",(int)ct,(int)COMP_CODE_DEFLATE,(int)fl);
    SDendaccess(s); SDend(sd); remove("c18in.hdf"); remove("c18out.hdf");
    return !(rc==0 && ct==COMP_CODE_DEFLATE); }
