/* C20 / F2s: vunpackvs copies a file-supplied name length into char vsname[65] (VSNAMELENMAX+1) unchecked.
 * A VH record with a 300-character name (legal for the format's 16-bit length, e.g. written by another tool) is stored
 * with Hputelement; attaching it must not write past the VDATA record.  Run under valgrind: expected no invalid write.
 * exit 0 = attach handled (name truncated or attach refused) ; the defect shows as valgrind "Invalid write" / crash */
#include "hdf.h"
#include "hdf_priv.h"
#include <stdio.h>
#include <string.h>
int main(void)
{
    uint8 rec[512], *p = rec;
    int32 f = Hopen("c20_vh.hdf", DFACC_CREATE, 0), vs;
    int i;
    char name[400];
    INT16ENCODE(p, 0); INT32ENCODE(p, 0); UINT16ENCODE(p, 0); INT16ENCODE(p, 0); /* interlace, nvertices, ivsize, nfields=0 */
    INT16ENCODE(p, 300); for (i = 0; i < 300; i++) *p++ = 'n';                      /* name length 300 + name */
    INT16ENCODE(p, 0);                                                             /* class length 0 */
    UINT16ENCODE(p, 0); UINT16ENCODE(p, 0); INT16ENCODE(p, 3); INT16ENCODE(p, 0); *p++ = 0; /* extag exref version more pad */
    Hputelement(f, DFTAG_VH, 2, rec, (int32)(p - rec));
    Hclose(f);
    f = Hopen("c20_vh.hdf", DFACC_READ, 0); Vstart(f);
    vs = VSattach(f, 2, "r");
    printf("VSattach -> %d\n", (int)vs);
    if (vs != FAIL) { VSgetname(vs, name); printf("name length seen: %d\n", (int)strlen(name)); VSdetach(vs); }
    Vend(f); Hclose(f); remove("c20_vh.hdf");
    return 0;
}
