/* TRIAGE ONLY (C13): two public routines validate only the *group* bits of the id they are given and never look the id up, so an id
 * that was released still "works": VSinquire(stale, NULL, NULL, NULL, NULL, NULL) returns SUCCEED and GRgetlutid(stale, 0)
 * returns the stale id as a palette id.  Expected: FAIL from both.  Exit 1 when a stale id is accepted. */
#include "hdf.h"
#include <stdio.h>
int main(void)
{
    const char *fn = "c13_stale_id_group_only.hdf";
    int32 f = Hopen(fn, DFACC_CREATE, 0), v[4] = {1, 2, 3, 4}, bad = 0;
    Vstart(f);
    int32 vs = VSattach(f, -1, "w");
    VSfdefine(vs, "a", DFNT_INT32, 1);
    VSsetfields(vs, "a");
    VSwrite(vs, (uint8 *)v, 4, FULL_INTERLACE);
    if (VSinquire(vs, NULL, NULL, NULL, NULL, NULL) != SUCCEED) {
        printf("live vdata id refused\n");
        bad = 1;
    }
    VSdetach(vs);
    int r = VSinquire(vs, NULL, NULL, NULL, NULL, NULL);
    printf("VSinquire(stale) = %d\n", r);
    if (r != FAIL)
        bad = 1;

    int32 gr = GRstart(f), dims[2] = {2, 2};
    int32 ri = GRcreate(gr, "img", 1, DFNT_UINT8, MFGR_INTERLACE_PIXEL, dims);
    if (GRgetlutid(ri, 0) == FAIL) {
        printf("live image id refused\n");
        bad = 1;
    }
    GRendaccess(ri);
    int32 l = GRgetlutid(ri, 0);
    printf("GRgetlutid(stale) = %d\n", (int)l);
    if (l != FAIL)
        bad = 1;
    GRend(gr);
    Vend(f);
    Hclose(f);
    remove(fn);
    return bad;
}
