/* C13: an SD file id that was never issued (slot bits of one open file, low bits of another) must be rejected */
#include "mfhdf.h"
#include <stdio.h>
int main(void)
{
    int32 a=SDstart("c13a.hdf",DFACC_CREATE), b=SDstart("c13b.hdf",DFACC_CREATE);
    printf("a=%x b=%x\n",(unsigned)a,(unsigned)b);
    int32 forged=(a & 0xffff0000) | (b & 0xffff);
    intn r=SDend(forged); printf("SDend(forged %x)=%d\n",(unsigned)forged,r);
    int32 nd,na; intn ib=SDfileinfo(b,&nd,&na), ia=SDfileinfo(a,&nd,&na); printf("SDfileinfo(a)=%d SDfileinfo(b)=%d\n",ia,ib);
    intn m=SDsetfillmode(forged,SD_NOFILL); printf("SDsetfillmode(forged)=%d\n",m);
    int bad = !(r==FAIL && ia==SUCCEED && ib==SUCCEED && m==FAIL);
    SDend(a); SDend(b); remove("c13a.hdf"); remove("c13b.hdf"); return bad; }
