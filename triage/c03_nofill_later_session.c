/* TRIAGE ONLY (C03): a [4][5] int32 data set is created without data; a later session switches to SD_NOFILL and writes row 2.
 * Before the fix SDwritedata returned FAIL for this in-range request: the element is pre-sized (Hsetlength) only for a data
 * set created in the same session (`var->created`), so the seek to row 2 of the still empty element failed.  Expected:
 * the write succeeds and row 2 reads back, in this session and after reopen. */
#include "mfhdf.h"
#include <stdio.h>
#include <string.h>
int main(void)
{
    int32 dims[2] = {4, 5}, st[2] = {2, 0}, ct[2] = {1, 5}, v[5] = {1, 2, 3, 4, 5}, r[5];
    int32 sd = SDstart("c03_nofill.hdf", DFACC_CREATE), s = SDcreate(sd, "d", DFNT_INT32, 2, dims);
    int   bad = 0;
    SDendaccess(s);
    SDend(sd);
    sd = SDstart("c03_nofill.hdf", DFACC_RDWR);
    SDsetfillmode(sd, SD_NOFILL);
    s      = SDselect(sd, 0);
    int rc = SDwritedata(s, st, NULL, ct, v);
    printf("SDwritedata(row 2) = %d\n", rc);
    bad |= rc != 0;
    memset(r, 0, sizeof r);
    bad |= SDreaddata(s, st, NULL, ct, r) != 0 || memcmp(r, v, sizeof v) != 0;
    SDendaccess(s);
    SDend(sd);
    sd = SDstart("c03_nofill.hdf", DFACC_READ);
    s  = SDselect(sd, 0);
    memset(r, 0, sizeof r);
    bad |= SDreaddata(s, st, NULL, ct, r) != 0 || memcmp(r, v, sizeof v) != 0;
    printf("row 2 after reopen: %d %d %d %d %d\n", (int)r[0], (int)r[1], (int)r[2], (int)r[3], (int)r[4]);
    SDend(sd);
    return bad;
}
