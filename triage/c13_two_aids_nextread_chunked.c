/* C13/C01: same history as c01_two_aids_nextread.c on chunked elements.  Run under valgrind. */
#include "hdf.h"
#include "hfile_priv.h"
#include "hchunks_priv.h"
#include <stdio.h>
#include <string.h>
static int32 mk(int32 f, uint16 ref, uint8 *w)
{
    HCHUNK_DEF c; DIM_DEF d[1]; memset(&c,0,sizeof c); memset(d,0,sizeof d);
    c.chunk_size=8; c.nt_size=1; c.num_dims=1; c.pdims=d; c.chunk_flag=0; c.comp_type=0; c.model_type=0; c.cinfo=NULL; c.minfo=NULL;
    d[0].dim_length=32; d[0].chunk_length=8; d[0].distrib_type=1;
    uint8 fill=0;
    int32 a=HMCcreate(f,1000,ref,1,1,&fill,&c); if(a==FAIL){printf("HMCcreate failed\n");return FAIL;}
    int32 n=Hwrite(a,32,w); Hendaccess(a); return n;
}
int main(void)
{
    uint8 w[32], r[32]; for(int i=0;i<32;i++) w[i]=(uint8)(i+1);
    int32 f=Hopen("c13c.hdf",DFACC_CREATE,0); Vstart(f);
    printf("w1=%d w2=%d\n",(int)mk(f,1,w),(int)mk(f,2,w)); Vend(f); Hclose(f);
    f=Hopen("c13c.hdf",DFACC_READ,0);
    int32 a1=Hstartread(f,1000,1), a2=Hstartread(f,1000,1);
    printf("Hnextread=%d\n",(int)Hnextread(a1,1000,DFREF_WILDCARD,DF_CURRENT));
    memset(r,0,sizeof r);
    int32 n=Hread(a2,32,r);
    printf("Hread(a2)=%d match=%d\n",(int)n,memcmp(w,r,32)==0);
    Hendaccess(a1); Hendaccess(a2); printf("Hclose=%d\n",(int)Hclose(f)); remove("c13c.hdf");
    return !(n==32 && memcmp(w,r,32)==0); }
