#!/bin/sh
# TRIAGE ONLY (C18): two SDSs, each with its own data label.  Before the fix hrepack's copy_an_data looped over the
# ANnumann count of one object but called ANselect(an, i, type), which takes a position among *all* annotations of that
# type in the file: both copies got the same label.  Uses the generator/dumper kept in triage/agent_obs/C18.
B=${B:-/repo/_build}
T=$(mktemp -d); trap 'rm -rf $T' EXIT
for x in gen_an_vg dump_an_vg; do
  cc -g -I/repo/hdf/src -I/repo/mfhdf/src -I$B -I$B/hdf/src /verif/triage/agent_obs/C18/$x.c -o $T/$x $B/bin/libmfhdf.a $B/bin/libhdf.a -ljpeg -lz -lm 2>/dev/null
done
cd $T && ./gen_an_vg in.hdf && $B/bin/hrepack -i in.hdf -o out.hdf >/dev/null; echo "hrepack exit $?"
echo "input :"; ./dump_an_vg in.hdf | grep '^sds'
echo "output:"; ./dump_an_vg out.hdf | grep '^sds'
