/* C20/C13: a Vgroup/Vdata reference above 65535 names nothing; attaching with it must fail, not wrap to ref & 0xffff */
#include "hdf.h"
#include <stdio.h>
int main(void)
{
    int32 f=Hopen("c20t.hdf",DFACC_CREATE,0); Vstart(f);
    int32 vg=Vattach(f,-1,"w"); Vsetname(vg,"g"); int32 gr=VQueryref(vg); Vdetach(vg);
    int32 vs=VSattach(f,-1,"w"); VSfdefine(vs,"a",DFNT_INT32,1); VSsetfields(vs,"a"); int32 one=1; VSwrite(vs,(uint8*)&one,1,FULL_INTERLACE); int32 sr=VSQueryref(vs); VSdetach(vs);
    int bad=0;
    int32 h=Vattach(f,65536+gr,"r"); printf("Vattach(65536+%d)=%d\n",(int)gr,(int)h); if(h!=FAIL){bad=1;Vdetach(h);}
    h=VSattach(f,65536+sr,"r"); printf("VSattach(65536+%d)=%d\n",(int)sr,(int)h); if(h!=FAIL){bad=1;VSdetach(h);}
    int32 e=Ventries(f,65536+gr); printf("Ventries(65536+%d)=%d\n",(int)gr,(int)e);
    printf("Vdelete(65536+%d)=%d  VSdelete(65536+%d)=%d\n",(int)gr,(int)Vdelete(f,65536+gr),(int)sr,(int)VSdelete(f,65536+sr));
    h=Vattach(f,gr,"r"); printf("Vattach(%d) afterwards=%d\n",(int)gr,(int)h); if(h==FAIL) bad=1; else Vdetach(h);
    h=VSattach(f,sr,"r"); printf("VSattach(%d) afterwards=%d\n",(int)sr,(int)h); if(h==FAIL) bad=1; else VSdetach(h);
    Vend(f); Hclose(f); remove("c20t.hdf"); return bad; }
