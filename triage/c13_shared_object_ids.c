/* TRIAGE ONLY (C13): two identifiers for one shared object.
 *  (a) two read attaches of one Vdata: before the fix VSdetach(v1) left v1 valid (VSelts(v1) still answered) until the last
 *      attach was detached, and a second VSdetach(v1) closed the element under v2 (VSread(v2) then failed);
 *  (b) two GRstart on one file: before the fix GRend(g1) left g1 valid, and a second GRend(g1) tore the interface down while
 *      g2 was still registered.
 * Expected: a released identifier is rejected at once, the other one keeps working. */
#include "hdf.h"
#include <stdio.h>
int main(void)
{
    int   bad = 0;
    int32 f = Hopen("c13_shared.hdf", DFACC_CREATE, 0), v[2] = {1, 2}, r[2];
    Vstart(f);
    int32 vs = VSattach(f, -1, "w");
    VSfdefine(vs, "x", DFNT_INT32, 1);
    VSsetfields(vs, "x");
    VSwrite(vs, (uint8 *)v, 2, FULL_INTERLACE);
    int32 ref = VSQueryref(vs);
    VSdetach(vs);
    int32 v1 = VSattach(f, ref, "r"), v2 = VSattach(f, ref, "r");
    printf("VSdetach(v1) = %d\n", (int)VSdetach(v1));
    int32 e = VSelts(v1);
    printf("VSelts(released v1) = %d (expected -1)\n", (int)e);
    bad |= e != FAIL;
    int32 d2 = VSdetach(v1);
    printf("second VSdetach(v1) = %d (expected -1)\n", (int)d2);
    bad |= d2 != FAIL;
    VSsetfields(v2, "x");
    int32 n = VSread(v2, (uint8 *)r, 2, FULL_INTERLACE);
    printf("VSread(v2) = %d (expected 2)\n", (int)n);
    bad |= n != 2;
    VSdetach(v2);
    Vend(f);

    int32 g1 = GRstart(f), g2 = GRstart(f), ni, na;
    printf("GRend(g1) = %d\n", (int)GRend(g1));
    int32 q = GRfileinfo(g1, &ni, &na);
    printf("GRfileinfo(released g1) = %d (expected -1)\n", (int)q);
    bad |= q != FAIL;
    int32 e2 = GRend(g1);
    printf("second GRend(g1) = %d (expected -1)\n", (int)e2);
    bad |= e2 != FAIL;
    q = GRfileinfo(g2, &ni, &na);
    printf("GRfileinfo(g2) = %d (expected 0)\n", (int)q);
    bad |= q != SUCCEED;
    GRend(g2);
    Hclose(f);
    return bad;
}
