/* TRIAGE ONLY (C09/C06): a GR image of type DFNT_UINT16 | DFNT_LITEND.  In the writing session it reads back correctly; before the
 * fix the number-type record GRIupdatemeta wrote carried only the low byte of the type and the constant class byte 0, so after
 * reopen the image was reported as plain DFNT_UINT16 and GRreadimage returned every value byte-swapped (0x0102 as 0x0201).
 * Expected: the same type and the same values after reopen. */
#include "hdf.h"
#include <stdio.h>
int main(void)
{
    int32  dims[2] = {4, 3}, st[2] = {0, 0}, nc, nt, il, d2[2], na;
    uint16 v[12], r[12];
    char   nm[64];
    for (int i = 0; i < 12; i++)
        v[i] = (uint16)(0x0102 + i);
    int32 f = Hopen("c09_litend.hdf", DFACC_CREATE, 0), gr = GRstart(f);
    int32 ri = GRcreate(gr, "img", 1, DFNT_UINT16 | DFNT_LITEND, MFGR_INTERLACE_PIXEL, dims);
    GRwriteimage(ri, st, NULL, dims, v);
    GRendaccess(ri);
    GRend(gr);
    Hclose(f);
    f  = Hopen("c09_litend.hdf", DFACC_READ, 0);
    gr = GRstart(f);
    ri = GRselect(gr, 0);
    GRgetiminfo(ri, nm, &nc, &nt, &il, d2, &na);
    GRreadimage(ri, st, NULL, dims, r);
    printf("type after reopen %d (written %d); first value 0x%04x (written 0x%04x)\n", (int)nt, (int)(DFNT_UINT16 | DFNT_LITEND), r[0], v[0]);
    int bad = nt != (DFNT_UINT16 | DFNT_LITEND);
    for (int i = 0; i < 12; i++)
        bad |= r[i] != v[i];
    GRendaccess(ri);
    GRend(gr);
    Hclose(f);
    return bad;
}
