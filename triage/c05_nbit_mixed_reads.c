#include "hdf.h"
#include <stdio.h>
#include <string.h>
/* mixed-size reads of an n-bit element, int16 too */
int main(void)
{
    int bad=0;
    for(int nt=0; nt<2; nt++){
    int sz = nt?2:1; int N=3000;
    uint8 w[4096], r[4096], e[4096];
    for(int i=0;i<N;i++) w[i]=(uint8)(i*13+5);
    comp_info ci; model_info mi; ci.nbit.nt=nt?DFNT_UINT16:DFNT_UINT8; ci.nbit.sign_ext=0; ci.nbit.fill_one=0;
    ci.nbit.start_bit= nt?11:5; ci.nbit.bit_len= nt?10:6;
    int32 f=Hopen("nb2.hdf",DFACC_CREATE,0);
    int32 a=HCcreate(f,1000,1,COMP_MODEL_STDIO,&mi,COMP_CODE_NBIT,&ci);
    Hwrite(a,N,w); Hendaccess(a); Hclose(f);
    f=Hopen("nb2.hdf",DFACC_READ,0); a=Hstartread(f,1000,1);
    Hread(a,N,e); Hendaccess(a);          /* reference: one read */
    a=Hstartread(f,1000,1);
    int lens[]={8,16,4,1500,2,100,6,1024,340}; int pos=0;
    for(int k=0;k<9;k++){ int l=lens[k]; if(pos+l>N) l=N-pos; int32 n=Hread(a,l,r+pos); if(n!=l){printf("nt%d read %d at %d -> %d\n",nt,l,pos,(int)n);bad++;break;} pos+=l; }
    if(memcmp(e,r,pos)){ int i; for(i=0;i<pos;i++) if(e[i]!=r[i]) break; printf("nt%d mixed reads differ at %d of %d\n",nt,i,pos); bad++; }
    else printf("nt%d mixed reads agree over %d bytes\n",nt,pos);
    Hendaccess(a); Hclose(f); remove("nb2.hdf"); }
    return bad!=0; }
