/* TRIAGE ONLY (C11): two ANcreate calls of the same type before either annotation is written.  Before the fix the second one failed:
 * Htagnewref hands out the same reference until a descriptor using it exists, so both annotations got the same key and the insertion
 * into the annotation tree was refused.  Expected: both are created, written and found again after reopen. */
#include "hdf.h"
#include <stdio.h>
#include <string.h>
int main(void)
{
    int32 fid = Hopen("c11_two.hdf", DFACC_CREATE, 0), an = ANstart(fid);
    int32 a = ANcreate(an, DFTAG_NDG, 2, AN_DATA_LABEL), b = ANcreate(an, DFTAG_NDG, 3, AN_DATA_LABEL);
    printf("ANcreate: %s, %s\n", a == FAIL ? "FAIL" : "ok", b == FAIL ? "FAIL" : "ok");
    if (a == FAIL || b == FAIL)
        return 1;
    ANwriteann(a, "first", 5);
    ANwriteann(b, "second", 6);
    ANendaccess(a);
    ANendaccess(b);
    ANend(an);
    Hclose(fid);
    fid = Hopen("c11_two.hdf", DFACC_READ, 0);
    an  = ANstart(fid);
    int32 l[2], bad = 0;
    char  t[16];
    bad |= ANnumann(an, AN_DATA_LABEL, DFTAG_NDG, 2) != 1 || ANnumann(an, AN_DATA_LABEL, DFTAG_NDG, 3) != 1;
    ANannlist(an, AN_DATA_LABEL, DFTAG_NDG, 2, l);
    memset(t, 0, sizeof t);
    ANreadann(l[0], t, 16);
    bad |= strcmp(t, "first") != 0;
    ANannlist(an, AN_DATA_LABEL, DFTAG_NDG, 3, l);
    memset(t, 0, sizeof t);
    ANreadann(l[0], t, 16);
    bad |= strcmp(t, "second") != 0;
    printf("after reopen: %s\n", bad ? "annotations wrong or missing" : "both labels found with their text");
    ANend(an);
    Hclose(fid);
    return bad;
}
