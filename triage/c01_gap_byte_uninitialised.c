/* TRIAGE ONLY (C01): descriptor caching off, a linked-block element with 100-byte blocks; bytes 50..59 and 150..159 are written,
 * everything else is a gap.  HPgetdiskblock reserves a block by writing one byte at its end — before the fix from an
 * uninitialised local, so byte 99 (the last byte of the partly written first block) came back as whatever was on the stack
 * (0xEE here, after dirty() has run) instead of 0.  Expected: every gap byte reads 0 after reopen. */
#include "hdf.h"
#include <stdio.h>
#include <string.h>
static void dirty(void)
{
    volatile unsigned char a[4096];
    for (int i = 0; i < 4096; i++)
        a[i] = 0xEE;
}
int main(void)
{
    uint8 w[10], r[200];
    memset(w, 7, sizeof w);
    int32 fid = Hopen("c01_gap.hdf", DFACC_CREATE, 0);
    Hcache(fid, FALSE);
    int32 aid = HLcreate(fid, 1000, 1, 100, 4);
    Hseek(aid, 50, DF_START);
    dirty();
    Hwrite(aid, 10, w);
    Hseek(aid, 150, DF_START);
    dirty();
    Hwrite(aid, 10, w);
    Hendaccess(aid);
    Hclose(fid);
    fid     = Hopen("c01_gap.hdf", DFACC_READ, 0);
    int32 n = Hgetelement(fid, 1000, 1, r);
    Hclose(fid);
    int bad = 0;
    for (int i = 0; i < n; i++) {
        int want = ((i >= 50 && i < 60) || (i >= 150 && i < 160)) ? 7 : 0;
        if (r[i] != want) {
            printf("byte %d is 0x%02x, expected %d\n", i, r[i], want);
            bad = 1;
        }
    }
    printf("length %d, %s\n", (int)n, bad ? "gap bytes are not zero" : "all gap bytes zero");
    return bad;
}
