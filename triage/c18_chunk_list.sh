#!/bin/sh
# TRIAGE ONLY (C18): `hrepack -c "a,b:2"` (the form shown in hrepack's own usage text) was rejected with "'*' cannot be with
# other objects" and hrepack exited 0 without writing any output file; -t with the same list was accepted.
B=${B:-/repo/_build}
T=$(mktemp -d); trap 'rm -rf $T' EXIT
cc -g -I/repo/hdf/src -I/repo/mfhdf/src -I$B -I$B/hdf/src /verif/triage/agent_obs/C18/gen_an_vg.c -o $T/gen $B/bin/libmfhdf.a $B/bin/libhdf.a -ljpeg -lz -lm 2>/dev/null
cd $T && ./gen in.hdf && $B/bin/hrepack -i in.hdf -o out.hdf -c "a,b:2" > log.txt; echo "hrepack exit $?"; grep -i error log.txt; ls -l out.hdf 2>&1 | cut -c1-80
