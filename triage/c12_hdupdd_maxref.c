/* TRIAGE replay (not a check): Hdupdd creates a descriptor with a caller-chosen reference number without raising the file's
 * maxref; Hnewref's fast path (++maxref) then hands out that reference although it is in use.  exit 0 = all new refs unused */
#include <stdio.h>
#include "hdf.h"
int
main(void)
{
    uint8 b[4] = {1, 2, 3, 4};
    int   bad  = 0;
    int32 fid  = Hopen("c12_dup.hdf", DFACC_CREATE, 4);
    Hputelement(fid, 1000, 1, b, 4);
    Hdupdd(fid, 1000, 5, 1000, 1); /* (1000,5) now exists */
    for (int i = 0; i < 6; i++) {
        uint16 r = Hnewref(fid);
        if (Hexist(fid, DFTAG_WILDCARD, r) == SUCCEED) {
            printf("Hnewref returned %u which is in use\n", r);
            bad = 1;
        }
    }
    Hclose(fid);
    return bad;
}
