/* C20 / F9a: HPgetdiskblock adds block_size to f_end_off with no overflow guard.
 * three 1 GiB elements: the third must FAIL; defect: it succeeds with a negative offset. exit 0 ok / 1 defect */
#include "hdf.h"
#include <stdio.h>
int main(void)
{
    int32 f = Hopen("c20_big.hdf", DFACC_CREATE, 0), a, i, off = 0, bad = 0;
    for (i = 1; i <= 3; i++) {
        a = Hstartwrite(f, 1000, (uint16)i, 0x40000000);
        if (a == FAIL) { printf("element %d: Hstartwrite failed (expected for the 3rd)\n", i); continue; }
        Hinquire(a, NULL, NULL, NULL, NULL, &off, NULL, NULL, NULL);
        printf("element %d: offset %d\n", i, (int)off);
        if (off < 0) bad = 1;
        Hendaccess(a);
    }
    Hclose(f);
    remove("c20_big.hdf");
    return bad;
}
