/* TRIAGE: `gen` mode builds an input file with one object of every kind hrepack copies (SDS with attribute and named
 * dimension, GR image with attribute, Vdata with vdata- and field-attribute inside a Vgroup with an attribute, file and
 * object annotations); with a file argument it prints a content summary (counts of objects and attributes) that a correct
 * repack must leave unchanged. */
#include <stdio.h>
#include <string.h>
#include "hdf.h"
#include "mfhdf.h"

static void
summary(const char *fn)
{
    int32 fid = Hopen(fn, DFACC_READ, 0);
    if (fid == FAIL) {
        printf("cannot open\n");
        return;
    }
    int32 sd = SDstart(fn, DFACC_READ), nds = -1, nga = -1;
    SDfileinfo(sd, &nds, &nga);
    printf("sds=%d sdglobal=%d", (int)nds, (int)nga);
    for (int i = 0; i < nds; i++) {
        int32 s = SDselect(sd, i), rk, dm[8], nt, na;
        char  nm[128];
        SDgetinfo(s, nm, &rk, dm, &nt, &na);
        printf(" [%s a=%d]", nm, (int)na);
        SDendaccess(s);
    }
    SDend(sd);
    int32 gr = GRstart(fid), ni = -1, nga2 = -1;
    GRfileinfo(gr, &ni, &nga2);
    printf(" gr=%d grglobal=%d", (int)ni, (int)nga2);
    for (int i = 0; i < ni; i++) {
        int32 r = GRselect(gr, i), nc, nt, il, dm[2], na;
        char  nm[128];
        GRgetiminfo(r, nm, &nc, &nt, &il, dm, &na);
        printf(" [%s a=%d]", nm, (int)na);
        GRendaccess(r);
    }
    GRend(gr);
    Vstart(fid);
    int32 ref = -1;
    while ((ref = Vgetid(fid, ref)) != FAIL) {
        int32 vg = Vattach(fid, ref, "r");
        char  nm[128], cl[128];
        Vgetname(vg, nm);
        Vgetclass(vg, cl);
        if (strncmp(cl, "CDF", 3) && strncmp(cl, "Var", 3) && strncmp(cl, "Dim", 3) && strncmp(cl, "RI", 2) && strncmp(cl, "UDim", 4))
            printf(" vg[%s a=%d n=%d]", nm, (int)Vnattrs(vg), (int)Vntagrefs(vg));
        Vdetach(vg);
    }
    ref = -1;
    while ((ref = VSgetid(fid, ref)) != FAIL) {
        int32 vs = VSattach(fid, ref, "r");
        char  nm[128], cl[128];
        VSgetname(vs, nm);
        VSgetclass(vs, cl);
        if (!strcmp(nm, "tab"))
            printf(" vs[%s a=%d fa=%d]", nm, (int)VSfnattrs(vs, -1), (int)VSfnattrs(vs, 0));
        VSdetach(vs);
    }
    Vend(fid);
    int32 an = ANstart(fid), a, b, c, d;
    ANfileinfo(an, &a, &b, &c, &d);
    printf(" an=%d/%d/%d/%d\n", (int)a, (int)b, (int)c, (int)d);
    ANend(an);
    Hclose(fid);
}

int
main(int argc, char **argv)
{
    if (argc > 1) {
        summary(argv[1]);
        return 0;
    }
    const char *fn  = "c18_in.hdf";
    int32       sd  = SDstart(fn, DFACC_CREATE);
    int32       dm[2] = {4, 6}, st[2] = {0, 0};
    int16       data[24];
    for (int i = 0; i < 24; i++)
        data[i] = (int16)i;
    int32 s = SDcreate(sd, "sds", DFNT_INT16, 2, dm);
    SDwritedata(s, st, NULL, dm, data);
    SDsetattr(s, "units", DFNT_CHAR8, 2, "mm");
    SDsetdimname(SDgetdimid(s, 0), "ydim");
    SDsetattr(sd, "title", DFNT_CHAR8, 5, "hello");
    SDendaccess(s);
    SDend(sd);
    int32 fid = Hopen(fn, DFACC_RDWR, 0);
    int32 gr  = GRstart(fid);
    int32 ri  = GRcreate(gr, "img", 1, DFNT_UINT8, MFGR_INTERLACE_PIXEL, dm);
    uint8 px[24];
    memset(px, 7, sizeof px);
    GRwriteimage(ri, st, NULL, dm, px);
    int32 one = 1;
    GRsetattr(ri, "iattr", DFNT_INT32, 1, &one);
    GRendaccess(ri);
    GRend(gr);
    Vstart(fid);
    int32 vs = VSattach(fid, -1, "w");
    int32 d[10] = {1, 2, 3, 4, 5, 6, 7, 8, 9, 10}, a = 42;
    VSfdefine(vs, "A", DFNT_INT32, 1);
    VSsetfields(vs, "A");
    VSsetname(vs, "tab");
    VSwrite(vs, (uint8 *)d, 10, FULL_INTERLACE);
    VSsetattr(vs, 0, "fattr", DFNT_INT32, 1, &a);
    VSsetattr(vs, _HDF_VDATA, "vattr", DFNT_INT32, 1, &a);
    int32 vg = Vattach(fid, -1, "w");
    Vsetname(vg, "grp");
    Vsetattr(vg, "gattr", DFNT_INT32, 1, &a);
    Vinsert(vg, vs);
    int32 vgref = VQueryref(vg);
    VSdetach(vs);
    Vdetach(vg);
    Vend(fid);
    int32 an = ANstart(fid);
    int32 x  = ANcreatef(an, AN_FILE_LABEL);
    ANwriteann(x, "file label", 10);
    ANendaccess(x);
    x = ANcreate(an, DFTAG_VG, (uint16)vgref, AN_DATA_LABEL);
    ANwriteann(x, "group label", 11);
    ANendaccess(x);
    ANend(an);
    Hclose(fid);
    return 0;
}
