/* C07 / F3c: VSsetinterlace changes vs->interlace without setting vs->marked.
 * An existing empty Vdata re-attached for writing: VSsetinterlace(NO_INTERLACE); detach; re-attach => must report NO_INTERLACE */
#include "hdf.h"
#include <stdio.h>
int main(void)
{
    int32 f = Hopen("c07_il.hdf", DFACC_CREATE, 0), vs, ref, il, r;
    Vstart(f);
    vs = VSattach(f, -1, "w"); VSfdefine(vs, "a", DFNT_INT32, 1); VSfdefine(vs, "b", DFNT_INT32, 1); VSsetfields(vs, "a,b"); VSsetname(vs, "t");
    ref = VSQueryref(vs); VSdetach(vs);
    vs = VSattach(f, ref, "w");
    r = VSsetinterlace(vs, NO_INTERLACE);
    VSdetach(vs);
    Vend(f); Hclose(f);
    f = Hopen("c07_il.hdf", DFACC_READ, 0); Vstart(f);
    vs = VSattach(f, ref, "r"); il = VSgetinterlace(vs); VSdetach(vs); Vend(f); Hclose(f);
    printf("VSsetinterlace returned %d; interlace after reopen = %d (NO_INTERLACE is %d)\n", (int)r, (int)il, NO_INTERLACE);
    remove("c07_il.hdf");
    return (r == SUCCEED && il != NO_INTERLACE) ? 1 : 0;
}
