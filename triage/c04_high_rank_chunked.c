/* TRIAGE ONLY (C04/C20): a rank-19 int32 data set (all extents 1 except the last, 4) is made chunked, written and closed.  The chunk
 * special header is 33 + 12 x rank + fill bytes long = 265 bytes here; HMCcreate writes it from a dynamically sized buffer, but the
 * reader HMCIstaccess keeps it in `uint8 c_sp_header[256]` and refuses anything longer ("the 256 limit is arbitrary"): after
 * reopen SDreaddata fails, while the same data set stored contiguously reads back.  Expected: what can be created can be read. */
#include "mfhdf.h"
#include <stdio.h>
#include <string.h>
#define RANK 19
int main(void)
{
    const char   *fn = "c04_high_rank_chunked.hdf";
    int32         dims[RANK], start[RANK], v[4] = {11, 22, 33, 44}, got[4] = {0, 0, 0, 0};
    HDF_CHUNK_DEF cd;
    memset(&cd, 0, sizeof cd);
    for (int i = 0; i < RANK; i++) {
        dims[i] = 1; start[i] = 0; cd.chunk_lengths[i] = 1;
    }
    dims[RANK - 1] = 4;
    cd.chunk_lengths[RANK - 1] = 2;
    int32 sd = SDstart(fn, DFACC_CREATE), s = SDcreate(sd, "d", DFNT_INT32, RANK, dims);
    int   c = SDsetchunk(s, cd, HDF_CHUNK), w = SDwritedata(s, start, NULL, dims, v);
    SDendaccess(s);
    SDend(sd);
    sd    = SDstart(fn, DFACC_READ);
    s     = SDselect(sd, 0);
    int r = SDreaddata(s, start, NULL, dims, got);
    printf("SDsetchunk = %d, SDwritedata = %d, SDreaddata after reopen = %d, values %d %d %d %d\n", c, w, r, (int)got[0], (int)got[1], (int)got[2], (int)got[3]);
    SDendaccess(s);
    SDend(sd);
    remove(fn);
    if (c == FAIL)
        return 0; /* refused up front: consistent */
    return !(r != FAIL && got[0] == 11 && got[3] == 44);
}
