/* TRIAGE ONLY (C15): a 24-bit and an 8-bit image (with palette) written through GR as DFNT_UINT8.  GR stores a RIG for them so
 * that the single-file interfaces can read them, with number type DFNT_UINT8 in the ID record; before the fix DFGR/DFR8 accepted
 * only DFNT_UCHAR8 there, so DF24getdims/DF24getimage/DFR8getdims/DFR8getimage all failed although DF24nimages/DFR8nimages counted
 * the images.  Expected: every call returns 0 and eq=1. */
#include "hdf.h"
#include <stdio.h>
#include <string.h>
#define X 5
#define Y 3
int main(void){
  uint8 pix[Y][X][3], g8[Y][X], in[Y*X*3], pal[768], pin[768];
  int i,j,k;
  for(i=0;i<Y;i++)for(j=0;j<X;j++){g8[i][j]=(uint8)(100+i*X+j);for(k=0;k<3;k++){pix[i][j][k]=(uint8)(k*64+i*X+j);}}
  for(i=0;i<768;i++)pal[i]=(uint8)(i*7);
  int32 f=Hopen("p2.hdf",DFACC_CREATE,0), gr=GRstart(f);
  int32 dims[2]={X,Y},st[2]={0,0};
  int32 ri=GRcreate(gr,"rgb",3,DFNT_UINT8,MFGR_INTERLACE_PIXEL,dims); printf("w24 %d\n",GRwriteimage(ri,st,NULL,dims,pix)); GRendaccess(ri);
  ri=GRcreate(gr,"g8",1,DFNT_UINT8,MFGR_INTERLACE_PIXEL,dims); printf("w8 %d\n",GRwriteimage(ri,st,NULL,dims,g8));
  printf("wlut %d\n",GRwritelut(GRgetlutid(ri,0),3,DFNT_UINT8,MFGR_INTERLACE_PIXEL,256,pal)); GRendaccess(ri);
  GRend(gr);Hclose(f);
  int32 xd,yd; int il,ispal;
  printf("DF24nimages %d\n",DF24nimages("p2.hdf"));
  printf("DF24getdims %d",DF24getdims("p2.hdf",&xd,&yd,&il)); printf(" %d %d il=%d\n",xd,yd,il);
  int rc=DF24getimage("p2.hdf",in,X,Y); printf("DF24getimage %d eq=%d\n",rc,!memcmp(in,pix,sizeof in)); if(rc<0)HEprint(stdout,0);
  printf("DFR8nimages %d\n",DFR8nimages("p2.hdf"));
  printf("DFR8getdims %d",DFR8getdims("p2.hdf",&xd,&yd,&ispal)); printf(" %d %d ispal=%d\n",xd,yd,ispal);
  rc=DFR8getimage("p2.hdf",in,X,Y,pin); printf("DFR8getimage %d eq=%d paleq=%d\n",rc,!memcmp(in,g8,X*Y),!memcmp(pin,pal,768));if(rc<0)HEprint(stdout,0);
  printf("DFPnpals %d\n",DFPnpals("p2.hdf")); memset(pin,0,768); rc=DFPgetpal("p2.hdf",pin); printf("DFPgetpal %d eq=%d\n",rc,!memcmp(pin,pal,768));
  return rc<0 || memcmp(in,g8,X*Y)!=0;}
