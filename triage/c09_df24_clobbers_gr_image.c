/* C09/C17: adding a 24-bit image with DF24addimage to a file that holds a GR image must leave that image alone */
#include "hdf.h"
#include <stdio.h>
#include <string.h>
int main(void)
{
    int32 dims[2]={6,4}, st[2]={0,0}; float32 px[24]; for(int i=0;i<24;i++) px[i]=(float32)i*1.5f;
    int32 f=Hopen("c09d.hdf",DFACC_CREATE,0), gr=GRstart(f);
    int32 ri=GRcreate(gr,"oldfimg",1,DFNT_FLOAT32,MFGR_INTERLACE_PIXEL,dims); GRwriteimage(ri,st,NULL,dims,px); GRendaccess(ri); GRend(gr); Hclose(f);
    uint8 img[27]; memset(img,7,sizeof img);
    printf("DF24addimage=%d\n",DF24addimage("c09d.hdf",img,3,3));
    f=Hopen("c09d.hdf",DFACC_READ,0); gr=GRstart(f); ri=GRselect(gr,GRnametoindex(gr,"oldfimg"));
    char nm[64]; int32 nc,nt,il,dm[2],na; float32 rd[24]; memset(rd,0,sizeof rd);
    GRgetiminfo(ri,nm,&nc,&nt,&il,dm,&na);
    int32 r=GRreadimage(ri,st,NULL,dims,rd);
    printf("old image: ncomp=%d nt=%d dims=%dx%d read=%d same=%d\n",(int)nc,(int)nt,(int)dm[0],(int)dm[1],(int)r,memcmp(px,rd,sizeof px)==0);
    GRendaccess(ri); GRend(gr); Hclose(f); remove("c09d.hdf");
    return !(nc==1&&nt==DFNT_FLOAT32&&dm[0]==6&&dm[1]==4&&memcmp(px,rd,sizeof px)==0); }
