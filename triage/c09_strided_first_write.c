/* TRIAGE replay (not a check): first GRwriteimage into a new image with a Y stride > 1 that neither starts at row 0 nor
 * ends near the last row.  Expected: written rows at their y, everything else fill (0).  exit 0 = as expected. */
#include <stdio.h>
#include <string.h>
#include "hdf.h"

static int
scenario(int32 y0, int32 sy, int32 ny, const char *fn)
{
    int32 dims[2] = {8, 12}; /* x, y */
    uint8 buf[8 * 12], img[8 * 12], exp[8 * 12];
    int32 fid = Hopen(fn, DFACC_CREATE, 0);
    int32 gr  = GRstart(fid);
    int32 ri  = GRcreate(gr, "img", 1, DFNT_UINT8, MFGR_INTERLACE_PIXEL, dims);
    int32 st[2] = {0, y0}, sd[2] = {1, sy}, ct[2] = {8, ny};
    for (int i = 0; i < 96; i++)
        buf[i] = (uint8)(100 + i);
    memset(exp, 0, sizeof exp);
    for (int r = 0; r < ny; r++)
        memcpy(exp + (y0 + r * sy) * 8, buf + r * 8, 8);
    int rc = 0;
    if (GRwriteimage(ri, st, sd, ct, buf) == FAIL)
        rc = 2;
    GRendaccess(ri);
    GRend(gr);
    Hclose(fid);
    fid = Hopen(fn, DFACC_READ, 0);
    gr  = GRstart(fid);
    ri  = GRselect(gr, 0);
    int32 z[2] = {0, 0};
    memset(img, 0xEE, sizeof img);
    if (GRreadimage(ri, z, NULL, dims, img) == FAIL) {
        printf("y0=%d stride=%d rows=%d: whole-image read FAILS\n", (int)y0, (int)sy, (int)ny);
        rc = 1;
    }
    else if (memcmp(img, exp, 96)) {
        int bad = 0;
        for (int i = 0; i < 96; i++)
            bad += img[i] != exp[i];
        printf("y0=%d stride=%d rows=%d: %d of 96 pixels differ from written/fill values\n", (int)y0, (int)sy, (int)ny, bad);
        rc = 1;
    }
    GRendaccess(ri);
    GRend(gr);
    Hclose(fid);
    return rc;
}

int
main(void)
{
    int rc = 0;
    rc |= scenario(0, 2, 6, "c09_a.hdf");  /* control: starts at 0, ends at row 10 of 12 */
    rc |= scenario(2, 2, 2, "c09_b.hdf");  /* starts at row 2, ends at row 4 */
    rc |= scenario(1, 3, 2, "c09_c.hdf");  /* rows 1 and 4 */
    rc |= scenario(5, 2, 4, "c09_d.hdf");  /* rows 5,7,9,11: ends exactly on the last row */
    printf(rc ? "C09 violated\n" : "C09 holds\n");
    return rc;
}
