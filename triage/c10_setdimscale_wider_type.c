/* TRIAGE ONLY (C10): a dimension scale is set as 6 int32 values and then set again as 6 float64 values.  The second call fails —
 * and does not leave the first scale behind: SDdiminfo now reports float64 and SDgetdimscale fails, in this session and after
 * reopen.  Expected: either the new scale is stored, or the call fails and the old scale is still readable.  Exit 1 otherwise. */
#include "mfhdf.h"
#include <stdio.h>
int main(void)
{
    const char *fn = "c10_sds_wider.hdf";
    int32   dims[1] = {6}, a[6] = {1, 2, 3, 4, 5, 6}, got32[6], nt, na, sz;
    float64 b[6] = {.5, 1.5, 2.5, 3.5, 4.5, 5.5}, got64[6];
    char    nm[64];
    int32   sd = SDstart(fn, DFACC_CREATE), s = SDcreate(sd, "d", DFNT_INT32, 1, dims), dim = SDgetdimid(s, 0);
    int r1 = SDsetdimscale(dim, 6, DFNT_INT32, a);
    int r2 = SDsetdimscale(dim, 6, DFNT_FLOAT64, b);
    SDdiminfo(dim, nm, &sz, &nt, &na);
    printf("first set = %d, second set = %d, scale type now %d\n", r1, r2, (int)nt);
    int bad = 0;
    if (r2 == FAIL) {
        if (nt != DFNT_INT32 || SDgetdimscale(dim, got32) == FAIL || got32[5] != 6) {
            printf("the refused call destroyed the old scale\n");
            bad = 1;
        }
    }
    else if (nt != DFNT_FLOAT64 || SDgetdimscale(dim, got64) == FAIL || got64[5] != 5.5) {
        printf("the accepted call did not store the new scale\n");
        bad = 1;
    }
    SDendaccess(s);
    SDend(sd);
    remove(fn);
    return bad;
}
