/* C14: VSdelete through a read-only file handle is refused and leaves the vdata attachable in the same session */
#include "hdf.h"
#include <stdio.h>
int main(void)
{
    int32 f=Hopen("c14v.hdf",DFACC_CREATE,0); Vstart(f);
    int32 vs=VSattach(f,-1,"w"); VSfdefine(vs,"a",DFNT_INT32,1); VSsetfields(vs,"a"); VSsetname(vs,"t"); int32 one=1; VSwrite(vs,(uint8*)&one,1,FULL_INTERLACE);
    int32 ref=VSQueryref(vs); VSdetach(vs); Vend(f); Hclose(f);
    f=Hopen("c14v.hdf",DFACC_READ,0); Vstart(f);
    int32 d=VSdelete(f,ref); printf("VSdelete on a read-only file = %d\n",(int)d);
    int32 h=VSattach(f,ref,"r"); printf("VSattach afterwards = %d, VSfind = %d\n",(int)h,(int)VSfind(f,"t"));
    int bad = !(d==FAIL && h!=FAIL);
    if(h!=FAIL) VSdetach(h);
    Vend(f); Hclose(f); remove("c14v.hdf"); return bad; }
