/* C03: SDwritedata when the conversion buffer cannot be allocated in one piece (large mallocs fail): the library falls back to
   converting in smaller blocks; the data set must still read back what was written.
   build: cc c03_lowmem_write.c -Wl,--wrap=malloc,--wrap=calloc libmfhdf.a libhdf.a -ljpeg -lz -lm */
#include "mfhdf.h"
#include <stdio.h>
#include <stdlib.h>
#include <string.h>
extern void *__real_malloc(size_t);
extern void *__real_calloc(size_t,size_t);
static size_t limit = 0;
static int fails=0; void *__wrap_malloc(size_t n) { if (limit && n > limit) { fails++; return NULL; } return __real_malloc(n); }
void *__wrap_calloc(size_t a, size_t b) { if (limit && a*b > limit) { fails++; return NULL; } return __real_calloc(a,b); }
#define N 10001
int main(void)
{
    static int32 d[N], r[N]; for (int i=0;i<N;i++) d[i]=i*3+1;
    int32 dims[1]={N}, st[1]={0};
    int32 sd=SDstart("c03m.hdf",DFACC_CREATE); int32 s=SDcreate(sd,"v",DFNT_INT32,1,dims);
    limit = 12000;                       /* 40000-byte conversion buffer cannot be had; 10000-byte ones can */
    intn w=SDwritedata(s,st,NULL,dims,d);
    limit = 0;
    printf("SDwritedata under memory pressure = %d (refused allocations: %d)\n",w,fails);
    SDendaccess(s); SDend(sd);
    sd=SDstart("c03m.hdf",DFACC_READ); s=SDselect(sd,0); limit = 12000; intn rr=SDreaddata(s,st,NULL,dims,r); limit = 0;
    int bad=-1; for(int i=0;i<N;i++) if(r[i]!=d[i]){bad=i;break;}
    printf("read=%d first difference at %d\n",rr,bad);
    SDendaccess(s); SDend(sd); remove("c03m.hdf");
    return !(w==FAIL || bad==-1); }
