/* C20 / F2s: H4_NC_new_cdf copies the file name with strncpy(cdf->path, name, strlen(name)+1) into char path[FILENAME_MAX+1].
 * SDstart with a 6000-character path must fail cleanly. Run under valgrind: expected no invalid write. */
#include "mfhdf.h"
#include <stdio.h>
#include <stdlib.h>
#include <string.h>
int main(void)
{
    char *path = malloc(6100); int32 sd;
    memset(path, 'p', 6000); strcpy(path + 6000, ".hdf");
    sd = SDstart(path, DFACC_CREATE);
    printf("SDstart(6004-char path) -> %d\n", (int)sd);
    if (sd != FAIL) SDend(sd);
    return 0;
}
