#!/bin/sh
# usage: triage/run.sh prog.c [build-dir]   — compile a triage replay against the built library and run it
# (triage only: never part of a check's verdict)
set -e
B=${2:-/repo/_build}
T=$(mktemp -d)
trap 'rm -rf "$T"' EXIT
SAN=${SAN:-}
WR=""; [ -n "$WRAP" ] && WR="-Wl,--wrap=fwrite"
cc $SAN $WR -g -I/repo/hdf/src -I/repo/mfhdf/src -I$B -I$B/hdf/src "$1" -o $T/a.out $B/bin/libmfhdf.a $B/bin/libhdf.a -ljpeg -lz -lm 2>&1 | grep -v warning | head -5 || true
cd $T && ./a.out; echo "exit=$?"
