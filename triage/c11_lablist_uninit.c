/* C11: DFANlablist after DFANputlabel in the same process must only look at directory slots that hold an annotation. valgrind. */
#include "hdf.h"
#include <stdio.h>
#include <string.h>
int main(void)
{
    uint8 d[4]={1,2,3,4};
    int32 f=Hopen("c11l.hdf",DFACC_CREATE,0); Hputelement(f,700,1,d,4); Hputelement(f,700,2,d,4); Hclose(f);
    printf("putlabel=%d\n",DFANputlabel("c11l.hdf",700,1,"one"));
    uint16 refs[4]; char labs[4*16]; memset(labs,0,sizeof labs);
    int n=DFANlablist("c11l.hdf",700,refs,labs,4,16,1);
    printf("lablist=%d\n",n); for(int i=0;i<n;i++) printf("  ref %d label '%s'\n",refs[i],labs+i*16);
    remove("c11l.hdf"); return 0; }
