/* C10: a dimension name chosen by the user survives close and reopen, also when it begins with "fakeDim" */
#include "mfhdf.h"
#include <stdio.h>
#include <string.h>
int main(void)
{
    int32 dims[2]={3,4}; int32 sd=SDstart("c10f.hdf",DFACC_CREATE); int32 s=SDcreate(sd,"v",DFNT_INT32,2,dims);
    int32 d1=SDgetdimid(s,1); printf("setdimname=%d\n",SDsetdimname(d1,"fakeDimension"));
    SDendaccess(s); SDend(sd);
    sd=SDstart("c10f.hdf",DFACC_READ); s=SDselect(sd,0); d1=SDgetdimid(s,1);
    char nm[128]; int32 sz,nt,na; SDdiminfo(d1,nm,&sz,&nt,&na); printf("dimension 1 after reopen: '%s'\n",nm);
    int bad=strcmp(nm,"fakeDimension")!=0;
    SDendaccess(s); SDend(sd); remove("c10f.hdf"); return bad; }
