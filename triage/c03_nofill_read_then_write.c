/* TRIAGE ONLY (C03): SD_NOFILL, a new [4][5] int32 data set is read once while still empty (which opens its data element) and
 * then row 2 is written.  Before the fix SDwritedata returned FAIL for this in-range request: the pre-sizing requested by
 * SDwritedata is carried out only where the element is opened, and it was open already.  Expected: success, row 2 reads back. */
#include "mfhdf.h"
#include <stdio.h>
#include <string.h>
int main(void)
{
    int32 dims[2] = {4, 5}, st0[2] = {0, 0}, st[2] = {2, 0}, ct[2] = {1, 5}, v[5] = {1, 2, 3, 4, 5}, all[20], r[5];
    int32 sd = SDstart("c03_nofill2.hdf", DFACC_CREATE);
    int   bad = 0;
    SDsetfillmode(sd, SD_NOFILL);
    int32 s = SDcreate(sd, "d", DFNT_INT32, 2, dims);
    printf("read of the empty data set: %d\n", (int)SDreaddata(s, st0, NULL, dims, all));
    int rc = SDwritedata(s, st, NULL, ct, v);
    printf("SDwritedata(row 2) = %d\n", rc);
    bad |= rc != 0;
    SDendaccess(s);
    SDend(sd);
    sd = SDstart("c03_nofill2.hdf", DFACC_READ);
    s  = SDselect(sd, 0);
    memset(r, 0, sizeof r);
    bad |= SDreaddata(s, st, NULL, ct, r) != 0 || memcmp(r, v, sizeof v) != 0;
    SDend(sd);
    return bad;
}
