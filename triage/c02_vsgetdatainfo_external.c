/* C02: the (offset, length) VSgetdatainfo reports are where an independent reader finds the Vdata's bytes in this file.
   For a Vdata moved to an external file nothing of it is in this file: no block may be reported at offset 0. */
#include "hdf.h"
#include <stdio.h>
int main(void)
{
    int32 f=Hopen("c02x.hdf",DFACC_CREATE,0); Vstart(f);
    int32 vs=VSattach(f,-1,"w"); VSfdefine(vs,"F",DFNT_INT32,1); VSsetfields(vs,"F"); int32 buf[10]; for(int i=0;i<10;i++) buf[i]=i;
    VSwrite(vs,(uint8*)buf,10,FULL_INTERLACE);
    printf("setexternal=%d\n",VSsetexternalfile(vs,"c02x.dat",16));
    int32 off[4]={-7,-7,-7,-7}, len[4]={-7,-7,-7,-7};
    intn n=VSgetdatainfo(vs,0,4,off,len);
    printf("VSgetdatainfo = %d off[0]=%d len[0]=%d\n",n,(int)off[0],(int)len[0]);
    VSdetach(vs); Vend(f); Hclose(f); remove("c02x.hdf"); remove("c02x.dat");
    return (n>0 && off[0]==0); }
