#!/bin/sh
# TRIAGE ONLY (C18): a file with three Vdatas carrying two attributes each holds 6 attribute Vdatas (class Attr0.0).  Before the fix
# hrepack also copied those attribute Vdatas as ordinary lone Vdatas (its test for reserved classes was guarded by "the class is
# empty"), so the output held 12.  Expected: 6 and 6.
B=${B:-/repo/_build}
T=$(mktemp -d); trap 'rm -rf $T' EXIT
cat > $T/g.c <<'C'
#include "hdf.h"
#include <stdio.h>
#include <string.h>
int main(int argc, char **argv)
{
    if (argc > 2) {
        int32 fid = Hopen(argv[1], DFACC_CREATE, 0), v[2] = {1, 2}, a = 7;
        Vstart(fid);
        for (int k = 0; k < 3; k++) {
            char  nm[8];
            int32 vs = VSattach(fid, -1, "w");
            sprintf(nm, "vd%d", k);
            VSsetname(vs, nm);
            VSfdefine(vs, "x", DFNT_INT32, 1);
            VSsetfields(vs, "x");
            VSwrite(vs, (uint8 *)v, 2, FULL_INTERLACE);
            VSsetattr(vs, _HDF_VDATA, "a1", DFNT_INT32, 1, &a);
            VSsetattr(vs, 0, "a2", DFNT_INT32, 1, &a);
            VSdetach(vs);
        }
        Vend(fid);
        Hclose(fid);
        return 0;
    }
    int32 fid = Hopen(argv[1], DFACC_READ, 0), ref = -1, n = 0, na = 0;
    Vstart(fid);
    while ((ref = VSgetid(fid, ref)) != FAIL) {
        char  cl[VSNAMELENMAX + 1];
        int32 vs = VSattach(fid, ref, "r");
        VSgetclass(vs, cl);
        n++;
        na += strcmp(cl, _HDF_ATTRIBUTE) == 0;
        VSdetach(vs);
    }
    printf("%s: %d vdatas, %d of class %s\n", argv[1], (int)n, (int)na, _HDF_ATTRIBUTE);
    Vend(fid);
    Hclose(fid);
    return 0;
}
C
cc -g -w -I/repo/hdf/src -I$B -I$B/hdf/src $T/g.c -o $T/g $B/bin/libhdf.a -ljpeg -lz -lm
cd $T && ./g in.hdf create && $B/bin/hrepack -i in.hdf -o out.hdf >/dev/null; echo "hrepack exit $?"; ./g in.hdf; ./g out.hdf
