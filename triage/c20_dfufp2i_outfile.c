/* C20 / F2s: DFUfptoimage copies the output file name into the 32-byte `out.outfile` with strcpy.
 * Built together with an ASan-instrumented copy of dfufp2i.c (the library itself is not instrumented):
 *   cc -fsanitize=address c20_dfufp2i_outfile.c /repo/hdf/src/dfufp2i.c ... libhdf.a
 * expected: no ASan report for a 60-character file name */
#include "hdf.h"
#include <stdio.h>
int main(void)
{
    float32 data[4] = {1, 2, 3, 4}, hs[2] = {0, 1}, vs[2] = {0, 1};
    char name[] = "c20_a_file_name_that_is_longer_than_thirty_two_characters.hdf";
    int r = DFUfptoimage(2, 2, 4.0f, 1.0f, hs, vs, data, NULL, name, 1, 2, 2, 0);
    printf("DFUfptoimage -> %d\n", r);
    remove(name);
    return 0;
}
