/* TRIAGE replay (not a check): scanattrs() stores one token per comma-separated field name into the static arrays
 * sym[VSFIELDMAX][..] / symptr[VSFIELDMAX+1] without counting them; VSsetfields checks `ac > VSFIELDMAX` only after
 * scanattrs has already overrun the arrays.  exit 0 = the over-long list is refused cleanly, crash/1 otherwise. */
#include <stdio.h>
#include <stdlib.h>
#include <string.h>
#include "hdf.h"

int
main(void)
{
    int   nf   = 300;
    char *list = malloc((size_t)nf * 8);
    list[0]    = 0;
    for (int i = 0; i < nf; i++)
        sprintf(list + strlen(list), "%sf%d", i ? "," : "", i);
    int32 fid = Hopen("c20_scan.hdf", DFACC_CREATE, 0);
    Vstart(fid);
    int32 vs = VSattach(fid, -1, "w");
    for (int i = 0; i < 4; i++) {
        char nm[16];
        sprintf(nm, "f%d", i);
        VSfdefine(vs, nm, DFNT_INT8, 1);
    }
    intn r = VSsetfields(vs, list);
    printf("VSsetfields(%d fields) -> %d\n", nf, (int)r);
    VSdetach(vs);
    Vend(fid);
    Hclose(fid);
    return r == FAIL ? 0 : 1;
}
