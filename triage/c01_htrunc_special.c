/* TRIAGE replay (not a check): Htrunc on a linked-block element reports success, leaves the element's length unchanged and
 * truncates the special-header descriptor instead (the element can no longer be opened).  exit 0 = refused or really truncated */
#include <stdio.h>
#include <string.h>
#include "hdf.h"
int
main(void)
{
    uint8 w[28];
    memset(w, 'w', sizeof w);
    int32 fid = Hopen("c01_trunc.hdf", DFACC_CREATE, 0);
    int32 aid = HLcreate(fid, 1000, 1, 8, 2);
    Hwrite(aid, 28, w);
    Hendaccess(aid);
    aid       = Hstartaccess(fid, 1000, 1, DFACC_RDWR);
    int32 r   = Htrunc(aid, 10);
    int32 len = -1;
    Hinquire(aid, NULL, NULL, NULL, &len, NULL, NULL, NULL, NULL);
    printf("Htrunc(10) -> %d, element length now %d\n", (int)r, (int)len);
    Hendaccess(aid);
    Hclose(fid);
    fid        = Hopen("c01_trunc.hdf", DFACC_READ, 0);
    int32 len2 = Hlength(fid, 1000, 1);
    printf("after reopen: Hlength -> %d\n", (int)len2);
    Hclose(fid);
    if (r == FAIL)
        return len2 == 28 ? 0 : 1; /* refused: nothing may have changed */
    return (len == 10 && len2 == 10) ? 0 : 1;
}
