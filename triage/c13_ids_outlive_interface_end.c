/* TRIAGE ONLY (C13): ids that are still open when their interface is ended for the file.
 *  (a) GRend frees every image record of the file but leaves the ids of images that were not GRendaccess'ed in the atom table:
 *      GRgetiminfo(riid) after GRend reads freed memory (run under valgrind) and returns SUCCEED.
 *  (b) Vend puts the vgroup instance records back on the free list but leaves outstanding vgroup ids registered: after
 *      Vstart + Vattach of another vgroup the recycled record is handed out again and the *old* id answers for the new vgroup.
 *  (c) the same for vdata ids (vstree / VSIDGROUP).
 * Expected: the outstanding ids are rejected after GRend / Vend.  Exit 1 when a stale id is answered. */
#include "hdf.h"
#include <stdio.h>
#include <string.h>
int main(void)
{
    const char *fn = "c13_ids_outlive_interface_end.hdf";
    int32 f = Hopen(fn, DFACC_CREATE, 0), bad = 0;
    int32 gr = GRstart(f), dims[2] = {2, 2}, st[2] = {0, 0};
    uint8 px[4] = {1, 2, 3, 4};
    int32 ri = GRcreate(gr, "img", 1, DFNT_UINT8, MFGR_INTERLACE_PIXEL, dims);
    GRwriteimage(ri, st, NULL, dims, px);
    GRend(gr);
    char  nm[64];
    int32 nc, nt, il, d[2], na;
    int   r = GRgetiminfo(ri, nm, &nc, &nt, &il, d, &na);
    printf("(a) GRgetiminfo(image id, after GRend) = %d\n", r);
    if (r != FAIL)
        bad = 1;

    Vstart(f);
    int32 g1 = Vattach(f, -1, "w");
    Vsetname(g1, "first");
    Vend(f); /* g1 not detached */
    Vstart(f);
    int32 g2 = Vattach(f, -1, "w");
    Vsetname(g2, "second");
    char vn[64] = "";
    r = Vgetname(g1, vn);
    printf("(b) Vgetname(id of 'first', after Vend) = %d '%s'\n", r, vn);
    if (r != FAIL)
        bad = 1;
    Vdetach(g2);
    Vend(f);

    Vstart(f);
    int32 v1 = VSattach(f, -1, "w");
    VSsetname(v1, "vfirst");
    Vend(f); /* v1 not detached */
    Vstart(f);
    int32 v2 = VSattach(f, -1, "w");
    VSsetname(v2, "vsecond");
    strcpy(vn, "");
    r = VSgetname(v1, vn);
    printf("(c) VSgetname(id of 'vfirst', after Vend) = %d '%s'\n", r, vn);
    if (r != FAIL)
        bad = 1;
    VSdetach(v2);
    Vend(f);
    Hclose(f);
    remove(fn);
    return bad;
}
