#!/bin/sh
# TRIAGE ONLY: for every fwrite of an `hrepack` run (optionally with extra options, e.g. "-t *:GZIP 6"), fail that one call;
# report the runs in which hrepack exits 0 although the content summary of the output differs from the fault-free one.
B=${B:-/repo/_build}
T=$(mktemp -d); trap 'rm -rf $T' EXIT
cc -shared -fPIC -o $T/shim.so /verif/triage/c18_shim.c -ldl
cc -g -I/repo/hdf/src -I/repo/mfhdf/src -I$B -I$B/hdf/src /verif/triage/c18_content.c -o $T/gen $B/bin/libmfhdf.a $B/bin/libhdf.a -ljpeg -lz -lm 2>/dev/null
cd $T && ./gen
N=$(COUNT_ONLY=1 LD_PRELOAD=$T/shim.so $B/bin/hrepack -i c18_in.hdf -o out0.hdf "$@" 2>&1 | grep FWRITES | awk '{print $2}')
./gen c18_in.hdf > in.txt; ./gen out0.hdf > base.txt
echo "input  : $(cat in.txt)"; echo "output : $(cat base.txt)   ($N fwrite calls)"
k=0
while [ $k -lt ${N:-0} ]; do
  rm -f out.hdf
  FAIL_AT=$k LD_PRELOAD=$T/shim.so $B/bin/hrepack -i c18_in.hdf -o out.hdf "$@" >log.txt 2>&1; rc=$?
  if [ $rc -eq 0 ]; then ./gen out.hdf > chk.txt 2>&1; cmp -s chk.txt base.txt || echo "k=$k: hrepack exit 0, content: $(cat chk.txt | cut -c1-150) | $(grep -i "fail\|cannot\|error\|could not" log.txt | head -1)"; fi
  k=$((k+1))
done
