/* C19 findings in hdiff (F9d truncating difference, F7e flavour switch, COUNT lost count).
 * Creates pairs of files that differ in exactly one value and runs the built hdiff on them;
 * expected exit status 1 for each pair. usage: a.out <path to hdiff>; exit 0 = all flagged, 1 = some difference missed */
#include "mfhdf.h"
#include <stdio.h>
#include <stdlib.h>
#include <string.h>
static void mk(const char *fn, int32 nt, int32 n, const void *buf)
{
    int32 sd = SDstart(fn, DFACC_CREATE), dims[1], start[1] = {0}, s;
    dims[0] = n;
    s = SDcreate(sd, "d", nt, 1, dims);
    SDwritedata(s, start, NULL, dims, (void *)buf);
    SDendaccess(s); SDend(sd);
}
static int run(const char *hdiff, const char *what)
{
    char cmd[512]; int rc;
    snprintf(cmd, sizeof cmd, "%s c19_a.hdf c19_b.hdf > c19_out.txt 2>&1", hdiff);
    rc = system(cmd);
    rc = WEXITSTATUS(rc);
    printf("%-55s hdiff exit=%d %s\n", what, rc, rc == 1 ? "" : "<-- difference MISSED");
    return rc == 1 ? 0 : 1;
}
int main(int argc, char **argv)
{
    const char *hd = argc > 1 ? argv[1] : "/repo/_build/bin/hdiff";
    int bad = 0;
    { int8 a[4] = {0, 1, 2, 3}, b[4] = {-128, 1, 2, 3}; mk("c19_a.hdf", DFNT_INT8, 4, a); mk("c19_b.hdf", DFNT_INT8, 4, b);
      bad += run(hd, "int8 0 vs -128"); }
    { int16 a[4] = {0, 1, 2, 3}, b[4] = {-32768, 1, 2, 3}; mk("c19_a.hdf", DFNT_INT16, 4, a); mk("c19_b.hdf", DFNT_INT16, 4, b);
      bad += run(hd, "int16 0 vs -32768"); }
    { int32 a[4] = {0, 1, 2, 3}, b[4] = {(int32)0x80000000, 1, 2, 3}; mk("c19_a.hdf", DFNT_INT32, 4, a); mk("c19_b.hdf", DFNT_INT32, 4, b);
      bad += run(hd, "int32 0 vs INT32_MIN"); }
    { int32 a[4] = {0, 1, 2, 3}, b[4] = {7, 1, 2, 3}; mk("c19_a.hdf", DFNT_LINT32, 4, a); mk("c19_b.hdf", DFNT_LINT32, 4, b);
      bad += run(hd, "little-endian int32 (DFNT_LINT32) 0 vs 7"); }
    { int32 n = 600000, i; int32 *a = calloc(n, 4), *b = calloc(n, 4); for (i = 0; i < n; i++) a[i] = b[i] = i; b[0] = -5;
      mk("c19_a.hdf", DFNT_INT32, n, a); mk("c19_b.hdf", DFNT_INT32, n, b);
      bad += run(hd, "2.4 MB SDS differing only in its first element"); }
    remove("c19_a.hdf"); remove("c19_b.hdf"); remove("c19_out.txt");
    return bad ? 1 : 0;
}
