/* TRIAGE ONLY (C04): an RLE-compressed (non-chunked) data set of 7 int32 with fill -7; element [2] is written, the data set is closed
 * and reselected, then element [0] is written.  Before the fix every call succeeded and the data set read back as
 * 40854 67372036 67372036 ...: the RLE coder admitted a rewrite of the first bytes only, re-encoded the head of the stream in place
 * and left the rest misaligned.  After the fix the second write is refused (as the deflate coder always did) and the data stay intact. */
/* baseline observation: partial overwrite of an RLE-compressed (non-chunked) SDS silently corrupts data */
#include <stdio.h>
#include <string.h>
#include "mfhdf.h"
int main(void)
{
    int32     dims[1] = {7}, start[1], edge[1], v, rd[7], fill = -7, i;
    comp_info ci;
    int32     sd  = SDstart("rle_baseline.hdf", DFACC_CREATE);
    int32     sds = SDcreate(sd, "d", DFNT_INT32, 1, dims);
    int       bad = 0;
    memset(&ci, 0, sizeof ci);
    SDsetfillvalue(sds, &fill);
    printf("SDsetcompress(RLE) = %d\n", (int)SDsetcompress(sds, COMP_CODE_RLE, &ci));
    start[0] = 2; edge[0] = 1; v = -6606;
    printf("write [2]=-6606 -> %d\n", (int)SDwritedata(sds, start, NULL, edge, &v));
    SDendaccess(sds);
    sds = SDselect(sd, 0);
    start[0] = 0; edge[0] = 7;

    start[0] = 0; edge[0] = 1; v = 40854;
    printf("write [0]=40854 -> %d\n", (int)SDwritedata(sds, start, NULL, edge, &v));
    SDendaccess(sds);
    SDend(sd);
    sd = SDstart("rle_baseline.hdf", DFACC_READ);
    sds = SDselect(sd, 0);
    start[0] = 0; edge[0] = 7;
    printf("read -> %d :", (int)SDreaddata(sds, start, NULL, edge, rd));
    for (i = 0; i < 7; i++) printf(" %d", (int)rd[i]);
    printf("\nexpected : 40854 -7 -6606 -7 -7 -7 -7\n");
    if (rd[1] != -7 || rd[2] != -6606 || rd[3] != -7 || rd[6] != -7) bad = 1; /* whatever became of the refused write, the rest must be intact */
    SDendaccess(sds); SDend(sd);
    return bad;
}
