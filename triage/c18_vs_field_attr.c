/* TRIAGE: builds an input file with a Vdata that has a field attribute (for triage/c18_run.sh) or, with argv[1] = file,
 * checks whether that file's Vdata "tab" still has its field attribute: exit 0 present, 1 missing */
#include <stdio.h>
#include <string.h>
#include "hdf.h"
int
main(int argc, char **argv)
{
    if (argc > 1) {
        int32 fid = Hopen(argv[1], DFACC_READ, 0);
        if (fid == FAIL)
            return 2;
        Vstart(fid);
        int32 ref = VSfind(fid, "tab");
        int32 vs  = VSattach(fid, ref, "r");
        int   n   = (vs == FAIL) ? -1 : VSfnattrs(vs, 0);
        printf("field attributes of field 0: %d\n", n);
        if (vs != FAIL)
            VSdetach(vs);
        Vend(fid);
        Hclose(fid);
        return n == 1 ? 0 : 1;
    }
    int32 fid = Hopen("c18_in.hdf", DFACC_CREATE, 0);
    Vstart(fid);
    int32 vs = VSattach(fid, -1, "w");
    int32 d[10] = {1, 2, 3, 4, 5, 6, 7, 8, 9, 10}, a = 42;
    VSfdefine(vs, "A", DFNT_INT32, 1);
    VSsetfields(vs, "A");
    VSsetname(vs, "tab");
    VSwrite(vs, (uint8 *)d, 10, FULL_INTERLACE);
    VSsetattr(vs, 0, "fattr", DFNT_INT32, 1, &a);
    VSdetach(vs);
    Vend(fid);
    Hclose(fid);
    return 0;
}
