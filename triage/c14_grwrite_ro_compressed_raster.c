/* TRIAGE ONLY (C14): an RLE-compressed 8-bit raster written by DFR8, the file then opened with DFACC_READ.  Before the fix
 * GRwriteimage returned SUCCEED (the compressed-raster special element gave every access record read/write access, whatever
 * the file was opened with), a following GRreadimage returned the new pixels, and only the final Hclose failed.
 * Expected: GRwriteimage fails, reads keep returning the stored pixels, Hclose succeeds. */
#include "hdf.h"
#include <stdio.h>
#include <string.h>
int main(void)
{
    uint8     img[16][16], nw[16][16], r[16][16];
    comp_info ci;
    int32     st[2] = {0, 0}, dims[2] = {16, 16};
    memset(&ci, 0, sizeof ci);
    for (int i = 0; i < 16; i++)
        for (int j = 0; j < 16; j++) {
            img[i][j] = (uint8)(i < 8 ? 3 : 9);
            nw[i][j]  = 77;
        }
    remove("c14_cr.hdf");
    DFR8setcompress(COMP_RLE, &ci);
    DFR8putimage("c14_cr.hdf", img, 16, 16, COMP_RLE);
    int32 f = Hopen("c14_cr.hdf", DFACC_READ, 0), gr = GRstart(f), ri = GRselect(gr, 0);
    int32 w = GRwriteimage(ri, st, NULL, dims, nw);
    printf("GRwriteimage on a read-only file = %d (expected -1)\n", (int)w);
    memset(r, 0, sizeof r);
    int32 rd = GRreadimage(ri, st, NULL, dims, r);
    printf("GRreadimage = %d, pixels %s\n", (int)rd, memcmp(r, img, sizeof r) == 0 ? "as stored" : "CHANGED");
    GRendaccess(ri);
    GRend(gr);
    int32 c = Hclose(f);
    printf("Hclose = %d (expected 0)\n", (int)c);
    return !(w == FAIL && memcmp(r, img, sizeof r) == 0 && c == SUCCEED);
}
