/* TRIAGE ONLY (C12/C20): references 1..65534 of one tag are in use, 65535 (the largest legal reference) is free.  Before the
 * fix Htagnewref returned 0 ("none left"): the free bit's index 65535 was compared, after a cast to uint16, with (uint16)FAIL.
 * Expected: 65535. */
#include "hdf.h"
#include <stdio.h>
int main(void)
{
    uint8 b[4] = {1, 2, 3, 4};
    int32 fid = Hopen("c12_lastref.hdf", DFACC_CREATE, 4096);
    Hputelement(fid, 1000, 1, b, 4);
    for (int r = 2; r <= 65534; r++)
        if (Hdupdd(fid, 1000, (uint16)r, 1000, 1) == FAIL) {
            printf("setup failed at %d\n", r);
            return 2;
        }
    uint16 n = Htagnewref(fid, 1000);
    printf("Htagnewref = %u (expected 65535)\n", (unsigned)n);
    Hclose(fid);
    return n != 65535;
}
