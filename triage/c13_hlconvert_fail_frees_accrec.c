/* TRIAGE ONLY (C13/C16): HLconvert on an access id of a file opened read-only fails (DFE_DENIED), as it should.  Before the fix its
 * error clean-up released the caller's access record although the access id stays registered: the next Hendaccess(aid) released the
 * record a second time (AddressSanitizer: heap-use-after-free / the free list then handed one record to two later access ids).
 * Build with -fsanitize=address together with the library sources, or watch the two access ids below share one record. */
#include "hdf.h"
#include <stdio.h>
int main(void)
{
    uint8 b[8] = {1, 2, 3, 4, 5, 6, 7, 8}, r[8];
    int32 fid = Hopen("c13_hlc.hdf", DFACC_CREATE, 0);
    Hputelement(fid, 1000, 1, b, 8);
    Hputelement(fid, 1000, 2, b, 8);
    Hputelement(fid, 1000, 3, b, 8);
    Hclose(fid);
    fid       = Hopen("c13_hlc.hdf", DFACC_READ, 0);
    int32 aid = Hstartread(fid, 1000, 1);
    int32 rc  = HLconvert(aid, 64, 4);
    printf("HLconvert on a read-only file = %d (expected -1)\n", (int)rc);
    int32 e1 = Hendaccess(aid);
    printf("Hendaccess(aid) = %d (expected 0)\n", (int)e1);
    /* two fresh access ids: with the record released twice they share one access record */
    int32 a2 = Hstartread(fid, 1000, 2), a3 = Hstartread(fid, 1000, 3);
    Hseek(a2, 4, DF_START);
    int32 p3 = Htell(a3);
    printf("position of a3 after seeking a2 to 4: %d (expected 0)\n", (int)p3);
    Hendaccess(a2);
    Hendaccess(a3);
    int32 c = Hclose(fid);
    printf("Hclose = %d (expected 0)\n", (int)c);
    return !(rc == FAIL && e1 == SUCCEED && p3 == 0 && c == SUCCEED);
}
