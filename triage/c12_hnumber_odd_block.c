/* TRIAGE replay (not a check): HTIcount_dd's pairwise loop reads ddlist[ndds] when a DD block has an odd number of slots and
 * its first descriptor does not match the counted tag (run under valgrind / ASan; the count itself can also be wrong). */
#include <stdio.h>
#include "hdf.h"
int
main(void)
{
    uint8 b[4] = {1, 2, 3, 4};
    int32 fid  = Hopen("c12_odd.hdf", DFACC_CREATE, 5);
    for (int i = 1; i <= 7; i++)
        Hputelement(fid, 1000, (uint16)i, b, 4);
    int32 n81 = Hnumber(fid, 81), n1000 = Hnumber(fid, 1000);
    printf("Hnumber(81)=%d (expected 0)  Hnumber(1000)=%d (expected 7)\n", (int)n81, (int)n1000);
    Hclose(fid);
    return (n81 == 0 && n1000 == 7) ? 0 : 1;
}
