/* B2: a failed (short) read desynchronises the cached file position; the next write lands elsewhere */
#include <stdio.h>
#include <string.h>
#include "hdf.h"
#include "hfile.h"
int main(void){
    uint8 buf[256]; int32 fid, aid, n; 
    remove("b2.hdf");
    fid = Hopen("b2.hdf", DFACC_CREATE, 0);
    aid = Hstartwrite(fid, 3000, 1, 100);          /* 100 bytes reserved (DD cache on: not materialised) */
    Hwrite(aid, 10, "0123456789");
    Hseek(aid, 0, DF_START);
    n = Hread(aid, 100, buf);                      /* physical file ends after 10 bytes -> fails */
    printf("read of reserved element = %d\n", (int)n);
    Hseek(aid, 0, DF_START);
    n = Hwrite(aid, 5, "XXXXX");                   /* must overwrite positions 0..4 */
    printf("write = %d\n", (int)n);
    Hendaccess(aid); Hclose(fid);
    fid = Hopen("b2.hdf", DFACC_READ, 0);
    aid = Hstartread(fid, 3000, 1);
    memset(buf,0,sizeof buf);
    n = Hread(aid, 20, buf);
    printf("read=%d first 20 bytes: ", (int)n);
    for (int i=0;i<20;i++) putchar(buf[i]?buf[i]:'.');
    putchar('\n');
    Hendaccess(aid); Hclose(fid);
    return memcmp(buf, "XXXXX56789", 10) ? 1 : 0;
}
