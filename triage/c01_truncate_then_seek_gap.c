/* B1t: truncate the last element, reopen, append in place with a seek gap: stale bytes in the gap? */
#include <stdio.h>
#include <string.h>
#include "hdf.h"
#include "hfile.h"
int main(void){
    uint8 buf[256]; int32 fid, aid, n, len; int i, bad=0; int16 sp=-1;
    remove("b1t.hdf");
    fid = Hopen("b1t.hdf", DFACC_CREATE, 0);
    memset(buf, 'A', 100);
    Hputelement(fid, 3000, 2, buf, 100);     /* last element in file */
    aid = Hstartaccess(fid, 3000, 2, DFACC_RDWR);
    printf("trunc=%d\n", (int)Htrunc(aid, 10));
    Hendaccess(aid);
    Hclose(fid);
    fid = Hopen("b1t.hdf", DFACC_RDWR, 0);
    aid = Hstartaccess(fid, 3000, 2, DFACC_RDWR|DFACC_APPENDABLE);
    printf("seek=%d\n", (int)Hseek(aid, 60, DF_START));   /* skip a gap of 50 */
    printf("write=%d\n", (int)Hwrite(aid, 4, "tail"));
    Hendaccess(aid); Hclose(fid);
    fid = Hopen("b1t.hdf", DFACC_READ, 0);
    aid = Hstartread(fid, 3000, 2);
    Hinquire(aid, NULL,NULL,NULL,&len,NULL,NULL,NULL,&sp);
    n = Hread(aid, 0, buf);
    printf("len=%d read=%d special=%d\n", (int)len, (int)n, (int)sp);
    for (i=10;i<60;i++) if (buf[i]!=0) bad++;
    printf("non-zero bytes in gap: %d (first gap byte 0x%02x)\n", bad, buf[10]);
    Hendaccess(aid); Hclose(fid);
    return bad?1:0;
}
