/* TRIAGE ONLY (C10/C15): a classic netCDF-format file (one dimension x=2, one global int16 attribute a=5, one int16 variable
 * v(x) = {1,2}) is opened for writing through the SD interface, the attribute is set to 7 and the file is closed.  The header
 * is re-encoded through the XDR routines; NC_xdr_cdf encoded an uninitialised magic number, xdr_NC_array a zero element count and
 * xdr_NC_var a zero type and length: the file no longer opened.  Expected: reopen works, a == 7, v == {1,2}.  Exit 1 otherwise. */
#include <stdio.h>
#include <string.h>
#include "mfhdf.h"
static unsigned char img[256];
static size_t        pos;
static void put32(unsigned v) { img[pos++] = v >> 24; img[pos++] = v >> 16; img[pos++] = v >> 8; img[pos++] = v; }
static void putname(const char *s)
{
    size_t n = strlen(s), i;
    put32(n);
    for (i = 0; i < n; i++)
        img[pos++] = s[i];
    while (pos % 4)
        img[pos++] = 0;
}
int main(void)
{
    FILE *fp;
    int32 sd, start[1] = {0}, edge[1] = {2}, nt, cnt;
    short v = 7, got = 0, data[2] = {0, 0};
    char  nm[64];
    img[pos++] = 'C'; img[pos++] = 'D'; img[pos++] = 'F'; img[pos++] = 1;
    put32(0);
    put32(10); put32(1); putname("x"); put32(2);
    put32(12); put32(1); putname("a"); put32(3); put32(1); put32(0x00050000);
    put32(11); put32(1); putname("v"); put32(1); put32(0); put32(0); put32(0); put32(3); put32(4); put32(pos + 4); put32(0x00010002);
    fp = fopen("c10_r.nc", "wb");
    fwrite(img, 1, pos, fp);
    fclose(fp);
    sd = SDstart("c10_r.nc", DFACC_WRITE);
    if (sd == FAIL || SDsetattr(sd, "a", DFNT_INT16, 1, &v) == FAIL || SDend(sd) == FAIL) {
        printf("modifying the attribute failed\n");
        return 2;
    }
    sd = SDstart("c10_r.nc", DFACC_READ);
    printf("reopen = %d\n", (int)sd);
    if (sd == FAIL)
        return 1;
    int bad = 0;
    if (SDattrinfo(sd, 0, nm, &nt, &cnt) == FAIL || SDreadattr(sd, 0, &got) == FAIL || got != 7 || strcmp(nm, "a") || cnt != 1)
        bad = 1;
    printf("attribute %s = %d (count %d)\n", nm, got, (int)cnt);
    int32 s = SDselect(sd, 0);
    if (SDreaddata(s, start, NULL, edge, data) == FAIL || data[0] != 1 || data[1] != 2)
        bad = 1;
    printf("v = {%d,%d}\n", data[0], data[1]);
    SDendaccess(s);
    SDend(sd);
    remove("c10_r.nc");
    return bad;
}
