/* TRIAGE ONLY (C18): two data sets A and L (6x10 int32).  `hrepack -t "A:GZIP 1" -c "A,L:3x5" -m 1`: A already has an entry
 * in the option table (from -t) when the chunk list is merged.  Expected: both A and L come out chunked 3x5.
 * Prints the chunking of both in the output; exit 1 when L is not chunked. */
#include "mfhdf.h"
#include <stdio.h>
#include <stdlib.h>
int main(int argc, char **argv)
{
    const char *B = argc > 1 ? argv[1] : "/repo/_build";
    char        cmd[512];
    int32       dims[2] = {6, 10}, start[2] = {0, 0}, buf[60], flags;
    HDF_CHUNK_DEF cd;
    for (int i = 0; i < 60; i++)
        buf[i] = i;
    int32 sd = SDstart("c18_in.hdf", DFACC_CREATE);
    const char *names[2] = {"A", "L"};
    for (int k = 0; k < 2; k++) {
        int32 s = SDcreate(sd, names[k], DFNT_INT32, 2, dims);
        SDwritedata(s, start, NULL, dims, buf);
        SDendaccess(s);
    }
    SDend(sd);
    snprintf(cmd, sizeof cmd, "%s/bin/hrepack -i c18_in.hdf -o c18_out.hdf -t \"A:GZIP 1\" -c \"A,L:3x5\" -m 1 > c18_log.txt 2>&1", B);
    int rc = system(cmd);
    printf("hrepack exit %d\n", rc);
    sd      = SDstart("c18_out.hdf", DFACC_READ);
    int bad = 0;
    for (int k = 0; k < 2; k++) {
        int32 s = SDselect(sd, SDnametoindex(sd, names[k]));
        SDgetchunkinfo(s, &cd, &flags);
        printf("%s: chunk flags %d\n", names[k], (int)flags);
        if (!(flags & HDF_CHUNK))
            bad = 1;
        SDendaccess(s);
    }
    SDend(sd);
    remove("c18_in.hdf"); remove("c18_out.hdf"); remove("c18_log.txt");
    return bad;
}
