/* C20 / F9b: VSsetfields adds reserved-field sizes to the uint16 ivsize without the MAX_FIELD_SIZE check used for user fields.
 * one user field of 65532 bytes + reserved field "PX" (4 bytes) = 65536: must FAIL; defect: succeeds with record size wrapped */
#include "hdf.h"
#include <stdio.h>
int main(void)
{
    int32 f = Hopen("c20_iv.hdf", DFACC_CREATE, 0), vs, r, sz;
    Vstart(f); vs = VSattach(f, -1, "w");
    r = VSfdefine(vs, "big", DFNT_CHAR8, 65532);
    printf("VSfdefine=%d\n", (int)r);
    r = VSsetfields(vs, "big,PX");
    sz = VSsizeof(vs, "big,PX");
    printf("VSsetfields(big,PX)=%d  VSsizeof=%d\n", (int)r, (int)sz);
    VSdetach(vs); Vend(f); Hclose(f); remove("c20_iv.hdf");
    return (r == FAIL) ? 0 : 1;
}
