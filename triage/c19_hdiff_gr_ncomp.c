/* TRIAGE ONLY (C19): two files with one 4x3 GR image of 3 components that differ in one value of the last pixel.
 * Before the fix hdiff's diff_gr found the difference with memcmp over the whole buffer, but counted differences with
 * array_diff over xdim*ydim values only (the first third of the buffer): "0 differences found", exit 0.
 *   cc ... c19_hdiff_gr_ncomp.c -o gen && ./gen a.hdf b.hdf && hdiff a.hdf b.hdf; echo $?          (expected: 1) */
#include "hdf.h"
#include <stdio.h>
static void mk(const char *fn, uint8 last)
{
    int32 fid = Hopen(fn, DFACC_CREATE, 0), gr = GRstart(fid);
    int32 dims[2] = {4, 3}, start[2] = {0, 0};
    uint8 buf[4 * 3 * 3];
    int   i;
    for (i = 0; i < 36; i++)
        buf[i] = (uint8)i;
    buf[35]  = last;
    int32 ri = GRcreate(gr, "img", 3, DFNT_UINT8, MFGR_INTERLACE_PIXEL, dims);
    GRwriteimage(ri, start, NULL, dims, buf);
    GRendaccess(ri);
    GRend(gr);
    Hclose(fid);
}
int main(int argc, char **argv)
{
    mk(argv[1], 35);
    mk(argv[2], 99);
    return 0;
}
