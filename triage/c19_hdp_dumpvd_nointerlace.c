/* TRIAGE ONLY (C19): a Vdata with two int32 fields stored with NO_INTERLACE; records are (1,101) (2,102) (3,103).
 * Before the fix `hdp dumpvd -d` read the records with the stored interlace and walked the (field-major) buffer record by
 * record: it printed "1 2 / 3 101 / 102 103".   ./gen f.hdf && hdp dumpvd -d f.hdf */
#include "hdf.h"
int main(int argc, char **argv)
{
    int32 fid = Hopen(argv[1], DFACC_CREATE, 0);
    int32 buf[6] = {1, 2, 3, 101, 102, 103}; /* field-major */
    Vstart(fid);
    int32 vs = VSattach(fid, -1, "w");
    VSsetname(vs, "ni");
    VSfdefine(vs, "a", DFNT_INT32, 1);
    VSfdefine(vs, "b", DFNT_INT32, 1);
    VSsetfields(vs, "a,b");
    VSsetinterlace(vs, NO_INTERLACE);
    VSwrite(vs, (uint8 *)buf, 3, NO_INTERLACE);
    VSdetach(vs);
    Vend(fid);
    Hclose(fid);
    return 0;
}
