/* baseline exploration: annotations on two objects, shared vgroup with shifted refs */
#include "hdf.h"
#include "mfhdf.h"
#include <stdio.h>
#include <string.h>
#include <stdlib.h>
int main(int argc,char**argv){
  const char*fn=argv[1];
  int32 fid=Hopen(fn,DFACC_CREATE,0);
  int32 sd=SDstart(fn,DFACC_RDWR);
  Vstart(fid);
  int32 dims[1]={4}; int32 d[4]={1,2,3,4}; int32 st[1]={0};
  int32 s1=SDcreate(sd,"a",DFNT_INT32,1,dims); SDwritedata(s1,st,NULL,dims,d);
  int32 s2=SDcreate(sd,"b",DFNT_INT32,1,dims); SDwritedata(s2,st,NULL,dims,d);
  int32 r1=SDidtoref(s1), r2=SDidtoref(s2);
  SDendaccess(s1);SDendaccess(s2);
  int32 an=ANstart(fid);
  int32 a;
  a=ANcreate(an,DFTAG_NDG,(uint16)r1,AN_DATA_LABEL); ANwriteann(a,"label-A",7); ANendaccess(a);
  a=ANcreate(an,DFTAG_NDG,(uint16)r2,AN_DATA_LABEL); ANwriteann(a,"label-B",7); ANendaccess(a);
  ANend(an);
  int32 g0=Vattach(fid,-1,"w"); Vsetname(g0,"g0");
  int32 g1=Vattach(fid,-1,"w"); Vsetname(g1,"g1");
  int32 g2=Vattach(fid,-1,"w"); Vsetname(g2,"g2");
  Vinsert(g0,g1); Vinsert(g0,g2); /*Vinsert(g1,g2);*/
  Vdetach(g0);Vdetach(g1);Vdetach(g2);
  Vend(fid); SDend(sd); Hclose(fid);
  return 0;
}
