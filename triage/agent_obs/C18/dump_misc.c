#include "hdf.h"
#include "mfhdf.h"
#include <stdio.h>
#include <string.h>
#include <stdlib.h>
int main(int argc,char**argv){
  const char*fn=argv[1];
  int32 fid=Hopen(fn,DFACC_READ,0);
  Vstart(fid);
  int32 ref=-1;
  while((ref=VSgetid(fid,ref))!=FAIL){ int32 vs=VSattach(fid,ref,"r"); char nm[256],cl[256],fl[1024]; int32 n,il,sz; VSinquire(vs,&n,&il,fl,&sz,nm); VSgetclass(vs,cl);
    if(VSisattr(vs)||!strncmp(cl,"_HDF_CHK",8)||!strcmp(cl,"RIATTR0.0C")||!strcmp(cl,"DimVal0.1")||!strcmp(cl,"DimVal0.0")){VSdetach(vs);continue;}
    printf("VS %s class=%s n=%d il=%d fields=%s sz=%d :",nm,cl,n,il,fl,sz);
    unsigned char*b=malloc(n*sz+1); VSsetfields(vs,fl); VSread(vs,b,n,FULL_INTERLACE); for(int i=0;i<n*sz;i++)printf("%02x",b[i]); printf("\n"); VSdetach(vs);}
  int32 gr=GRstart(fid); int32 ni,na; GRfileinfo(gr,&ni,&na);
  for(int i=0;i<ni;i++){int32 ri=GRselect(gr,i); char nm[256]; int32 nc,dt,il,d[2],nat; GRgetiminfo(ri,nm,&nc,&dt,&il,d,&nat);
    printf("GR %s nc=%d dt=%d il=%d %dx%d :",nm,nc,dt,il,d[0],d[1]); uint8 b[1000]; int32 st[2]={0,0}; GRreadimage(ri,st,NULL,d,b); for(int k=0;k<d[0]*d[1]*nc;k++)printf("%02x",b[k]);
    int32 lut=GRgetlutid(ri,0); int32 pn,pdt,pil,pe; GRgetlutinfo(lut,&pn,&pdt,&pil,&pe); printf(" pal nc=%d ent=%d",pn,pe); if(pe>0){uint8 p[768]; GRreadlut(lut,p); unsigned s=0; for(int k=0;k<768;k++)s=s*31+p[k]; printf(" sum=%u",s);} printf("\n"); GRendaccess(ri);}
  GRend(gr);
  int32 an=ANstart(fid); int32 nl,nd,ndl,ndd; ANfileinfo(an,&nl,&nd,&ndl,&ndd); printf("AN flabels=%d fdescs=%d dlabels=%d ddescs=%d\n",nl,nd,ndl,ndd);
  for(int i=0;i<nl;i++){int32 a=ANselect(an,i,AN_FILE_LABEL); int32 l=ANannlen(a); char*b=calloc(l+2,1); ANreadann(a,b,l+1); printf(" label[%d] len=%d <%s>\n",i,l,b); ANendaccess(a);}
  for(int i=0;i<nd;i++){int32 a=ANselect(an,i,AN_FILE_DESC); int32 l=ANannlen(a); char*b=calloc(l+2,1); ANreadann(a,b,l+1); printf(" desc[%d] len=%d <%s>\n",i,l,b); ANendaccess(a);}
  ANend(an);
  Vend(fid); Hclose(fid);
  printf("npals=%d\n",DFPnpals(fn));
  return 0;
}
