#include "hdf.h"
#include "mfhdf.h"
#include <stdio.h>
#include <string.h>
#include <stdlib.h>
int main(int argc,char**argv){
  const char*fn=argv[1];
  int32 fid=Hopen(fn,DFACC_CREATE,0);
  Vstart(fid);
  /* vdata NO_INTERLACE */
  int32 vs=VSattach(fid,-1,"w"); VSsetname(vs,"vnoil"); VSsetclass(vs,"myclass");
  VSfdefine(vs,"a",DFNT_INT32,1); VSfdefine(vs,"b",DFNT_FLOAT32,2); VSsetfields(vs,"a,b");
  VSsetinterlace(vs,NO_INTERLACE);
  { unsigned char buf[5*12]; int32 a[5]={1,2,3,4,5}; float32 b[10]={.1,.2,.3,.4,.5,.6,.7,.8,.9,1.0};
    memcpy(buf,a,20); memcpy(buf+20,b,40);
    printf("VSwrite %d\n", VSwrite(vs,buf,5,NO_INTERLACE)); }
  VSdetach(vs);
  /* single-record vdata */
  vs=VSattach(fid,-1,"w"); VSsetname(vs,"vone"); VSfdefine(vs,"c",DFNT_INT16,1); VSsetfields(vs,"c"); {int16 c=42; VSwrite(vs,(void*)&c,1,FULL_INTERLACE);} VSdetach(vs);
  /* GR */
  int32 gr=GRstart(fid); int32 dims[2]={4,3};
  int32 ri=GRcreate(gr,"img_plane",3,DFNT_UINT8,MFGR_INTERLACE_COMPONENT,dims);
  uint8 img[36]; for(int i=0;i<36;i++) img[i]=i*5;
  int32 st[2]={0,0}; GRwriteimage(ri,st,NULL,dims,img);
  GRendaccess(ri);
  ri=GRcreate(gr,"img_pal",1,DFNT_UINT8,MFGR_INTERLACE_PIXEL,dims);
  GRwriteimage(ri,st,NULL,dims,img);
  uint8 pal[768]; for(int i=0;i<768;i++) pal[i]=(i*7)&255;
  int32 lut=GRgetlutid(ri,0); GRwritelut(lut,3,DFNT_UINT8,MFGR_INTERLACE_PIXEL,256,pal);
  GRendaccess(ri);
  GRend(gr);
  int32 an=ANstart(fid);
  int32 a=ANcreatef(an,AN_FILE_DESC); ANwriteann(a,"first description",17); ANendaccess(a);
  a=ANcreatef(an,AN_FILE_DESC); ANwriteann(a,"second description!",19); ANendaccess(a);
  a=ANcreatef(an,AN_FILE_LABEL); ANwriteann(a,"the label",9); ANendaccess(a);
  ANend(an);
  Vend(fid); Hclose(fid);
  for(int i=0;i<768;i++) pal[i]=(i*3)&255;
  if(argc>2) DFPaddpal(fn,pal);
  return 0;
}
