#include "hdf.h"
#include "mfhdf.h"
#include <stdio.h>
#include <string.h>
#include <stdlib.h>
static void dumpvg(int32 fid,int32 ref,int depth){
  int32 vg=Vattach(fid,ref,"r"); char name[256]="",cls[256]=""; Vgetname(vg,name); Vgetclass(vg,cls);
  int n=Vntagrefs(vg); printf("%*svg %s class=%s n=%d\n",depth*2,"",name,cls,n);
  for(int i=0;i<n;i++){int32 t,r; Vgettagref(vg,i,&t,&r); if(t==DFTAG_VG && depth<4) dumpvg(fid,r,depth+1); else printf("%*s tag %d\n",depth*2+2,"",t);}
  Vdetach(vg);
}
int main(int argc,char**argv){
  const char*fn=argv[1];
  int32 fid=Hopen(fn,DFACC_READ,0);
  int32 sd=SDstart(fn,DFACC_READ);
  Vstart(fid);
  int32 nd,na; SDfileinfo(sd,&nd,&na);
  int32 an=ANstart(fid);
  for(int i=0;i<nd;i++){int32 s=SDselect(sd,i); char nm[256]; int32 rank,dims[32],dt,nat; SDgetinfo(s,nm,&rank,dims,&dt,&nat);
    if(SDiscoordvar(s)){SDendaccess(s);continue;}
    int32 ref=SDidtoref(s);
    int n=ANnumann(an,AN_DATA_LABEL,DFTAG_NDG,(uint16)ref);
    printf("sds %s ref %d nlabels %d:",nm,ref,n);
    if(n>0){int32 *l=malloc(sizeof(int32)*n); ANannlist(an,AN_DATA_LABEL,DFTAG_NDG,(uint16)ref,l);
      for(int k=0;k<n;k++){int32 len=ANannlen(l[k]); char*b=calloc(len+1,1); ANreadann(l[k],b,len+1); printf(" [%s]",b); free(b); ANendaccess(l[k]);} free(l);}
    printf("\n"); SDendaccess(s);}
  ANend(an);
  int32 nl=Vlone(fid,NULL,0); int32*refs=malloc(sizeof(int32)*(nl+1)); Vlone(fid,refs,nl);
  for(int i=0;i<nl;i++) dumpvg(fid,refs[i],0);
  Vend(fid); SDend(sd); Hclose(fid); return 0;
}
