#include <stdio.h>
#include <stdlib.h>
#include <string.h>
#include "hdf.h"
#include "hfile.h"
#include "hcomp.h"
int main(void){
  int32 fid=Hopen("nb.hdf",DFACC_CREATE,0); model_info mi; comp_info ci; int i;
  int32 vals[64], exp[64], in[64];
  memset(&ci,0,sizeof ci);
  ci.nbit.nt=DFNT_INT32; ci.nbit.sign_ext=0; ci.nbit.fill_one=0; ci.nbit.start_bit=10; ci.nbit.bit_len=7;
  for(i=0;i<64;i++){ vals[i]=rand(); }
  uint16 ref=Hnewref(fid);
  int32 aid=HCcreate(fid,1000,ref,COMP_MODEL_STDIO,&mi,COMP_CODE_NBIT,&ci);
  /* write as big-endian bytes */
  uint8 raw[256]; for(i=0;i<64;i++){ raw[4*i]=vals[i]>>24; raw[4*i+1]=vals[i]>>16; raw[4*i+2]=vals[i]>>8; raw[4*i+3]=vals[i]; }
  Hwrite(aid,256,raw); Hendaccess(aid);
  uint8 rin[256]; memset(rin,0xAA,256);
  aid=Hstartread(fid,1000,ref);
  int r1=Hread(aid,4,rin); int r2=Hread(aid,8,rin+4); int r3=Hread(aid,244,rin+12);
  Hendaccess(aid);
  int bad=0;
  for(i=0;i<64;i++){ uint32 v=((uint32)rin[4*i]<<24)|(rin[4*i+1]<<16)|(rin[4*i+2]<<8)|rin[4*i+3]; uint32 e=(uint32)vals[i]&(0x7f<<4); if(v!=e){ if(bad<5)printf("i=%d got %08x exp %08x\n",i,v,e); bad++; } }
  printf("r=%d %d %d bad=%d\n",r1,r2,r3,bad);
  Hclose(fid); return bad!=0;
}
