/* generic round-trip fuzz harness (scratch) */
#include <stdio.h>
#include <stdlib.h>
#include <string.h>
#include "hdf.h"
#include "hfile.h"
#include "hcomp.h"

#define TAG 1000
static unsigned long rs = 12345;
static unsigned rnd(void) { rs = rs * 6364136223846793005UL + 1442695040888963407UL; return (unsigned)(rs >> 33); }

static void gen(uint8 *b, int n, int kind)
{
    int i = 0;
    while (i < n) {
        int len, j;
        switch (kind) {
            case 0: b[i++] = (uint8)rnd(); break;
            case 1: /* runs with limits */
                len = 1 + rnd() % 300;
                if (rnd() % 4 == 0) len = 125 + rnd() % 10;
                { uint8 v = (uint8)rnd(); for (j = 0; j < len && i < n; j++) b[i++] = v; }
                break;
            case 2: /* mix of short runs / literals */
                if (rnd() % 2) { len = 1 + rnd() % 4; { uint8 v = (uint8)(rnd()%4); for (j = 0; j < len && i < n; j++) b[i++] = v; } }
                else { len = 1 + rnd() % 200; for (j = 0; j < len && i < n; j++) b[i++] = (uint8)(rnd()%3 + j%2*7); }
                break;
            default: b[i++] = (uint8)(i & 0xff); break;
        }
    }
}

static int fails = 0;

static int roundtrip(int32 fid, comp_coder_t ct, comp_info *ci, const uint8 *data, int n, int iter)
{
    model_info mi;
    uint16 ref = Hnewref(fid);
    int32 aid = HCcreate(fid, TAG, ref, COMP_MODEL_STDIO, &mi, ct, ci);
    uint8 *in = malloc(n + 16);
    int pos = 0, k;
    if (aid == FAIL) { printf("HCcreate fail\n"); return 1; }
    while (pos < n) {
        int len = 1 + rnd() % (rnd() % 3 == 0 ? 9000 : 300);
        if (len > n - pos) len = n - pos;
        if (Hwrite(aid, len, data + pos) != len) { printf("write fail ct=%d\n", ct); return 1; }
        pos += len;
    }
    if (Hendaccess(aid) == FAIL) { printf("endaccess fail\n"); return 1; }
    {
        int32 len32 = Hlength(fid, TAG, ref);
        if (len32 != n) { printf("ct=%d iter=%d Hlength %d != %d\n", ct, iter, (int)len32, n); fails++; }
    }
    /* sequential partitioned read */
    aid = Hstartread(fid, TAG, ref);
    pos = 0;
    memset(in, 0xAA, n);
    while (pos < n) {
        int len = 1 + rnd() % (rnd() % 3 == 0 ? 9000 : 300);
        if (len > n - pos) len = n - pos;
        if (Hread(aid, len, in + pos) != len) { printf("read fail ct=%d\n", ct); fails++; break; }
        pos += len;
    }
    if (memcmp(in, data, n)) { printf("ct=%d iter=%d n=%d seq mismatch\n", ct, iter, n); fails++; }
    /* seeks */
    for (k = 0; k < 12; k++) {
        int off = rnd() % n;
        int len = 1 + rnd() % 500;
        if (len > n - off) len = n - off;
        if (Hseek(aid, off, DF_START) == FAIL) { printf("seek fail\n"); fails++; break; }
        memset(in, 0x55, len);
        if (Hread(aid, len, in) != len) { printf("read2 fail ct=%d\n", ct); fails++; break; }
        if (memcmp(in, data + off, len)) { printf("ct=%d iter=%d seek mismatch off=%d len=%d\n", ct, iter, off, len); fails++; break; }
        if (rnd() % 2) { /* continue reading */
            int off2 = off + len, len2 = 1 + rnd() % 300;
            if (len2 > n - off2) len2 = n - off2;
            if (len2 > 0) {
                if (Hread(aid, len2, in) != len2) { printf("read3 fail\n"); fails++; break; }
                if (memcmp(in, data + off2, len2)) { printf("ct=%d iter=%d cont mismatch\n", ct, iter); fails++; break; }
            }
        }
    }
    Hendaccess(aid);
    /* full rewrite from start then read */
    if (rnd() % 3 == 0) {
        int n2 = n + (rnd() % 2 ? 0 : rnd() % 2000), first;
        uint8 *d2 = malloc(n2);
        uint8 *in2 = malloc(n2);
        gen(d2, n2, rnd() % 3);
        aid = Hstartwrite(fid, TAG, ref, n2);
        if (aid == FAIL) { printf("startwrite fail ct=%d\n", ct); fails++; }
        else {
            first = n + (n2 > n ? rnd() % (n2 - n + 1) : 0);
            if (Hwrite(aid, first, d2) != first) { printf("rewrite fail ct=%d\n", ct); HEprint(stdout, 0); fails++; }
            pos = first;
            while (pos < n2) {
                int len = 1 + rnd() % 700;
                if (len > n2 - pos) len = n2 - pos;
                if (Hwrite(aid, len, d2 + pos) != len) { printf("rewrite-append fail ct=%d pos=%d len=%d n=%d\n", ct, pos, len, n); HEprint(stdout,0); fails++; break; }
                pos += len;
            }
            Hendaccess(aid);
            if (Hlength(fid, TAG, ref) != n2) { printf("ct=%d iter=%d rewrite Hlength mismatch\n", ct, iter); fails++; }
            aid = Hstartread(fid, TAG, ref);
            if (Hread(aid, n2, in2) != n2) { printf("reread fail ct=%d\n", ct); fails++; }
            else if (memcmp(in2, d2, n2)) { printf("ct=%d iter=%d rewrite mismatch\n", ct, iter); fails++; }
            Hendaccess(aid);
        }
        free(d2); free(in2);
    }
    free(in);
    return 0;
}

int main(int argc, char **argv)
{
    int iters = argc > 1 ? atoi(argv[1]) : 200, it;
    int32 fid = Hopen("fuzz.hdf", DFACC_CREATE, 0);
    uint8 *data = malloc(70000);
    for (it = 0; it < iters; it++) {
        comp_info ci;
        comp_coder_t ct;
        int n = 1 + rnd() % (rnd() % 4 == 0 ? 60000 : 3000);
        gen(data, n, rnd() % 3);
        memset(&ci, 0, sizeof ci);
        switch (it % 4) {
            case 0: ct = COMP_CODE_NONE; break;
            case 1: ct = COMP_CODE_RLE; break;
            case 2: ct = COMP_CODE_SKPHUFF; ci.skphuff.skp_size = 1 + rnd() % 9; break;
            default: ct = COMP_CODE_DEFLATE; ci.deflate.level = rnd() % 10; break;
        }
        roundtrip(fid, ct, &ci, data, n, it);
        if (it % 50 == 49) { /* reopen */
            Hclose(fid);
            fid = Hopen("fuzz.hdf", DFACC_RDWR, 0);
        }
    }
    Hclose(fid);
    printf("fails=%d\n", fails);
    return fails ? 1 : 0;
}
