#!/bin/sh
# usage: try.sh  (assumes source already modified) -> builds, runs ctest, runs fuzz
cd /tmp/wt/R6C05
ninja -C _build 2>&1 | grep -E "error|warning: " | head
ctest --test-dir _build -j8 --timeout 900 2>&1 | grep -E "tests passed|tests failed|Failed|\*\*\*" | head -20
cd _seed && cc -g -I/tmp/wt/R6C05/hdf/src -I/tmp/wt/R6C05/mfhdf/src -I/tmp/wt/R6C05/_build fuzz.c -o fuzz /tmp/wt/R6C05/_build/bin/libmfhdf.a /tmp/wt/R6C05/_build/bin/libhdf.a -ljpeg -lz -lm 2>&1 | grep -E "error"
./fuzz 3000 | tail -4; cc -g -I/tmp/wt/R6C05/hdf/src -I/tmp/wt/R6C05/mfhdf/src -I/tmp/wt/R6C05/_build bfuzz.c -o bfuzz /tmp/wt/R6C05/_build/bin/libmfhdf.a /tmp/wt/R6C05/_build/bin/libhdf.a -ljpeg -lz -lm 2>&1 | grep error; ./bfuzz 1000 3 | tail -3
