/*
 * C05 seed 1 demo: an existing element that is coded through the bit-level
 * layer (skipping-Huffman coder, or a raw bit-granular element) is rewritten
 * in full from its start after the file has been reopened; reading it back
 * must return the NEW byte / bit stream.
 *
 * exit 0 = property holds, non-zero = violated.
 *
 * build:
 *   cc -g -I/tmp/wt/R6C05/hdf/src -I/tmp/wt/R6C05/mfhdf/src -I/tmp/wt/R6C05/_build demo.c -o demo \
 *      /tmp/wt/R6C05/_build/bin/libmfhdf.a /tmp/wt/R6C05/_build/bin/libhdf.a -ljpeg -lz -lm
 */
#include <stdio.h>
#include <stdlib.h>
#include <string.h>
#include "hdf.h"
#include "hfile.h"
#include "hcomp.h"
#include "hbitio.h"

#define FILE_NAME "c05_seed1.hdf"
#define TAG       1000
#define BTAG      2000
#define N         3000 /* bytes in the compressed element */
#define NVALS     1000 /* 13-bit fields in the raw bit element */

static void
fill(uint8 *b, int n, unsigned seed)
{
    int i;
    for (i = 0; i < n; i++) {
        seed = seed * 1103515245u + 12345u;
        b[i] = (uint8)("the quick brown fox"[(seed >> 16) % 19] + (i % 7 == 0 ? (seed >> 24) % 3 : 0));
    }
}

int
main(void)
{
    int32      fid, aid, bid;
    uint16     ref, bref;
    model_info mi;
    comp_info  ci;
    uint8      a[N], b[N], in[N];
    uint32     v;
    int        i, bad = 0;

    fill(a, N, 1);
    fill(b, N, 99);

    /* ---- first generation: create both elements -------------------- */
    if ((fid = Hopen(FILE_NAME, DFACC_CREATE, 0)) == FAIL)
        { printf("setup failure at line %d\n", __LINE__); HEprint(stdout,0); return 2; }
    ref = Hnewref(fid);
    memset(&ci, 0, sizeof ci);
    ci.skphuff.skp_size = 2;
    if ((aid = HCcreate(fid, TAG, ref, COMP_MODEL_STDIO, &mi, COMP_CODE_SKPHUFF, &ci)) == FAIL)
        { printf("setup failure at line %d\n", __LINE__); HEprint(stdout,0); return 2; }
    if (Hwrite(aid, N, a) != N)
        { printf("setup failure at line %d\n", __LINE__); HEprint(stdout,0); return 2; }
    if (Hendaccess(aid) == FAIL)
        { printf("setup failure at line %d\n", __LINE__); HEprint(stdout,0); return 2; }

    bref = Hnewref(fid);
    if ((bid = Hstartbitwrite(fid, BTAG, bref, 0)) == FAIL)
        { printf("setup failure at line %d\n", __LINE__); HEprint(stdout,0); return 2; }
    Hbitappendable(bid);
    for (i = 0; i < NVALS; i++)
        if (Hbitwrite(bid, 13, (uint32)(i * 7) & 0x1fff) != 13)
            { printf("setup failure at line %d\n", __LINE__); HEprint(stdout,0); return 2; }
    if (Hendbitaccess(bid, 0) == FAIL)
        { printf("setup failure at line %d\n", __LINE__); HEprint(stdout,0); return 2; }
    if (Hclose(fid) == FAIL)
        { printf("setup failure at line %d\n", __LINE__); HEprint(stdout,0); return 2; }

    /* ---- second generation: reopen, rewrite both in full from the start */
    if ((fid = Hopen(FILE_NAME, DFACC_RDWR, 0)) == FAIL)
        { printf("setup failure at line %d\n", __LINE__); HEprint(stdout,0); return 2; }
    if ((aid = Hstartwrite(fid, TAG, ref, N)) == FAIL)
        { printf("setup failure at line %d\n", __LINE__); HEprint(stdout,0); return 2; }
    if (Hwrite(aid, N, b) != N) {
        printf("rewrite of the skipping-Huffman element failed\n");
        bad++;
    }
    if (Hendaccess(aid) == FAIL)
        { printf("Hendaccess fail\n"); HEprint(stdout,0); bad++; }

    if ((bid = Hstartbitwrite(fid, BTAG, bref, (NVALS * 13 + 7) / 8)) == FAIL)
        { printf("setup failure at line %d\n", __LINE__); HEprint(stdout,0); return 2; }
    for (i = 0; i < NVALS; i++)
        if (Hbitwrite(bid, 13, (uint32)(i * 11 + 5) & 0x1fff) != 13)
            bad++;
    if (Hendbitaccess(bid, 0) == FAIL)
        { printf("Hendbitaccess fail\n"); HEprint(stdout,0); bad++; }
    if (Hclose(fid) == FAIL)
        { printf("setup failure at line %d\n", __LINE__); HEprint(stdout,0); return 2; }

    /* ---- third generation: reopen and read back ------------------------ */
    if ((fid = Hopen(FILE_NAME, DFACC_READ, 0)) == FAIL)
        { printf("setup failure at line %d\n", __LINE__); HEprint(stdout,0); return 2; }
    if (Hlength(fid, TAG, ref) != N) {
        printf("uncompressed length %d, expected %d\n", (int)Hlength(fid, TAG, ref), N);
        bad++;
    }
    if ((aid = Hstartread(fid, TAG, ref)) == FAIL)
        { printf("setup failure at line %d\n", __LINE__); HEprint(stdout,0); return 2; }
    memset(in, 0, sizeof in);
    if (Hread(aid, N, in) != N) {
        printf("read of rewritten skipping-Huffman element failed\n");
        bad++;
    }
    else if (memcmp(in, b, N) != 0) {
        printf("skipping-Huffman element: rewritten data not returned%s\n",
               memcmp(in, a, N) == 0 ? " (the OLD stream came back)" : "");
        bad++;
    }
    Hendaccess(aid);

    if ((bid = Hstartbitread(fid, BTAG, bref)) == FAIL)
        { printf("setup failure at line %d\n", __LINE__); HEprint(stdout,0); return 2; }
    for (i = 0; i < NVALS; i++) {
        if (Hbitread(bid, 13, &v) != 13) {
            printf("bit read failed at field %d\n", i);
            bad++;
            break;
        }
        if (v != ((uint32)(i * 11 + 5) & 0x1fff)) {
            printf("bit element: field %d is 0x%x, expected 0x%x%s\n", i, (unsigned)v,
                   (unsigned)((i * 11 + 5) & 0x1fff), v == ((uint32)(i * 7) & 0x1fff) ? " (old value)" : "");
            bad++;
            break;
        }
    }
    Hendbitaccess(bid, 0);
    Hclose(fid);

    printf(bad ? "C05 VIOLATED (%d problem(s))\n" : "C05 holds\n", bad);
    return bad ? 1 : 0;
}
