#include <stdio.h>
#include <stdlib.h>
#include <string.h>
#include "hdf.h"
#include "hfile.h"
#include "hcomp.h"
int main(void){
  int32 fid=Hopen("empty.hdf",DFACC_CREATE,0); int t; int bad=0;
  comp_coder_t cts[4]={COMP_CODE_NONE,COMP_CODE_RLE,COMP_CODE_SKPHUFF,COMP_CODE_DEFLATE};
  for(t=0;t<4;t++){ model_info mi; comp_info ci; uint8 b[4]; memset(&ci,0,sizeof ci); ci.skphuff.skp_size=1; if(cts[t]==COMP_CODE_DEFLATE) ci.deflate.level=6;
    uint16 ref=Hnewref(fid);
    int32 aid=HCcreate(fid,1000,ref,COMP_MODEL_STDIO,&mi,cts[t],&ci);
    int w=Hwrite(aid,0,b); int e=Hendaccess(aid);
    printf("coder %d: write0=%d endaccess=%d",cts[t],w,e); if(e==FAIL||w==FAIL){ HEprint(stdout,0); bad++; }
    printf(" len=%d\n",(int)Hlength(fid,1000,ref));
    aid=Hstartread(fid,1000,ref); printf("   startread=%d\n",(int)aid); if(aid!=FAIL) Hendaccess(aid); else bad++;
  }
  printf("hclose=%d\n",Hclose(fid)); return bad; }
