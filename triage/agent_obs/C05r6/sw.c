#include <stdio.h>
#include <stdlib.h>
#include <string.h>
#include "hdf.h"
#include "hfile.h"
#include "hbitio.h"
int main(void){
  int32 fid=Hopen("sw.hdf",DFACC_CREATE,0); int i; uint32 v; int bad=0;
  int32 bid=Hstartbitwrite(fid,2000,1,0); Hbitappendable(bid);
  for(i=0;i<3000;i++) Hbitwrite(bid,13,(i*2654435761u)&0x1fff);
  /* A: write->read switch without seek, at end: nothing to read. seek to 0 then read */
  if(Hbitseek(bid,0,0)==FAIL) printf("seek fail\n");
  for(i=0;i<3000;i++){ if(Hbitread(bid,13,&v)!=13){printf("read fail i=%d\n",i);bad++;break;} if(v!=((i*2654435761u)&0x1fff)){ if(bad<3)printf("A mismatch i=%d\n",i); bad++; } }
  /* B: read->write switch: seek to value 100, read 2 values, then overwrite value 102 */
  Hbitseek(bid,(100*13)/8,(100*13)%8);
  Hbitread(bid,13,&v); Hbitread(bid,13,&v);
  if(Hbitwrite(bid,13,0x1555)!=13) { printf("B write fail\n"); HEprint(stdout,0);}
  Hendbitaccess(bid,0);
  bid=Hstartbitread(fid,2000,1);
  for(i=0;i<3000;i++){ uint32 e=(i==102)?0x1555:((i*2654435761u)&0x1fff); Hbitread(bid,13,&v); if(v!=e){ if(bad<8)printf("B mismatch i=%d got %x exp %x\n",i,v,e); bad++; } }
  Hendbitaccess(bid,0); Hclose(fid); printf("bad=%d\n",bad); return bad!=0; }
