/* bit-level I/O fuzz harness (scratch) */
#include <stdio.h>
#include <stdlib.h>
#include <string.h>
#include "hdf.h"
#include "hfile.h"
#include "hbitio.h"

static unsigned long rs = 777;
static unsigned rnd(void) { rs = rs * 6364136223846793005UL + 1442695040888963407UL; return (unsigned)(rs >> 33); }

static uint8 *ref; /* one bit per byte */
static int    fails = 0;

static uint32 getbits(int pos, int w)
{
    uint32 v = 0; int i;
    for (i = 0; i < w; i++) v = (v << 1) | ref[pos + i];
    return v;
}

int main(int argc, char **argv)
{
    int iters = argc > 1 ? atoi(argv[1]) : 100, it;
    int mode = argc > 2 ? atoi(argv[2]) : 3;
    int32 fid = Hopen("bfuzz.hdf", DFACC_CREATE, 0);
    ref = malloc(1 << 20);
    for (it = 0; it < iters; it++) {
        int nbits_target = 8 * (1 + rnd() % (rnd() % 3 ? 300 : 20000));
        int nbits = 0, k;
        uint16 r = Hnewref(fid);
        int32 bid = Hstartbitwrite(fid, 2000, r, 0);
        Hbitappendable(bid);
        while (nbits < nbits_target) {
            int w = 1 + rnd() % 32, i;
            uint32 v = rnd() ^ (rnd() << 16);
            if (rnd() % 4 == 0) w = 1 + rnd() % 8;
            if (w > nbits_target - nbits) w = nbits_target - nbits;
            if (w < 32) v &= ((1u << w) - 1);
            if (Hbitwrite(bid, w, v) != w) { printf("bitwrite fail\n"); fails++; break; }
            for (i = 0; i < w; i++) ref[nbits + i] = (v >> (w - 1 - i)) & 1;
            nbits += w;
        }
        Hendbitaccess(bid, 0);
        if (Hlength(fid, 2000, r) != nbits / 8 && Hlength(fid, 2000, r) != (nbits/8 + 4095)/4096*4096) { printf("it=%d length %d != %d\n", it, (int)Hlength(fid, 2000, r), nbits / 8); fails++; }
        /* sequential re-partitioned read */
        bid = Hstartbitread(fid, 2000, r);
        {
            int pos = 0;
            while (pos < nbits) {
                int w = 1 + rnd() % 32; uint32 v;
                if (rnd() % 4 == 0) w = 1 + rnd() % 3;
                if (w > nbits - pos) w = nbits - pos;
                if (Hbitread(bid, w, &v) != w) { printf("bitread fail\n"); fails++; break; }
                if (v != getbits(pos, w)) { printf("it=%d seq bit mismatch pos=%d w=%d\n", it, pos, w); fails++; break; }
                pos += w;
            }
        }
        /* seeks + reads */
        if (mode & 1)
        for (k = 0; k < 40; k++) {
            int pos = rnd() % nbits, j;
            if (Hbitseek(bid, pos / 8, pos % 8) == FAIL) { printf("bitseek fail\n"); fails++; break; }
            for (j = 0; j < 1 + (int)(rnd() % 600); j++) {
                int w = 1 + rnd() % 32; uint32 v;
                if (rnd() % 3 == 0) w = 1;
                if (w > nbits - pos) w = nbits - pos;
                if (w == 0) break;
                if (Hbitread(bid, w, &v) != w) { printf("bitread2 fail\n"); fails++; break; }
                if (v != getbits(pos, w)) { printf("it=%d seek bit mismatch pos=%d w=%d k=%d j=%d\n", it, pos, w, k, j); fails++; k = 100; break; }
                pos += w;
            }
        }
        Hendbitaccess(bid, 0);
        /* write-mode seeks: overwrite fields in the middle, then verify */
        if (mode & 2) {
            bid = Hstartbitwrite(fid, 2000, r, nbits / 8);
            for (k = 0; k < 30; k++) {
                int pos = rnd() % nbits, j;
                if (Hbitseek(bid, pos / 8, pos % 8) == FAIL) { printf("bitseek(w) fail\n"); fails++; break; }
                for (j = 0; j < 1 + (int)(rnd() % 300); j++) {
                    int w = 1 + rnd() % 32, i; uint32 v = rnd() ^ (rnd() << 16);
                    if (w > nbits - pos) w = nbits - pos;
                    if (w == 0) break;
                    if (w < 32) v &= ((1u << w) - 1);
                    if (Hbitwrite(bid, w, v) != w) { printf("bitwrite2 fail\n"); fails++; break; }
                    for (i = 0; i < w; i++) ref[pos + i] = (v >> (w - 1 - i)) & 1;
                    pos += w;
                }
            }
            Hendbitaccess(bid, 0);
            if (Hlength(fid, 2000, r) != nbits / 8 && Hlength(fid, 2000, r) != (nbits/8 + 4095)/4096*4096) { printf("it=%d length(2) %d != %d\n", it, (int)Hlength(fid, 2000, r), nbits / 8); fails++; }
            bid = Hstartbitread(fid, 2000, r);
            {
                int pos = 0;
                while (pos < nbits) {
                    int w = 1 + rnd() % 32; uint32 v;
                    if (w > nbits - pos) w = nbits - pos;
                    if (Hbitread(bid, w, &v) != w) { printf("bitread3 fail\n"); fails++; break; }
                    if (v != getbits(pos, w)) { printf("it=%d overwrite bit mismatch pos=%d w=%d nbits=%d\n", it, pos, w, nbits); fails++; break; }
                    pos += w;
                }
            }
            Hendbitaccess(bid, 0);
        }
    }
    Hclose(fid);
    printf("bfails=%d\n", fails);
    return fails ? 1 : 0;
}
