/* Baseline observation (UNMODIFIED tree): adding a new unlimited-dimension SDS with more
 * records than an existing unlimited SDS makes SDend overwrite the OLD dimension's "Values"
 * Vdata in place (3 -> 5) before any descriptor is flushed (hdf_cdf_clobber -> hdf_close,
 * NC_NDIRTY branch, VSseek(0)/VSwrite(handle->numrecs)).
 * build: cc -g -I/tmp/wt/R4C17/hdf/src -I/tmp/wt/R4C17/mfhdf/src -I/tmp/wt/R4C17/_build unlimited_dim_inplace.c -o u \
 *        /tmp/wt/R4C17/_build/bin/libmfhdf.a /tmp/wt/R4C17/_build/bin/libhdf.a -ljpeg -lz -lm
 * exit 1 = an old Vdata's stored bytes were changed in place before the DD flush */
#define _GNU_SOURCE
#include <dlfcn.h>
#include <stdio.h>
#include <stdlib.h>
#include <string.h>
#include "hdf.h"
#include "mfhdf.h"
#define FN "u_base.hdf"
static int recording, seen_dd, bad;
static unsigned char *orig; static long origlen;
size_t fwrite(const void *p, size_t sz, size_t n, FILE *f)
{
    static size_t (*real)(const void *, size_t, size_t, FILE *);
    if (!real) real = (size_t(*)(const void *, size_t, size_t, FILE *))dlsym(RTLD_NEXT, "fwrite");
    if (recording && f != stdout && f != stderr) {
        long off = ftell(f);
        if (off < 4 + 6 + 12 * 200) seen_dd = 1; /* SD files: first DD block has 200 slots */
        else if (!seen_dd && off + (long)(sz * n) <= origlen - 1 && memcmp(orig + off, p, sz * n)) {
            size_t i;
            printf("pre-flush write at offset %ld (%zu bytes) changes stored bytes:", off, sz * n);
            for (i = 0; i < sz * n && i < 8; i++) printf(" %02x", orig[off + i]);
            printf(" ->");
            for (i = 0; i < sz * n && i < 8; i++) printf(" %02x", ((const unsigned char *)p)[i]);
            printf("\n");
            bad = 1;
        }
    }
    return real(p, sz, n, f);
}
int main(void)
{
    int32 sd, sds, start[2] = {0, 0}, data[12] = {0};
    int32 d1[2] = {SD_UNLIMITED, 4}, e1[2] = {3, 4}, d2[2] = {SD_UNLIMITED, 2}, e2[2] = {5, 2};
    FILE *f;
    sd = SDstart(FN, DFACC_CREATE);
    sds = SDcreate(sd, "oldu", DFNT_INT32, 2, d1);
    SDwritedata(sds, start, NULL, e1, data); SDendaccess(sds); SDend(sd);
    f = fopen(FN, "rb"); fseek(f, 0, SEEK_END); origlen = ftell(f); rewind(f);
    orig = malloc(origlen); fread(orig, 1, origlen, f); fclose(f);
    recording = 1;
    sd = SDstart(FN, DFACC_RDWR);
    sds = SDcreate(sd, "newu", DFNT_INT32, 2, d2);
    SDwritedata(sds, start, NULL, e2, data); SDendaccess(sds); SDend(sd);
    recording = 0;
    remove(FN);
    return bad;
}
