/* baseline observation: NO_INTERLACE storage + more than one VSwrite (or a read
 * whose record range differs from the write batches, or any VSseek) */
#include <stdio.h>
#include <string.h>
#include "hdf.h"
int main(void)
{
    int32 fid, vs, ref, i; int bad = 0;
    struct { int32 a; int16 b; } in[8];
    uint8 buf[8 * 6], out[8 * 6];
    fid = Hopen("obs_nointerlace.hdf", DFACC_CREATE, 0); Vstart(fid);
    vs = VSattach(fid, -1, "w");
    VSfdefine(vs, "A", DFNT_INT32, 1); VSfdefine(vs, "B", DFNT_INT16, 1);
    VSsetinterlace(vs, NO_INTERLACE);
    VSsetfields(vs, "A,B");
    for (i = 0; i < 8; i++) { in[i].a = 100 + i; in[i].b = (int16)(-i); memcpy(buf + 6 * i, &in[i].a, 4); memcpy(buf + 6 * i + 4, &in[i].b, 2); }
    VSwrite(vs, buf, 4, FULL_INTERLACE);           /* records 0..3 */
    VSwrite(vs, buf + 24, 4, FULL_INTERLACE);      /* records 4..7 */
    ref = VSQueryref(vs); VSdetach(vs);
    vs = VSattach(fid, ref, "r"); VSsetfields(vs, "A,B");
    printf("VSelts=%d\n", (int)VSelts(vs));
    VSread(vs, out, 8, FULL_INTERLACE);            /* all 8 in one call */
    for (i = 0; i < 8; i++) { int32 a; int16 b; memcpy(&a, out + 6 * i, 4); memcpy(&b, out + 6 * i + 4, 2);
        if (a != in[i].a || b != in[i].b) { printf("rec %d: read A=%d B=%d, written A=%d B=%d\n", i, a, b, in[i].a, in[i].b); bad = 1; } }
    VSseek(vs, 1); VSread(vs, out, 1, FULL_INTERLACE);
    { int32 a; memcpy(&a, out, 4); if (a != in[1].a) { printf("seek(1): read A=%d written %d\n", a, in[1].a); bad = 1; } }
    VSdetach(vs); Vend(fid); Hclose(fid);
    return bad;
}
