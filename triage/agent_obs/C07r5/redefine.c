/* baseline observation: VSfdefine of an existing name that changes only the type
 * OR only the order returns SUCCEED but the first definition stays in force */
#include <stdio.h>
#include "hdf.h"
int main(void)
{
    int32 fid, vs; int bad = 0;
    fid = Hopen("obs_redefine.hdf", DFACC_CREATE, 0); Vstart(fid);
    vs = VSattach(fid, -1, "w");
    printf("define A int32 x1 -> %d\n", VSfdefine(vs, "A", DFNT_INT32, 1));
    printf("define A int32 x3 -> %d\n", VSfdefine(vs, "A", DFNT_INT32, 3));
    VSsetfields(vs, "A");
    printf("order of A = %d, record size = %d\n", (int)VFfieldorder(vs, 0), (int)VSsizeof(vs, "A"));
    if (VFfieldorder(vs, 0) != 3) bad = 1;
    VSdetach(vs); Vend(fid); Hclose(fid);
    return bad;
}
