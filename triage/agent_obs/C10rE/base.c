#include "mfhdf.h"
#include <stdio.h>
#include <string.h>
#include <stdlib.h>
int main(void){
  int32 sd, sds, dim, dims[2]={4,5}; char name[300]; int32 nt,cnt,sz,na; char l[100],u[100],f[100];
  /* B1 long attr name */
  sd=SDstart("b1.hdf",DFACC_CREATE); sds=SDcreate(sd,"A",DFNT_INT32,2,dims);
  char ln[80]; memset(ln,'n',70); ln[70]=0; int32 v=7;
  printf("B1 set=%d\n",SDsetattr(sds,ln,DFNT_INT32,1,&v));
  SDendaccess(sds); SDend(sd);
  sd=SDstart("b1.hdf",DFACC_READ); sds=SDselect(sd,0);
  SDattrinfo(sds,0,name,&nt,&cnt); printf("B1 name len after reopen=%zu find=%d\n",strlen(name),SDfindattr(sds,ln));
  SDendaccess(sds); SDend(sd);
  /* B2 dimstrs then rename */
  sd=SDstart("b2.hdf",DFACC_CREATE); sds=SDcreate(sd,"A",DFNT_INT32,2,dims);
  dim=SDgetdimid(sds,0); SDsetdimstrs(dim,"lbl","unit","fmt"); SDsetdimname(dim,"newname");
  l[0]=0; printf("B2 get=%d ",SDgetdimstrs(dim,l,u,f,100)); printf("label='%s'\n",l);
  SDendaccess(sds); SDend(sd);
  /* B3 fakeDimension */
  sd=SDstart("b3.hdf",DFACC_CREATE); sds=SDcreate(sd,"A",DFNT_INT32,2,dims);
  dim=SDgetdimid(sds,1); SDsetdimname(dim,"fakeDimension");
  SDendaccess(sds); SDend(sd);
  sd=SDstart("b3.hdf",DFACC_READ); sds=SDselect(sd,0); dim=SDgetdimid(sds,1);
  SDdiminfo(dim,name,&sz,&nt,&na); printf("B3 name after reopen='%s'\n",name);
  SDendaccess(sds); SDend(sd);
  /* B5 fakeDim numbering with shared dims + attrs */
  { int32 d1[1]={4}; int32 s2;
  sd=SDstart("b5.hdf",DFACC_CREATE); sds=SDcreate(sd,"A",DFNT_INT32,2,dims);
  dim=SDgetdimid(sds,0); SDsetdimname(dim,"X");
  { int32 d2[2]={4,6}; s2=SDcreate(sd,"B",DFNT_INT32,2,d2);}
  dim=SDgetdimid(s2,0); SDsetdimname(dim,"X");
  dim=SDgetdimid(s2,1); SDdiminfo(dim,name,&sz,&nt,&na); printf("B5 dim name before='%s'\n",name);
  SDsetdimstrs(dim,"lbl6","u6","f6");
  SDendaccess(sds); SDendaccess(s2); SDend(sd);
  sd=SDstart("b5.hdf",DFACC_READ); s2=SDselect(sd,SDnametoindex(sd,"B")); dim=SDgetdimid(s2,1);
  SDdiminfo(dim,name,&sz,&nt,&na); l[0]=0; SDgetdimstrs(dim,l,u,f,100); printf("B5 after reopen name='%s' size=%d label='%s'\n",name,(int)sz,l);
  SDendaccess(s2); SDend(sd); }
  /* B4 GR attr shrink */
  { int32 fid=Hopen("b4.hdf",DFACC_CREATE,0), gr=GRstart(fid); int32 a[5]={1,2,3,4,5}, b[2]={9,8};
    GRsetattr(gr,"ga",DFNT_INT32,5,a); GRend(gr); Hclose(fid);
    fid=Hopen("b4.hdf",DFACC_RDWR,0); gr=GRstart(fid); printf("B4 reset=%d\n",GRsetattr(gr,"ga",DFNT_INT32,2,b));
    GRattrinfo(gr,0,name,&nt,&cnt); printf("B4 count in session=%d\n",(int)cnt);
    GRend(gr); Hclose(fid);
    fid=Hopen("b4.hdf",DFACC_READ,0); gr=GRstart(fid); GRattrinfo(gr,0,name,&nt,&cnt); printf("B4 count after reopen=%d\n",(int)cnt); GRend(gr); Hclose(fid);
  }
  return 0;
}
