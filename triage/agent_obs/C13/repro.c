/* Baseline (unmodified tree) observations for C13; prints findings, exit code = number found */
#include <stdio.h>
#include <string.h>
#include "hdf.h"
#include "mfhdf.h"

int main(void)
{
    int found = 0;
    /* --- B1: VSdetach on a vdata attached twice for 'r' leaves the released id valid --- */
    {
        int32 f = Hopen("b1.hdf", DFACC_CREATE, 0), vs, k1, k2, ref;
        int32 v = 42;
        Vstart(f);
        vs = VSattach(f, -1, "w");
        VSfdefine(vs, "x", DFNT_INT32, 1); VSsetfields(vs, "x"); VSsetname(vs, "d");
        VSwrite(vs, (uint8 *)&v, 1, FULL_INTERLACE);
        ref = VSQueryref(vs);
        VSdetach(vs);
        k1 = VSattach(f, ref, "r");
        k2 = VSattach(f, ref, "r");
        printf("B1: k1=%d k2=%d VSdetach(k1)=%d ", (int)k1, (int)k2, (int)VSdetach(k1));
        {
            int32 n = -1;
            int   r = VSinquire(k1, &n, NULL, NULL, NULL, NULL);
            printf("VSinquire(stale k1)=%d n=%d\n", r, (int)n);
            if (r != FAIL) { found++; printf("   -> stale vdata id still accepted\n"); }
        }
        VSdetach(k2);
        Vend(f); Hclose(f);
    }
    /* --- B2: GRend of one of two GRstart ids leaves it valid --- */
    {
        int32 f = Hopen("b2.hdf", DFACC_CREATE, 0), g1, g2, nd = -1, na = -1;
        int   r;
        g1 = GRstart(f); g2 = GRstart(f);
        printf("B2: g1=%d g2=%d GRend(g1)=%d ", (int)g1, (int)g2, (int)GRend(g1));
        r = GRfileinfo(g1, &nd, &na);
        printf("GRfileinfo(stale g1)=%d\n", r);
        if (r != FAIL) { found++; printf("   -> stale GR id still accepted\n"); }
        GRend(g2);
        Hclose(f);
    }
    /* --- B3: SDreset_maxopenfiles compacts the table and re-maps live ids --- */
    {
        int32 s0 = SDstart("b3_0.hdf", DFACC_CREATE), s1 = SDstart("b3_1.hdf", DFACC_CREATE),
              s2 = SDstart("b3_2.hdf", DFACC_CREATE);
        int32 dims[1] = {3}, nd = -1, na = -1;
        int   r;
        SDcreate(s2, "only_in_file2", DFNT_INT32, 1, dims);
        SDend(s1);
        printf("B3: SDreset_maxopenfiles(40)=%d ", (int)SDreset_maxopenfiles(40));
        r = SDfileinfo(s2, &nd, &na);
        printf("SDfileinfo(valid s2)=%d nd=%d; ", r, (int)nd);
        if (r == FAIL) { found++; }
        nd = -1;
        r = SDfileinfo(s1, &nd, &na);
        printf("SDfileinfo(stale s1)=%d nd=%d\n", r, (int)nd);
        if (r != FAIL) { found++; printf("   -> stale SD id now designates file 2 / valid id rejected\n"); }
        SDend(s0); SDend(s2); SDend(s1);
    }
    return found;
}
