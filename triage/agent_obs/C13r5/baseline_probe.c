#include <stdio.h>
#include <string.h>
#include <unistd.h>
#include <sys/wait.h>
#include "hdf.h"
#include "mfhdf.h"

static void mk(const char *n){ int32 sd=SDstart(n,DFACC_CREATE); int32 d[1]={4}; int32 s=SDcreate(sd,"x",DFNT_INT32,1,d); SDendaccess(s); SDend(sd);}    

static int t_sd(void){
    mk("pa.hdf"); mk("pb.hdf"); mk("pc.hdf");
    int32 a=SDstart("pa.hdf",DFACC_READ), b=SDstart("pb.hdf",DFACC_READ), c=SDstart("pc.hdf",DFACC_READ);
    printf("ids %d %d %d\n",a,b,c);
    printf("end b %d\n",SDend(b)); printf("end c %d\n",SDend(c)); printf("end a %d\n",SDend(a));
    fflush(stdout);
    printf("select stale b -> %d\n", SDselect(b,0)); fflush(stdout);
    return 0;
}
static int t_gr(void){
    int32 f=Hopen("pg.hdf",DFACC_CREATE,0);
    int32 g1=GRstart(f), g2=GRstart(f);
    printf("g1 %d g2 %d\n",g1,g2);
    printf("GRend g1 %d\n",GRend(g1));
    int32 n,na; printf("GRfileinfo stale g1 -> %d\n",GRfileinfo(g1,&n,&na));
    printf("GRend g1 again %d\n",GRend(g1)); fflush(stdout);
    printf("GRfileinfo g2 -> %d\n",GRfileinfo(g2,&n,&na)); fflush(stdout);
    return 0;
}
static int t_vs(void){
    int32 f=Hopen("pv.hdf",DFACC_CREATE,0); Vstart(f);
    int32 v=VSattach(f,-1,"w"); VSfdefine(v,"a",DFNT_INT32,1); VSsetfields(v,"a"); int32 x[2]={1,2}; VSwrite(v,(uint8*)x,2,FULL_INTERLACE); int32 ref=VSQueryref(v); VSdetach(v);
    int32 v1=VSattach(f,ref,"r"), v2=VSattach(f,ref,"r");
    printf("v1 %d v2 %d\n",v1,v2);
    printf("detach v1 %d\n",VSdetach(v1));
    int32 n; printf("VSelts stale v1 -> %d\n",VSelts(v1));
    printf("detach v1 again %d\n",VSdetach(v1));
    VSsetfields(v2,"a");
    printf("VSread v2 -> %d\n",VSread(v2,(uint8*)x,1,FULL_INTERLACE)); fflush(stdout);
    return 0;
}
static int t_nested_close(void){
    int32 f=Hopen("pn.hdf",DFACC_CREATE,0); uint8 b[4]={1,2,3,4}; Hputelement(f,1000,1,b,4); Hclose(f);
    int32 f1=Hopen("pn.hdf",DFACC_READ,0), f2=Hopen("pn.hdf",DFACC_READ,0);
    int32 aid=Hstartread(f1,1000,1);
    printf("Hclose f1 with aid via f1 (f2 open): %d\n",Hclose(f1));
    printf("Hread aid -> %d\n",Hread(aid,4,b));
    printf("Hendaccess aid -> %d\n",Hendaccess(aid));
    printf("Hclose f2 -> %d\n",Hclose(f2)); fflush(stdout);
    return 0;
}
static int t_upgrade(void){
    int32 f=Hopen("pu.hdf",DFACC_CREATE,0); uint8 b[4]={1,2,3,4}; Hputelement(f,1000,1,b,4); Hclose(f);
    int32 f1=Hopen("pu.hdf",DFACC_READ,0), f2=Hopen("pu.hdf",DFACC_WRITE,0);
    printf("f1 %d f2 %d\n",f1,f2);
    printf("put via f2 -> %d\n",Hputelement(f2,1000,2,b,4));
    printf("put via f1 -> %d\n",Hputelement(f1,1000,3,b,4));
    printf("close %d %d\n",Hclose(f2),Hclose(f1));
    return 0;
}
int main(void){
    int (*t[])(void)={t_sd,t_gr,t_vs,t_nested_close,t_upgrade}; const char *nm[]={"sd","gr","vs","nested_close","upgrade"};
    for(int i=0;i<5;i++){ printf("=== %s\n",nm[i]); fflush(stdout); pid_t p=fork(); if(!p){ t[i](); fflush(stdout); _exit(0);} int st; waitpid(p,&st,0); if(WIFSIGNALED(st)) printf("CRASH signal %d\n",WTERMSIG(st)); }
    return 0;
}
