/* Baseline observation (NOT a seeded change): DFKnb8b/DFKnb4b compute the
 * memcpy length as uint32 (num_elm * 8 / num_elm * 4), which wraps for
 * num_elm >= 2^29 (8-byte types) / 2^30 (4-byte types).  DFKconvert then
 * returns success without having converted (copied) anything. */
#include <stdio.h>
#include <string.h>
#include <sys/mman.h>
#include "hdf.h"
int main(void)
{
    int32  n  = (int32)1 << 29; /* 2^29 float64 = 4 GiB */
    size_t sz = (size_t)n * 8;
    uint8 *src = mmap(NULL, sz, PROT_READ | PROT_WRITE, MAP_PRIVATE | MAP_ANONYMOUS | MAP_NORESERVE, -1, 0);
    uint8 *dst = mmap(NULL, sz, PROT_READ | PROT_WRITE, MAP_PRIVATE | MAP_ANONYMOUS | MAP_NORESERVE, -1, 0);
    double v = 1.0, got = 0;
    int32  nts[2] = {DFNT_FLOAT64, DFNT_NFLOAT64};
    int    i, bad = 0;
    if (src == MAP_FAILED || dst == MAP_FAILED) return 2;
    memcpy(src, &v, 8);
    memcpy(src + sz - 8, &v, 8);
    for (i = 0; i < 2; i++) {
        int32 r;
        memset(dst, 0, 8); memset(dst + sz - 8, 0, 8);
        r = DFKconvert(src, dst, nts[i], n, DFACC_WRITE, 0, 0);
        printf("nt=%d ret=%d first8=%02x%02x.. last8=%02x%02x..\n", (int)nts[i], (int)r, dst[0], dst[1], dst[sz-8], dst[sz-7]);
        if (r == 0 && dst[0] == 0 && dst[1] == 0 && dst[6]==0 && dst[7]==0) { printf("  -> success returned but nothing converted\n"); bad = 1; }
    }
    (void)got;
    return bad;
}
