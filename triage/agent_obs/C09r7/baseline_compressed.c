#include <stdio.h>
#include <string.h>
#include "hdf.h"
int main(int argc,char**argv){
  int comp = argc>1?atoi(argv[1]):1;
  int second = argc>2?atoi(argv[2]):1;
  int32 fid=Hopen("t1.hdf",DFACC_CREATE,0), grid=GRstart(fid);
  int32 dims[2]={8,3}, st[2]={0,0}, cn[2]={6,1};
  int32 riid=GRcreate(grid,"img",1,DFNT_UINT8,0,dims);
  comp_info ci; memset(&ci,0,sizeof ci); ci.deflate.level=6; ci.skphuff.skp_size=1;
  uint8 a[24], b[24], r[24]; int i;
  for(i=0;i<24;i++){a[i]=100+i;b[i]=200+i;}
  if(comp) printf("setcompress %d\n",GRsetcompress(riid,comp==1?COMP_CODE_RLE:comp==2?COMP_CODE_DEFLATE:COMP_CODE_SKPHUFF,&ci));
  printf("w1 %d\n",GRwriteimage(riid,st,NULL,cn,a));
  if(second==1){ printf("w2 %d\n",GRwriteimage(riid,st,NULL,dims,b)); }
  if(second==2){ int32 s2[2]={2,1}, c2[2]={3,2}; printf("w2 %d\n",GRwriteimage(riid,s2,NULL,c2,b)); HEprint(stdout,0);}
  memset(r,0xEE,24);
  printf("r %d\n",GRreadimage(riid,st,NULL,dims,r));
  for(i=0;i<24;i++)printf("%d ",r[i]); printf("\n");
  GRendaccess(riid);GRend(grid);Hclose(fid);
  fid=Hopen("t1.hdf",DFACC_READ,0); grid=GRstart(fid); riid=GRselect(grid,0);
  memset(r,0xEE,24);
  printf("r %d\n",GRreadimage(riid,st,NULL,dims,r));
  for(i=0;i<24;i++)printf("%d ",r[i]); printf("\n");
  GRendaccess(riid);GRend(grid);Hclose(fid);
  return 0;}
