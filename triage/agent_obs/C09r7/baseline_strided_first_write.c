#include <stdio.h>
#include <stdlib.h>
#include <string.h>
#include "hdf.h"
/* baseline: strided FIRST write into a new image whose last sampled row is not the last image row */
int main(void){
  int32 fid=Hopen("b1.hdf",DFACC_CREATE,0), grid=GRstart(fid);
  int32 dims[2]={4,8}, st[2]={0,0}, sd[2]={1,2}, cn[2]={4,3};
  int32 riid=GRcreate(grid,"img",1,DFNT_UINT8,MFGR_INTERLACE_PIXEL,dims);
  uint8 a[12], r[32], fv=9; int i, rc; GRsetattr(riid,FILL_ATTR,DFNT_UINT8,1,&fv);
  for(i=0;i<12;i++)a[i]=100+i;
  printf("strided first write rc=%d\n",GRwriteimage(riid,st,sd,cn,a));   /* rows 0,2,4 */
  GRendaccess(riid);GRend(grid);Hclose(fid);
  fid=Hopen("b1.hdf",DFACC_READ,0); grid=GRstart(fid); riid=GRselect(grid,0);
  memset(r,0xEE,32);
  rc=GRreadimage(riid,st,NULL,dims,r);
  printf("whole read rc=%d\n",rc);
  for(i=0;i<32;i++)printf("%d%s",r[i],(i%4==3)?"\n":" ");

  GRendaccess(riid);GRend(grid);Hclose(fid);
  return 0;}
