/* Randomised property harness for C09 (scratch; not a deliverable) */
#include <stdio.h>
#include <stdlib.h>
#include <string.h>
#include "hdf.h"

static unsigned long long rs = 88172645463325252ULL;
static unsigned
rnd(unsigned n)
{
    rs ^= rs << 13;
    rs ^= rs >> 7;
    rs ^= rs << 17;
    return (unsigned)((rs >> 11) % n);
}

static int nfail = 0;
static int verbose = 0;
#define FAILF(...)                                                                                           \
    do {                                                                                                     \
        nfail++;                                                                                             \
        printf("FAIL: " __VA_ARGS__);                                                                        \
        printf("\n");                                                                                        \
    } while (0)

static size_t
bufidx(int il, int cx, int cy, int C, int x, int y, int c)
{
    switch (il) {
        case MFGR_INTERLACE_PIXEL:
            return ((size_t)y * cx + x) * C + c;
        case MFGR_INTERLACE_LINE:
            return ((size_t)y * C + c) * cx + x;
        default:
            return ((size_t)c * cy + y) * cx + x;
    }
}

typedef struct {
    int    W, H, C, cs;
    int32  nt;
    uint8 *m; /* H*W*C*cs native bytes */
} model_t;

static void
gen_comp(uint8 *p, int32 nt, int cs)
{
    int i;
    int32 base = nt & ~DFNT_LITEND;
    if (base == DFNT_FLOAT32) {
        float f = (float)((int)rnd(200000) - 100000) / 8.0f;
        memcpy(p, &f, 4);
    }
    else if (base == DFNT_FLOAT64) {
        double d = (double)((int)rnd(2000000) - 1000000) / 16.0;
        memcpy(p, &d, 8);
    }
    else
        for (i = 0; i < cs; i++)
            p[i] = (uint8)rnd(256);
}

static int
check_read(int32 riid, model_t *M, int il, int sx, int sy, int stx, int sty, int cx, int cy, const char *ctx)
{
    int32  start[2], stride[2], count[2];
    size_t n   = (size_t)cx * cy * M->C * M->cs;
    uint8 *buf = malloc(n + 64);
    int    x, y, c, bad = 0;
    memset(buf, 0xA5, n + 64);
    start[0]  = sx;
    start[1]  = sy;
    stride[0] = stx;
    stride[1] = sty;
    count[0]  = cx;
    count[1]  = cy;
    if (GRreqimageil(riid, il) == FAIL) {
        FAILF("%s GRreqimageil", ctx);
        free(buf);
        return 1;
    }
    if (GRreadimage(riid, start, (stx == 1 && sty == 1 && rnd(2)) ? NULL : stride, count, buf) == FAIL) {
        FAILF("%s GRreadimage failed il=%d start=%d,%d stride=%d,%d count=%d,%d", ctx, il, sx, sy, stx, sty, cx,
              cy);
        free(buf);
        return 1;
    }
    for (y = 0; y < cy && !bad; y++)
        for (x = 0; x < cx && !bad; x++)
            for (c = 0; c < M->C; c++) {
                size_t bi = bufidx(il, cx, cy, M->C, x, y, c) * M->cs;
                size_t mi = (((size_t)(sy + y * sty) * M->W + (sx + x * stx)) * M->C + c) * M->cs;
                if (memcmp(buf + bi, M->m + mi, M->cs) != 0) {
                    FAILF("%s read mismatch il=%d start=%d,%d stride=%d,%d count=%d,%d at x=%d y=%d c=%d "
                          "(W=%d H=%d C=%d cs=%d)",
                          ctx, il, sx, sy, stx, sty, cx, cy, x, y, c, M->W, M->H, M->C, M->cs);
                    bad = 1;
                    break;
                }
            }
    {
        int i;
        for (i = 0; i < 64; i++)
            if (buf[n + i] != 0xA5) {
                FAILF("%s read overran buffer", ctx);
                bad = 1;
                break;
            }
    }
    free(buf);
    return bad;
}

static void
rand_region(int W, int H, int allow_stride, int *sx, int *sy, int *stx, int *sty, int *cx, int *cy)
{
    *stx = 1;
    *sty = 1;
    if (allow_stride && rnd(2)) {
        *stx = 1 + rnd(3);
        *sty = 1 + rnd(3);
    }
    *sx = rnd(W);
    *sy = rnd(H);
    *cx = 1 + rnd((W - 1 - *sx) / *stx + 1);
    *cy = 1 + rnd((H - 1 - *sy) / *sty + 1);
}

static void
reads(int32 riid, model_t *M, const char *ctx, int k)
{
    int i;
    for (i = 0; i < k; i++) {
        int sx, sy, stx, sty, cx, cy;
        int il = rnd(3);
        if (rnd(4) == 0) {
            sx = sy = 0;
            stx = sty = 1;
            cx        = M->W;
            cy        = M->H;
        }
        else
            rand_region(M->W, M->H, 1, &sx, &sy, &stx, &sty, &cx, &cy);
        check_read(riid, M, il, sx, sy, stx, sty, cx, cy, ctx);
    }
}

static int
do_write(int32 riid, model_t *M, int il, int sx, int sy, int stx, int sty, int cx, int cy)
{
    int32  start[2], stride[2], count[2];
    size_t n   = (size_t)cx * cy * M->C * M->cs;
    uint8 *buf = malloc(n);
    int    x, y, c;
    for (y = 0; y < cy; y++)
        for (x = 0; x < cx; x++)
            for (c = 0; c < M->C; c++) {
                size_t bi = bufidx(il, cx, cy, M->C, x, y, c) * M->cs;
                size_t mi = (((size_t)(sy + y * sty) * M->W + (sx + x * stx)) * M->C + c) * M->cs;
                gen_comp(buf + bi, M->nt, M->cs);
                memcpy(M->m + mi, buf + bi, M->cs);
            }
    start[0]  = sx;
    start[1]  = sy;
    stride[0] = stx;
    stride[1] = sty;
    count[0]  = cx;
    count[1]  = cy;
    if (verbose)
        printf("  write il=%d start=%d,%d stride=%d,%d count=%d,%d\n", il, sx, sy, stx, sty, cx, cy);
    if (GRwriteimage(riid, start, (stx == 1 && sty == 1 && rnd(2)) ? NULL : stride, count, buf) == FAIL) {
        FAILF("GRwriteimage failed il=%d start=%d,%d stride=%d,%d count=%d,%d", il, sx, sy, stx, sty, cx, cy);
        HEprint(stdout, 0);
        free(buf);
        return 1;
    }
    free(buf);
    return 0;
}

static const int32 nts[] = {DFNT_UINT8,  DFNT_INT8,    DFNT_INT16,   DFNT_UINT16,
                            DFNT_INT32,  DFNT_FLOAT32, DFNT_FLOAT64, DFNT_UINT16,
                            DFNT_UINT32, DFNT_FLOAT32};

static void
one_case(int caseno, int stride_first)
{
    char    fname[64];
    model_t M;
    int32   fid, grid, riid, dims[2];
    int     cil, storage, fillset, i, x, y, c;
    uint8   fillv[64];
    char    ctx[128];
    int     nw;

    sprintf(fname, "h_%d.hdf", caseno);
    M.W     = 1 + rnd(12);
    M.H     = 1 + rnd(12);
    M.C     = 1 + rnd(5);
    M.nt    = nts[rnd(sizeof(nts) / sizeof(nts[0]))];
    M.cs    = DFKNTsize(M.nt | DFNT_NATIVE);
    M.m     = malloc((size_t)M.W * M.H * M.C * M.cs);
    cil     = rnd(3);
    storage = rnd(6); /* 0 plain,1 RLE,2 deflate,3 skphuff,4 chunk,5 chunk+deflate */
    fillset = rnd(2);
    if (verbose)
        printf("case %d: W=%d H=%d C=%d nt=%d cil=%d storage=%d fillset=%d\n", caseno, M.W, M.H, M.C,
               (int)M.nt, cil, storage, fillset);

    fid  = Hopen(fname, DFACC_CREATE, 0);
    grid = GRstart(fid);
    dims[0] = M.W;
    dims[1] = M.H;
    riid    = GRcreate(grid, "img", M.C, M.nt, cil, dims);
    if (riid == FAIL) {
        FAILF("GRcreate");
        return;
    }
    memset(fillv, 0, sizeof(fillv));
    if (fillset) {
        for (c = 0; c < M.C; c++)
            gen_comp(fillv + c * M.cs, M.nt, M.cs);
        if (GRsetattr(riid, FILL_ATTR, M.nt, M.C, fillv) == FAIL)
            FAILF("GRsetattr fill");
    }
    for (y = 0; y < M.H; y++)
        for (x = 0; x < M.W; x++)
            memcpy(M.m + ((size_t)y * M.W + x) * M.C * M.cs, fillv, (size_t)M.C * M.cs);

    if (storage >= 1 && storage <= 3) {
        comp_info ci;
        memset(&ci, 0, sizeof(ci));
        if (storage == 2)
            ci.deflate.level = 1 + rnd(9);
        if (storage == 3)
            ci.skphuff.skp_size = M.cs;
        if (GRsetcompress(riid, storage == 1 ? COMP_CODE_RLE : storage == 2 ? COMP_CODE_DEFLATE : COMP_CODE_SKPHUFF,
                          &ci) == FAIL)
            FAILF("GRsetcompress");
    }
    else if (storage >= 4) {
        HDF_CHUNK_DEF cd;
        memset(&cd, 0, sizeof(cd));
        if (storage == 4) {
            cd.chunk_lengths[0] = 1 + rnd(M.W);
            cd.chunk_lengths[1] = 1 + rnd(M.H);
            if (GRsetchunk(riid, cd, HDF_CHUNK) == FAIL)
                FAILF("GRsetchunk");
        }
        else {
            cd.comp.chunk_lengths[0]    = 1 + rnd(M.W);
            cd.comp.chunk_lengths[1]    = 1 + rnd(M.H);
            cd.comp.comp_type           = COMP_CODE_DEFLATE;
            cd.comp.cinfo.deflate.level = 6;
            if (GRsetchunk(riid, cd, HDF_CHUNK | HDF_COMP) == FAIL)
                FAILF("GRsetchunk comp");
        }
    }

    /* optionally read before anything written: must be fill */
    if (rnd(3) == 0 && storage == 0) {
        sprintf(ctx, "case %d unwritten", caseno);
        reads(riid, &M, ctx, 2);
    }

    nw = 1 + rnd(4);
    if (storage >= 1 && storage <= 3)
        nw = 1;
    for (i = 0; i < nw; i++) {
        int sx, sy, stx, sty, cx, cy;
        if (rnd(5) == 0) {
            sx = sy = 0;
            stx = sty = 1;
            cx        = M.W;
            cy        = M.H;
        }
        else
            rand_region(M.W, M.H, (i > 0) || stride_first, &sx, &sy, &stx, &sty, &cx, &cy);
        if (do_write(riid, &M, cil, sx, sy, stx, sty, cx, cy))
            goto out;
        if (rnd(2) && !(storage >= 1 && storage <= 3)) {
            sprintf(ctx, "case %d after write %d (same session)", caseno, i);
            reads(riid, &M, ctx, 2);
        }
        if (rnd(3) == 0 && !(storage >= 1 && storage <= 3)) {
            /* close and reopen in between */
            GRendaccess(riid);
            if (rnd(2)) {
                GRend(grid);
                Hclose(fid);
                fid  = Hopen(fname, DFACC_RDWR, 0);
                grid = GRstart(fid);
            }
            riid = GRselect(grid, GRnametoindex(grid, "img"));
            if (riid == FAIL) {
                FAILF("case %d reselect", caseno);
                goto out;
            }
            {
                int32 il2;
                GRgetiminfo(riid, NULL, NULL, NULL, &il2, NULL, NULL);
                cil = il2; /* interlace is stored as PIXEL on disk by design */
            }
        }
    }
    sprintf(ctx, "case %d same-session", caseno);
    if (!(storage >= 1 && storage <= 3))
        reads(riid, &M, ctx, 4);
    GRendaccess(riid);
    GRend(grid);
    Hclose(fid);

    fid  = Hopen(fname, DFACC_READ, 0);
    grid = GRstart(fid);
    {
        int32 idx = GRnametoindex(grid, "img");
        int32 nc, nt, il, d[2], na;
        char  nm[256];
        riid = GRselect(grid, idx);
        if (riid == FAIL) {
            FAILF("case %d select after reopen", caseno);
            goto out;
        }
        GRgetiminfo(riid, nm, &nc, &nt, &il, d, &na);
        if (nc != M.C || nt != M.nt || d[0] != M.W || d[1] != M.H)
            FAILF("case %d iminfo after reopen nc=%d nt=%d il=%d d=%d,%d", caseno, (int)nc, (int)nt, (int)il,
                  (int)d[0], (int)d[1]);
        if (GRreftoindex(grid, GRidtoref(riid)) != idx)
            FAILF("case %d reftoindex", caseno);
    }
    sprintf(ctx, "case %d reopened", caseno);
    reads(riid, &M, ctx, 6);
out:
    GRendaccess(riid);
    GRend(grid);
    Hclose(fid);
    free(M.m);
    remove(fname);
}

static void
lut_case(int caseno)
{
    char  fname[64];
    int32 fid, grid, riid, lutid, dims[2] = {5, 4};
    uint8 pal[768], rd[768 + 16], img[20 * 3];
    int   i, il, j, c;
    int32 nc, nt, pil, ne;
    int   withimg = rnd(2);
    sprintf(fname, "l_%d.hdf", caseno);
    fid  = Hopen(fname, DFACC_CREATE, 0);
    grid = GRstart(fid);
    riid = GRcreate(grid, "pimg", 1 + rnd(3), DFNT_UINT8, rnd(3), dims);
    for (i = 0; i < 768; i++)
        pal[i] = (uint8)rnd(256);
    memset(img, 7, sizeof(img));
    if (withimg && rnd(2))
        GRwriteimage(riid, (int32[]){0, 0}, NULL, dims, img);
    lutid = GRgetlutid(riid, 0);
    if (GRwritelut(lutid, 3, DFNT_UINT8, MFGR_INTERLACE_PIXEL, 256, pal) == FAIL)
        FAILF("lut %d GRwritelut", caseno);
    if (withimg && rnd(2))
        GRwriteimage(riid, (int32[]){0, 0}, NULL, dims, img);
    if (rnd(2)) {
        for (i = 0; i < 768; i++)
            pal[i] = (uint8)rnd(256);
        if (GRwritelut(lutid, 3, DFNT_UINT8, MFGR_INTERLACE_PIXEL, 256, pal) == FAIL)
            FAILF("lut %d GRwritelut 2", caseno);
    }
    for (j = 0; j < 2; j++) {
        if (j == 1) {
            GRendaccess(riid);
            GRend(grid);
            Hclose(fid);
            fid   = Hopen(fname, DFACC_READ, 0);
            grid  = GRstart(fid);
            riid  = GRselect(grid, GRnametoindex(grid, "pimg"));
            lutid = GRgetlutid(riid, 0);
        }
        if (GRgetlutinfo(lutid, &nc, &nt, &pil, &ne) == FAIL || nc != 3 || (nt != DFNT_UINT8 && nt != DFNT_UCHAR8) || ne != 256 ||
            pil != MFGR_INTERLACE_PIXEL)
            FAILF("lut %d pass %d lutinfo nc=%d nt=%d il=%d ne=%d", caseno, j, (int)nc, (int)nt, (int)pil,
                  (int)ne);
        if (GRluttoref(lutid) == 0)
            FAILF("lut %d pass %d luttoref 0", caseno, j);
        for (il = 0; il < 3; il++) {
            int bad = 0;
            memset(rd, 0xA5, sizeof(rd));
            GRreqlutil(lutid, il);
            if (GRreadlut(lutid, rd) == FAIL) {
                FAILF("lut %d readlut", caseno);
                continue;
            }
            for (i = 0; i < 256 && !bad; i++)
                for (c = 0; c < 3; c++) {
                    /* LUT is a 256-entry "image" of width 256? entries x comps */
                    size_t bi = (il == MFGR_INTERLACE_PIXEL) ? (size_t)i * 3 + c : (size_t)c * 256 + i;
                    if (il == MFGR_INTERLACE_LINE)
                        bi = (size_t)i * 3 + c; /* library treats LUT as 256 lines of 1 entry */
                    if (rd[bi] != pal[i * 3 + c]) {
                        FAILF("lut %d pass %d il=%d mismatch entry %d comp %d", caseno, j, il, i, c);
                        bad = 1;
                        break;
                    }
                }
        }
    }
    GRendaccess(riid);
    GRend(grid);
    Hclose(fid);
    remove(fname);
}

int
main(int argc, char **argv)
{
    int n = argc > 1 ? atoi(argv[1]) : 300;
    int stride_first = argc > 2 ? atoi(argv[2]) : 0;
    int i;
    verbose = argc > 3;
    for (i = 0; i < n; i++) {
        one_case(i, stride_first);
        if (nfail > 20)
            break;
    }
    for (i = 0; i < 10 && nfail <= 20; i++)
        lut_case(i);
    printf("harness: %d failures\n", nfail);
    return nfail ? 1 : 0;
}
