#include <stdio.h>
#include <stdlib.h>
#include <string.h>
#include "hdf.h"
/* baseline: little-endian number type */
int main(void){
  int32 fid=Hopen("b3.hdf",DFACC_CREATE,0), grid=GRstart(fid);
  int32 dims[2]={3,2}, st[2]={0,0};
  int32 riid=GRcreate(grid,"img",2,DFNT_UINT16|DFNT_LITEND,MFGR_INTERLACE_PIXEL,dims);
  uint16 a[12], r[12]; int i, il;
  for(i=0;i<12;i++)a[i]=0x0100+i;
  printf("write rc=%d\n",GRwriteimage(riid,st,NULL,dims,a));
  for(il=0;il<3;il++){ memset(r,0xEE,sizeof r); GRreqimageil(riid,il);
    printf("il=%d read rc=%d:",il,GRreadimage(riid,st,NULL,dims,r));
    for(i=0;i<12;i++)printf(" %04x",r[i]); printf("\n");}
  GRendaccess(riid);GRend(grid);Hclose(fid);
  fid=Hopen("b3.hdf",DFACC_READ,0); grid=GRstart(fid); riid=GRselect(grid,0);
  { int32 nt; GRgetiminfo(riid,NULL,NULL,&nt,NULL,NULL,NULL); printf("nt after reopen=%d (created %d)\n",(int)nt,(int)(DFNT_UINT16|DFNT_LITEND)); }
  memset(r,0xEE,sizeof r);
  printf("reopen read rc=%d:",GRreadimage(riid,st,NULL,dims,r));
  for(i=0;i<12;i++)printf(" %04x",r[i]); printf("\n");
  GRendaccess(riid);GRend(grid);Hclose(fid);
  return 0;}
