#include <stdio.h>
#include <stdlib.h>
#include <string.h>
#include <sys/wait.h>
#include "hdf.h"
#include "mfhdf.h"
#define BIN "/tmp/wt/R3C19/_build/bin/"
static int sh(const char *c){int st=system(c);return WIFEXITED(st)?WEXITSTATUS(st):-99;}

/* B1: big SDS (>=1MiB) difference in first hyperslab */
static void big(const char *f, int mut){
  int32 sd=SDstart(f,DFACC_CREATE); int32 dims[1]={300000}; int32 s=SDcreate(sd,"big",DFNT_INT32,1,dims);
  int32 *b=calloc(300000,4); int i; for(i=0;i<300000;i++) b[i]=i; if(mut) b[5]+=1;
  int32 st[1]={0}; SDwritedata(s,st,NULL,dims,b); SDendaccess(s); SDend(sd); free(b);}
/* B2: 3-component image, last component of last pixel differs */
static void gr3(const char *f,int mut){
  int32 fid=Hopen(f,DFACC_CREATE,0),gr=GRstart(fid); int32 dims[2]={4,3},st[2]={0,0};
  int32 ri=GRcreate(gr,"rgb",3,DFNT_UINT8,MFGR_INTERLACE_PIXEL,dims); uint8 b[36]; int i; for(i=0;i<36;i++)b[i]=i;
  if(mut) b[35]++; GRwriteimage(ri,st,NULL,dims,b); GRendaccess(ri); GRend(gr); Hclose(fid);}
/* B4: extra SDS in second file */
static void extra(const char *f,int add){
  int32 sd=SDstart(f,DFACC_CREATE); int32 dims[1]={4},st[1]={0}; int32 v[4]={1,2,3,4};
  int32 s=SDcreate(sd,"a",DFNT_INT32,1,dims); SDwritedata(s,st,NULL,dims,v); SDendaccess(s);
  if(add){s=SDcreate(sd,"b",DFNT_INT32,1,dims); SDwritedata(s,st,NULL,dims,v); SDendaccess(s);} SDend(sd);}
/* B3: vdata with different number of records */
static void vd(const char *f,int n){
  int32 fid=Hopen(f,DFACC_CREATE,0); Vstart(fid); int32 v[10]={1,2,3,4,5,6,7,8,9,10};
  VHstoredata(fid,"fld",(uint8*)v,n,DFNT_INT32,"vd","cls"); Vend(fid); Hclose(fid);}
/* B5: NO_INTERLACE vdata, two fields */
static void vdni(const char *f){
  int32 fid=Hopen(f,DFACC_CREATE,0); Vstart(fid); int32 vs=VSattach(fid,-1,"w");
  VSsetname(vs,"ni"); VSfdefine(vs,"a",DFNT_INT32,1); VSfdefine(vs,"b",DFNT_INT32,1); VSsetfields(vs,"a,b");
  VSsetinterlace(vs,NO_INTERLACE);
  int32 buf[6]={1,2,3,101,102,103}; /* field-major buffer */
  VSwrite(vs,(uint8*)buf,3,NO_INTERLACE); VSdetach(vs); Vend(fid); Hclose(fid);}
/* B7: tiny float */
static void tiny(const char *f){
  int32 sd=SDstart(f,DFACC_CREATE); int32 dims[1]={3},st[1]={0}; float32 v[3]={1.5e-7f,2.5e-7f,123456792.0f};
  int32 s=SDcreate(sd,"t",DFNT_FLOAT32,1,dims); SDwritedata(s,st,NULL,dims,v); SDendaccess(s); SDend(sd);}
int main(void){
  big("b1a.hdf",0); big("b1b.hdf",1);
  printf("B1 big SDS first-slab diff: hdiff exit %d (want 1)\n", sh(BIN "hdiff b1a.hdf b1b.hdf >/dev/null"));
  gr3("b2a.hdf",0); gr3("b2b.hdf",1);
  printf("B2 3-comp image last value diff: hdiff exit %d (want 1)\n", sh(BIN "hdiff b2a.hdf b2b.hdf >/dev/null"));
  extra("b4a.hdf",0); extra("b4b.hdf",1);
  printf("B4 added SDS: hdiff exit %d (want 1)\n", sh(BIN "hdiff b4a.hdf b4b.hdf >/dev/null"));
  vd("b3a.hdf",5); vd("b3b.hdf",6);
  printf("B3 vdata extra record: hdiff exit %d (want 1)\n", sh(BIN "hdiff b3a.hdf b3b.hdf >/dev/null"));
  vdni("b5.hdf"); printf("B5 NO_INTERLACE vdata dump (records should be 1 101 / 2 102 / 3 103):\n"); fflush(stdout);
  sh(BIN "hdp dumpvd -d b5.hdf");
  tiny("b7.hdf"); printf("B7 tiny floats 1.5e-7 2.5e-7 123456792:\n"); fflush(stdout); sh(BIN "hdp dumpsds -d b7.hdf");
  return 0;}
