/* baseline observation: SDstart copies a dimension Vgroup's name into a 256-byte stack buffer (cdf.c
 * hdf_read_dims: char vgname[H4_MAX_NC_NAME]; Vinquire(dim,&entries,vgname) -> unbounded strcpy) */
#include <stdio.h>
#include <stdlib.h>
#include <string.h>
#include "hdf.h"
#include "mfhdf.h"
int main(int argc, char **argv)
{
    int   len = argc > 1 ? atoi(argv[1]) : 2000;
    int32 sd, sds, dims[1] = {4}, fid, ref, vg;
    char *nm = malloc((size_t)len + 1), cls[200];
    memset(nm, 'N', (size_t)len); nm[len] = 0;

    sd  = SDstart("c20_dimname.hdf", DFACC_CREATE);
    sds = SDcreate(sd, "data", DFNT_INT32, 1, dims);
    if (len <= 256) { /* through the SD API itself */
        int32 dimid = SDgetdimid(sds, 0);
        printf("SDsetdimname(%d chars) = %d\n", len, (int)SDsetdimname(dimid, nm));
    }
    SDendaccess(sds); SDend(sd);

    if (len > 256) { /* through the V API: rename the Dim0.0 vgroup */
        fid = Hopen("c20_dimname.hdf", DFACC_RDWR, 0); Vstart(fid);
        ref = -1;
        while ((ref = Vgetid(fid, ref)) != FAIL) {
            uint16 cl = 0;
            vg = Vattach(fid, ref, "w");
            Vgetclassnamelen(vg, &cl);
            if (cl < sizeof(cls)) { Vgetclass(vg, cls); if (!strcmp(cls, "Dim0.0")) printf("Vsetname = %d\n", (int)Vsetname(vg, nm)); }
            Vdetach(vg);
        }
        Vend(fid); Hclose(fid);
    }
    sd = SDstart("c20_dimname.hdf", DFACC_READ);
    printf("SDstart = %d\n", (int)sd);
    if (sd != FAIL) SDend(sd);
    return 0;
}
