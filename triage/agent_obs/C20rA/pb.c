/* baseline finding: VSwrite computes record_size * nelt in int32 without a guard */
#include <stdio.h>
#include <string.h>
#include <sys/mman.h>
#include "hdf.h"
int main(void){
  int32 f=Hopen("pb.hdf",DFACC_CREATE,0); Vstart(f);
  int32 vs=VSattach(f,-1,"w");
  VSfdefine(vs,"big",DFNT_UINT8,65535); VSsetfields(vs,"big"); VSsetname(vs,"v");
  size_t n=65538; size_t sz=n*65535;   /* 65535*65538 = 2^32 + 65534 */
  void *buf=mmap(NULL,sz,PROT_READ|PROT_WRITE,MAP_PRIVATE|MAP_ANONYMOUS|MAP_NORESERVE,-1,0);
  if(buf==MAP_FAILED){perror("mmap");return 2;}
  printf("VSwrite(2)=%d\n",VSwrite(vs,buf,2,FULL_INTERLACE)); /* sizes the conversion buffer */
  int32 r=VSwrite(vs,buf,(int32)n,FULL_INTERLACE);
  printf("VSwrite(65538)=%d (4 GiB requested)\n",r);
  int32 ref=VSQueryref(vs);
  VSdetach(vs); Vend(f); Hclose(f);
  f=Hopen("pb.hdf",DFACC_READ,0); Vstart(f); vs=VSattach(f,ref,"r");
  int32 ne=VSelts(vs); printf("records in header=%d, data element length=%d\n",ne,Hlength(f,DFTAG_VS,(uint16)ref));
  VSdetach(vs); Vend(f); Hclose(f);
  return (r!=FAIL);}
