#include <stdio.h>
#include <string.h>
#include "mfhdf.h"
int main(void){
  int32 sd=SDstart("pa.hdf",DFACC_CREATE), dims[32]; int i; char nm[32];
  for(i=0;i<32;i++)dims[i]=1;
  int made=0;
  for(i=0;i<170;i++){ sprintf(nm,"v%d",i); int32 s=SDcreate(sd,nm,DFNT_INT8,32,dims); if(s==FAIL){printf("SDcreate fail at %d\n",i);break;} made++; SDendaccess(s);}
  printf("made %d vars = %d dims (limit %d)\n",made,made*32,H4_MAX_NC_DIMS);
  printf("SDend=%d\n",SDend(sd));
  sd=SDstart("pa.hdf",DFACC_READ); printf("reopen=%d\n",sd);
  if(sd!=FAIL){int32 nd,na; SDfileinfo(sd,&nd,&na); printf("nds=%d\n",nd); SDend(sd);}
  return 0;}
