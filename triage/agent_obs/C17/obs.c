/* baseline observation (UNMODIFIED tree): adding a new unlimited-dimension SDS to a file that already has one
 * makes SDend()->hdf_cdf_clobber()->hdf_close() rewrite the old dimension Vdata (value + VH header) in place,
 * before the DD flush.  build: add -Wl,--wrap=fwrite -Wl,--wrap=HTPsync */
#include <stdio.h>
#include <stdlib.h>
#include <string.h>
#include <sys/stat.h>
#include <unistd.h>
#include "hdf.h"
#include "mfhdf.h"
size_t __real_fwrite(const void *p, size_t s, size_t n, FILE *f);
typedef struct { long off; size_t len; unsigned char *d; int phase; } wr_t;
static wr_t W[4096]; static int NW = 0, recording = 0, phase = 0; static ino_t target_ino;
size_t __wrap_fwrite(const void *p, size_t s, size_t n, FILE *f)
{
    struct stat st;
    if (recording && fstat(fileno(f), &st) == 0 && st.st_ino == target_ino) {
        wr_t *w = &W[NW++]; w->off = ftell(f); w->len = s * n; w->phase = phase; w->d = malloc(w->len + 1); memcpy(w->d, p, w->len);
    }
    return __real_fwrite(p, s, n, f);
}
int __real_HTPsync(void *frec);
int __wrap_HTPsync(void *frec) { if (recording) phase = 2; return __real_HTPsync(frec); }
#define CHECK(c) do { if (!(c)) { fprintf(stderr, "SETUP FAIL line %d: %s\n", __LINE__, #c); exit(99); } } while (0)
static unsigned char *slurp(const char *fn, long *sz){FILE *f=fopen(fn,"rb");CHECK(f);fseek(f,0,SEEK_END);*sz=ftell(f);rewind(f);unsigned char*b=malloc(*sz+1);CHECK(fread(b,1,*sz,f)==(size_t)*sz);fclose(f);return b;}
static void spit(const char *fn,const unsigned char*b,long sz){FILE*f=fopen(fn,"wb");CHECK(f);CHECK(__real_fwrite(b,1,sz,f)==(size_t)sz);fclose(f);}
static int32 olddata[3][4];
static int verify(const char *fn, char *why)
{
    int32 sd = SDstart(fn, DFACC_READ); if (sd == FAIL) { sprintf(why, "SDstart fails"); return 1; }
    int rc = 0; int32 idx = SDnametoindex(sd, "oldrec");
    if (idx == FAIL) { sprintf(why, "oldrec missing"); rc = 2; }
    else { int32 s = SDselect(sd, idx); char nm[64]; int32 rank, dims[4], nt, na;
        if (SDgetinfo(s, nm, &rank, dims, &nt, &na) == FAIL) { sprintf(why, "getinfo"); rc = 3; }
        else if (dims[0] != 3) { sprintf(why, "oldrec now has %d records (was 3)", (int)dims[0]); rc = 4; }
        else { int32 st[2] = {0, 0}, ed[2] = {3, 4}, rd[3][4];
            if (SDreaddata(s, st, NULL, ed, rd) == FAIL || memcmp(rd, olddata, sizeof rd)) { sprintf(why, "oldrec data"); rc = 5; } }
        SDendaccess(s); }
    SDend(sd); return rc;
}
int main(void)
{
    int i, j; int32 sd, s, dims[2] = {SD_UNLIMITED, 4}, st[2] = {0, 0}, ed[2] = {3, 4};
    for (i = 0; i < 3; i++) for (j = 0; j < 4; j++) olddata[i][j] = i * 10 + j;
    sd = SDstart("obs_base.hdf", DFACC_CREATE); CHECK(sd != FAIL);
    s = SDcreate(sd, "oldrec", DFNT_INT32, 2, dims); CHECK(s != FAIL);
    CHECK(SDwritedata(s, st, NULL, ed, olddata) != FAIL); CHECK(SDendaccess(s) != FAIL); CHECK(SDend(sd) != FAIL);
    char why[256]; CHECK(verify("obs_base.hdf", why) == 0);
    long bsz; unsigned char *base = slurp("obs_base.hdf", &bsz); spit("obs_work.hdf", base, bsz);
    struct stat sb; CHECK(stat("obs_work.hdf", &sb) == 0); target_ino = sb.st_ino;
    recording = 1;
    sd = SDstart("obs_work.hdf", DFACC_RDWR); CHECK(sd != FAIL);
    int32 nd[1] = {SD_UNLIMITED}, ns[1] = {0}, ne[1] = {5}; int32 nv[5] = {1, 2, 3, 4, 5};
    s = SDcreate(sd, "newrec", DFNT_INT32, 1, nd); CHECK(s != FAIL);
    CHECK(SDwritedata(s, ns, NULL, ne, nv) != FAIL); CHECK(SDendaccess(s) != FAIL);
    phase = 1; CHECK(SDend(sd) != FAIL);
    recording = 0;
    int bad = 0, k; long cap = bsz + 65536, sz = bsz; unsigned char *im = calloc(1, cap); memcpy(im, base, bsz);
    int firstold = -1;
    for (k = 0; k < NW; k++)
        if (W[k].phase < 2 && W[k].off < bsz - 1) {
            printf("write %d (offset %ld, %zu bytes) BEFORE the DD flush lands inside the old file (old bytes %02x%02x%02x%02x -> new %02x%02x%02x%02x)\n",
                   k, W[k].off, W[k].len, base[W[k].off], base[W[k].off+1], base[W[k].off+2], base[W[k].off+3], W[k].d[0], W[k].d[1], W[k].d[2], W[k].d[3]);
            bad++;
        }
    for (k = 0; k <= NW; k++) {
        if (k > 0) { wr_t *x = &W[k - 1]; memcpy(im + x->off, x->d, x->len); if (x->off + (long)x->len > sz) sz = x->off + x->len; }
        spit("obs_crash.hdf", im, sz);
        int rc = verify("obs_crash.hdf", why);
        if (rc) { printf("prefix %d/%d: %s\n", k, NW, why); bad++; }
    }
    printf("bad=%d\n", bad); return bad != 0;
}
