/* fault harness: wraps stdio calls; k-th call (1-based) fails; sticky optional */
#include <stdio.h>
#include <stdlib.h>
#include <string.h>
#include <errno.h>
#include <unistd.h>
#include <fcntl.h>
#include <sys/wait.h>
#include <sys/stat.h>
#include <execinfo.h>
#include "hdf.h"
#include "mfhdf.h"

size_t __real_fread(void *, size_t, size_t, FILE *);
size_t __real_fwrite(const void *, size_t, size_t, FILE *);
int    __real_fseek(FILE *, long, int);
int    __real_fflush(FILE *);
int    __real_fclose(FILE *);

static int  armed = 0, sticky = 0;
static long ncalls = 0, failat = 0;
static char lastfail[64];
static int hit(const char *what)
{
    if (!armed) return 0;
    ncalls++; if (getenv("FH_T")) fprintf(stderr, "[%ld %s]\n", ncalls, what);
    if (failat && (ncalls == failat || (sticky && ncalls > failat))) { snprintf(lastfail, sizeof lastfail, "%s", what); if (getenv("FH_T") && ncalls == failat) { void *bt[30]; int n = backtrace(bt, 30); backtrace_symbols_fd(bt, n, 2); } errno = EIO; return 1; }
    return 0;
}
size_t __wrap_fread(void *b, size_t s, size_t n, FILE *f) { if (hit("fread")) return 0; return __real_fread(b, s, n, f); }
size_t __wrap_fwrite(const void *b, size_t s, size_t n, FILE *f) { if (f != stdout && f != stderr && hit("fwrite")) return 0; return __real_fwrite(b, s, n, f); }
int __wrap_fseek(FILE *f, long o, int w) { if (hit("fseek")) return -1; return __real_fseek(f, o, w); }
int __wrap_fflush(FILE *f) { if (f && f != stdout && f != stderr && hit("fflush")) return EOF; return __real_fflush(f); }
int __wrap_fclose(FILE *f) { if (hit("fclose")) { __real_fclose(f); return EOF; } return __real_fclose(f); }

/* ---- workloads: return 0 if every call succeeded, 1 if some call failed, 2 all ok but wrong read data */
#define CK(x) do { if ((x) == FAIL) { bad = 1; if (getenv("FH_V")) fprintf(stderr, "  FAIL: %s\n", #x); } } while (0)
typedef int (*wl_t)(const char *fn);

static int w_h(const char *fn)
{
    int bad = 0; uint8 buf[300]; int i; for (i = 0; i < 300; i++) buf[i] = (uint8)i;
    int32 f = Hopen(fn, DFACC_CREATE, 0); if (f == FAIL) return 1;
    CK(Hputelement(f, 1000, 1, buf, 100));
    CK(Hputelement(f, 1000, 2, buf, 200));
    int32 a = Hstartaccess(f, 1001, 1, DFACC_WRITE);
    if (a == FAIL) bad = 1; else { CK(Hwrite(a, 50, buf)); CK(Hwrite(a, 60, buf)); CK(Hendaccess(a)); }
    CK(Hputelement(f, 1000, 3, buf, 20));
    CK(Hclose(f));
    return bad;
}
static int w_hcache(const char *fn)
{
    int bad = 0; uint8 buf[300]; int i; for (i = 0; i < 300; i++) buf[i] = (uint8)i;
    int32 f = Hopen(fn, DFACC_CREATE, 0); if (f == FAIL) return 1;
    CK(Hcache(f, TRUE));
    for (i = 0; i < 40; i++) CK(Hputelement(f, 1000, (uint16)(i + 1), buf, 100));
    CK(Hclose(f));
    return bad;
}
static int w_link(const char *fn)
{
    int bad = 0; uint8 buf[300]; int i; for (i = 0; i < 300; i++) buf[i] = (uint8)i;
    int32 f = Hopen(fn, DFACC_CREATE, 0); if (f == FAIL) return 1;
    int32 a = HLcreate(f, 1000, 1, 64, 2);
    if (a == FAIL) bad = 1; else { for (i = 0; i < 5; i++) CK(Hwrite(a, 100, buf)); CK(Hendaccess(a)); }
    CK(Hclose(f));
    return bad;
}
static int w_ext(const char *fn)
{
    int bad = 0; uint8 buf[300]; int i; for (i = 0; i < 300; i++) buf[i] = (uint8)i;
    char en[256]; snprintf(en, sizeof en, "%s.ext", fn); unlink(en);
    int32 f = Hopen(fn, DFACC_CREATE, 0); if (f == FAIL) return 1;
    int32 a = HXcreate(f, 1000, 1, en, 0, 0);
    if (a == FAIL) bad = 1; else { for (i = 0; i < 3; i++) CK(Hwrite(a, 100, buf)); CK(Hendaccess(a)); }
    CK(Hclose(f));
    return bad;
}
static int w_comp_gen(const char *fn, comp_coder_t ct)
{
    int bad = 0; static uint8 buf[20000]; int i; for (i = 0; i < 20000; i++) buf[i] = (uint8)((i / 7) * 3 + (i % 5 == 0));
    model_info m; comp_info c; memset(&c, 0, sizeof c);
    if (ct == COMP_CODE_SKPHUFF) c.skphuff.skp_size = 1;
    if (ct == COMP_CODE_DEFLATE) c.deflate.level = 6;
    if (ct == COMP_CODE_NBIT) { c.nbit.nt = DFNT_UINT8; c.nbit.sign_ext = 0; c.nbit.fill_one = 0; c.nbit.start_bit = 6; c.nbit.bit_len = 7; }
    int32 f = Hopen(fn, DFACC_CREATE, 0); if (f == FAIL) return 1;
    int32 a = HCcreate(f, 1000, 1, COMP_MODEL_STDIO, &m, ct, &c);
    if (a == FAIL) bad = 1; else { CK(Hwrite(a, 20000, buf)); CK(Hendaccess(a)); }
    CK(Hclose(f));
    return bad;
}
static int w_rle(const char *fn) { return w_comp_gen(fn, COMP_CODE_RLE); }
static int w_skp(const char *fn) { return w_comp_gen(fn, COMP_CODE_SKPHUFF); }
static int w_defl(const char *fn) { return w_comp_gen(fn, COMP_CODE_DEFLATE); }
static int w_nbit(const char *fn) { return w_comp_gen(fn, COMP_CODE_NBIT); }
static int w_v(const char *fn)
{
    int bad = 0; int32 dat[50]; int i; for (i = 0; i < 50; i++) dat[i] = i * 3;
    int32 f = Hopen(fn, DFACC_CREATE, 0); if (f == FAIL) return 1;
    CK(Vstart(f));
    int32 vs = VSattach(f, -1, "w");
    if (vs == FAIL) bad = 1; else {
        CK(VSsetname(vs, "vd")); CK(VSfdefine(vs, "a", DFNT_INT32, 1)); CK(VSsetfields(vs, "a"));
        CK(VSwrite(vs, (uint8 *)dat, 50, FULL_INTERLACE));
        CK(VSsetattr(vs, _HDF_VDATA, "at", DFNT_INT32, 2, dat));
        int32 ref = VSQueryref(vs);
        CK(VSdetach(vs));
        int32 vg = Vattach(f, -1, "w");
        if (vg == FAIL) bad = 1; else { CK(Vsetname(vg, "g")); CK(Vaddtagref(vg, DFTAG_VH, ref)); CK(Vsetattr(vg, "ga", DFNT_INT32, 2, dat)); CK(Vdetach(vg)); }
    }
    CK(Vend(f));
    CK(Hclose(f));
    return bad;
}
static int w_sd(const char *fn)
{
    int bad = 0; int32 dat[200]; int i; for (i = 0; i < 200; i++) dat[i] = i * 3;
    int32 sd = SDstart(fn, DFACC_CREATE); if (sd == FAIL) return 1;
    int32 dims[2] = {10, 20}, st[2] = {0, 0};
    int32 s = SDcreate(sd, "ds", DFNT_INT32, 2, dims);
    if (s == FAIL) bad = 1; else {
        CK(SDsetattr(s, "a1", DFNT_INT32, 3, dat));
        CK(SDwritedata(s, st, NULL, dims, dat));
        CK(SDendaccess(s));
    }
    int32 ud[1] = {SD_UNLIMITED}, ed[1] = {7};
    s = SDcreate(sd, "rec", DFNT_INT32, 1, ud);
    if (s == FAIL) bad = 1; else { CK(SDwritedata(s, st, NULL, ed, dat)); CK(SDendaccess(s)); }
    CK(SDsetattr(sd, "g1", DFNT_CHAR8, 5, "hello"));
    CK(SDend(sd));
    return bad;
}
static int w_sdnofill(const char *fn)
{
    int bad = 0; int32 dat[200]; int i; for (i = 0; i < 200; i++) dat[i] = i * 3;
    int32 sd = SDstart(fn, DFACC_CREATE); if (sd == FAIL) return 1;
    CK(SDsetfillmode(sd, SD_NOFILL));
    int32 dims[2] = {10, 20}, st[2] = {2, 0}, ed[2] = {3, 20};
    int32 s = SDcreate(sd, "ds", DFNT_INT32, 2, dims);
    if (s == FAIL) bad = 1; else { CK(SDwritedata(s, st, NULL, ed, dat)); st[0] = 6; CK(SDwritedata(s, st, NULL, ed, dat)); CK(SDendaccess(s)); }
    CK(SDend(sd));
    return bad;
}
static int w_sdchunk(const char *fn)
{
    int bad = 0; int32 dat[200]; int i; for (i = 0; i < 200; i++) dat[i] = i * 3;
    int32 sd = SDstart(fn, DFACC_CREATE); if (sd == FAIL) return 1;
    int32 dims[2] = {10, 20}, st[2] = {0, 0};
    int32 s = SDcreate(sd, "ds", DFNT_INT32, 2, dims);
    if (s == FAIL) bad = 1; else {
        HDF_CHUNK_DEF cd; memset(&cd, 0, sizeof cd); cd.comp.chunk_lengths[0] = 5; cd.comp.chunk_lengths[1] = 10; cd.comp.comp_type = COMP_CODE_DEFLATE; cd.comp.cinfo.deflate.level = 6;
        CK(SDsetchunk(s, cd, HDF_CHUNK | HDF_COMP));
        CK(SDwritedata(s, st, NULL, dims, dat));
        CK(SDendaccess(s));
    }
    CK(SDend(sd));
    return bad;
}
static int w_gr(const char *fn)
{
    int bad = 0; uint8 img[10 * 10 * 3]; int i; for (i = 0; i < 300; i++) img[i] = (uint8)i;
    int32 f = Hopen(fn, DFACC_CREATE, 0); if (f == FAIL) return 1;
    int32 gr = GRstart(f); if (gr == FAIL) { Hclose(f); return 1; }
    int32 dims[2] = {10, 10}, st[2] = {0, 0};
    int32 ri = GRcreate(gr, "im", 3, DFNT_UINT8, MFGR_INTERLACE_PIXEL, dims);
    if (ri == FAIL) bad = 1; else {
        CK(GRwriteimage(ri, st, NULL, dims, img));
        CK(GRsetattr(ri, "la", DFNT_UINT8, 4, img));
        int32 lut = GRgetlutid(ri, 0); uint8 pal[768]; memset(pal, 7, sizeof pal);
        if (lut == FAIL) bad = 1; else CK(GRwritelut(lut, 3, DFNT_UINT8, MFGR_INTERLACE_PIXEL, 256, pal));
        CK(GRendaccess(ri));
    }
    CK(GRsetattr(gr, "ga", DFNT_UINT8, 4, img));
    CK(GRend(gr));
    CK(Hclose(f));
    return bad;
}
static int w_an(const char *fn)
{
    int bad = 0;
    int32 f = Hopen(fn, DFACC_CREATE, 0); if (f == FAIL) return 1;
    int32 an = ANstart(f); if (an == FAIL) { Hclose(f); return 1; }
    int32 a = ANcreatef(an, AN_FILE_LABEL);
    if (a == FAIL) bad = 1; else { CK(ANwriteann(a, "file label", 10)); CK(ANendaccess(a)); }
    a = ANcreate(an, 1000, 1, AN_DATA_DESC);
    if (a == FAIL) bad = 1; else { CK(ANwriteann(a, "data desc here", 14)); CK(ANendaccess(a)); }
    CK(ANend(an));
    CK(Hclose(f));
    return bad;
}
static int w_dfsd(const char *fn)
{
    int bad = 0; float32 d[60]; int i; for (i = 0; i < 60; i++) d[i] = (float32)i;
    int32 dims[2] = {6, 10};
    unlink(fn);
    CK(DFSDsetdims(2, dims)); CK(DFSDsetdatastrs("l", "u", "f", "c"));
    CK(DFSDadddata(fn, 2, dims, d));
    uint8 im[100]; memset(im, 5, 100);
    CK(DFR8addimage(fn, im, 10, 10, COMP_RLE));
    CK(DFANputlabel(fn, 700, 1, "label"));
    return bad;
}

static int w_hnocache(const char *fn)
{
    int bad = 0; uint8 buf[300]; int i; for (i = 0; i < 300; i++) buf[i] = (uint8)i;
    Hcache(CACHE_ALL_FILES, FALSE);
    int32 f = Hopen(fn, DFACC_CREATE, 4); if (f == FAIL) return 1;
    for (i = 0; i < 6; i++) CK(Hputelement(f, 1000, (uint16)(i + 1), buf, 100));
    int32 a = Hstartaccess(f, 1001, 1, DFACC_WRITE);
    if (a == FAIL) bad = 1; else { CK(Hwrite(a, 50, buf)); CK(Hwrite(a, 60, buf)); CK(Hendaccess(a)); }
    CK(Hclose(f));
    return bad;
}
static int w_extdir(const char *fn)
{
    int bad = 0; uint8 buf[300], rb[300]; int i; for (i = 0; i < 300; i++) buf[i] = (uint8)i;
    char en[256]; snprintf(en, sizeof en, "%s.ext", fn); unlink(en);
    int32 f = Hopen(fn, DFACC_CREATE, 0); if (f == FAIL) return 1;
    int32 a = HXcreate(f, 1000, 1, en, 0, 0);
    if (a == FAIL) bad = 1; else {
        CK(Hwrite(a, 100, buf));
        CK(HXsetdir("."));
        CK(Hseek(a, 0, DF_START));
        CK(Hread(a, 100, rb));
        CK(Hendaccess(a)); }
    CK(Hclose(f));
    return bad;
}
/* read workloads: file prepared unarmed by the prep function */
static uint8 big[20000];
static void fillbig(void) { int i; for (i = 0; i < 20000; i++) big[i] = (uint8)((i / 7) * 3 + (i % 5 == 0)); }
static void p_comp(const char *fn, comp_coder_t ct) { unlink(fn); w_comp_gen(fn, ct); }
static int r_comp(const char *fn)
{
    int bad = 0; static uint8 rb[20000]; fillbig();
    int32 f = Hopen(fn, DFACC_READ, 0); if (f == FAIL) return 1;
    int32 a = Hstartread(f, 1000, 1);
    if (a == FAIL) bad = 1; else { CK(Hread(a, 20000, rb)); CK(Hendaccess(a)); }
    CK(Hclose(f));
    if (!bad && memcmp(rb, big, 20000)) return 2;
    return bad;
}
static void p_rle(const char *fn) { p_comp(fn, COMP_CODE_RLE); }
static void p_skp(const char *fn) { p_comp(fn, COMP_CODE_SKPHUFF); }
static void p_defl(const char *fn) { p_comp(fn, COMP_CODE_DEFLATE); }
static void p_nbit(const char *fn) { p_comp(fn, COMP_CODE_NBIT); }
static void p_link(const char *fn) { unlink(fn); w_link(fn); }
static int r_link(const char *fn)
{
    int bad = 0; uint8 rb[500], ex[500]; int i; for (i = 0; i < 500; i++) ex[i] = (uint8)(i % 100);
    int32 f = Hopen(fn, DFACC_READ, 0); if (f == FAIL) return 1;
    int32 a = Hstartread(f, 1000, 1);
    if (a == FAIL) bad = 1; else { CK(Hread(a, 500, rb)); CK(Hendaccess(a)); }
    CK(Hclose(f));
    if (!bad && memcmp(rb, ex, 500)) return 2;
    return bad;
}
static void p_v(const char *fn) { unlink(fn); w_v(fn); }
static int r_v(const char *fn)
{
    int bad = 0; int32 dat[50], at[2] = {-1, -1}; int i; memset(dat, 0xee, sizeof dat);
    int32 f = Hopen(fn, DFACC_READ, 0); if (f == FAIL) return 1;
    CK(Vstart(f));
    int32 ref = VSfind(f, "vd"); if (ref <= 0) bad = 1;
    int32 vs = VSattach(f, ref, "r");
    if (vs == FAIL) bad = 1; else { CK(VSsetfields(vs, "a")); CK(VSread(vs, (uint8 *)dat, 50, FULL_INTERLACE)); CK(VSgetattr(vs, _HDF_VDATA, 0, at)); CK(VSdetach(vs)); }
    CK(Vend(f)); CK(Hclose(f));
    if (!bad) { for (i = 0; i < 50; i++) if (dat[i] != i * 3) return 2; if (at[0] != 0 || at[1] != 3) return 2; }
    return bad;
}
static void p_sd(const char *fn) { unlink(fn); w_sd(fn); }
static int r_sd(const char *fn)
{
    int bad = 0; int32 dat[200], a1[3] = {-1, -1, -1}; int i; memset(dat, 0xee, sizeof dat);
    int32 sd = SDstart(fn, DFACC_READ); if (sd == FAIL) return 1;
    int32 idx = SDnametoindex(sd, "ds"); if (idx == FAIL) bad = 1;
    int32 s = SDselect(sd, idx); int32 dims[2] = {10, 20}, st[2] = {0, 0};
    if (s == FAIL) bad = 1; else { CK(SDreaddata(s, st, NULL, dims, dat)); CK(SDreadattr(s, 0, a1)); CK(SDendaccess(s)); }
    CK(SDend(sd));
    if (!bad) { for (i = 0; i < 200; i++) if (dat[i] != i * 3) return 2; if (a1[2] != 6) return 2; }
    return bad;
}
static void p_sdchunk(const char *fn) { unlink(fn); w_sdchunk(fn); }
static int r_sdchunk(const char *fn)
{
    int bad = 0; int32 dat[200]; int i; memset(dat, 0xee, sizeof dat);
    int32 sd = SDstart(fn, DFACC_READ); if (sd == FAIL) return 1;
    int32 s = SDselect(sd, 0); int32 dims[2] = {10, 20}, st[2] = {0, 0};
    if (s == FAIL) bad = 1; else { CK(SDreaddata(s, st, NULL, dims, dat)); CK(SDendaccess(s)); }
    CK(SDend(sd));
    if (!bad) { for (i = 0; i < 200; i++) if (dat[i] != i * 3) return 2; }
    return bad;
}
static void p_gr(const char *fn) { unlink(fn); w_gr(fn); }
static int r_gr(const char *fn)
{
    int bad = 0; uint8 img[300], la[4] = {9, 9, 9, 9}; int i; memset(img, 0xee, sizeof img);
    int32 f = Hopen(fn, DFACC_READ, 0); if (f == FAIL) return 1;
    int32 gr = GRstart(f); if (gr == FAIL) { Hclose(f); return 1; }
    int32 ri = GRselect(gr, 0); int32 dims[2] = {10, 10}, st[2] = {0, 0};
    if (ri == FAIL) bad = 1; else { CK(GRreadimage(ri, st, NULL, dims, img)); CK(GRgetattr(ri, 0, la)); CK(GRendaccess(ri)); }
    CK(GRend(gr)); CK(Hclose(f));
    if (!bad) { for (i = 0; i < 300; i++) if (img[i] != (uint8)i) return 2; if (la[3] != 3) return 2; }
    return bad;
}
static void p_ext(const char *fn) { unlink(fn); w_ext(fn); }
static int r_ext(const char *fn)
{
    int bad = 0; uint8 rb[300]; int i;
    int32 f = Hopen(fn, DFACC_READ, 0); if (f == FAIL) return 1;
    int32 a = Hstartread(f, 1000, 1);
    if (a == FAIL) bad = 1; else { CK(Hread(a, 300, rb)); CK(Hendaccess(a)); }
    CK(Hclose(f));
    if (!bad) for (i = 0; i < 300; i++) if (rb[i] != (uint8)(i % 100)) return 2;
    return bad;
}

static int w_grbig(const char *fn)
{
    int bad = 0; uint8 img[10 * 10 * 3]; static uint8 bigat[3000]; int i; for (i = 0; i < 300; i++) img[i] = (uint8)i; for (i = 0; i < 3000; i++) bigat[i] = (uint8)(i * 7);
    int32 f = Hopen(fn, DFACC_CREATE, 0); if (f == FAIL) return 1;
    int32 gr = GRstart(f); if (gr == FAIL) { Hclose(f); return 1; }
    int32 dims[2] = {10, 10}, st[2] = {0, 0};
    int32 ri = GRcreate(gr, "im", 3, DFNT_UINT8, MFGR_INTERLACE_PIXEL, dims);
    if (ri == FAIL) bad = 1; else {
        CK(GRwriteimage(ri, st, NULL, dims, img));
        CK(GRsetattr(ri, "bigla", DFNT_UINT8, 3000, bigat));
        CK(GRendaccess(ri));
    }
    CK(GRsetattr(gr, "bigga", DFNT_UINT8, 3000, bigat));
    CK(GRend(gr));
    CK(Hclose(f));
    return bad;
}

static struct { const char *name; wl_t fn; void (*prep)(const char *); } wls[] = {
    {"h", w_h}, {"hcache", w_hcache}, {"link", w_link}, {"ext", w_ext}, {"rle", w_rle}, {"skp", w_skp}, {"defl", w_defl}, {"nbit", w_nbit},
    {"v", w_v}, {"sd", w_sd}, {"sdnofill", w_sdnofill}, {"sdchunk", w_sdchunk}, {"gr", w_gr}, {"an", w_an}, {"dfsd", w_dfsd}, {"hnocache", w_hnocache}, {"grbig", w_grbig}, {"extdir", w_extdir},
    {"r_rle", r_comp, p_rle}, {"r_skp", r_comp, p_skp}, {"r_defl", r_comp, p_defl}, {"r_nbit", r_comp, p_nbit}, {"r_link", r_link, p_link}, {"r_v", r_v, p_v}, {"r_sd", r_sd, p_sd}, {"r_sdchunk", r_sdchunk, p_sdchunk}, {"r_gr", r_gr, p_gr}, {"r_ext", r_ext, p_ext}, {NULL, NULL}};

static int same(const char *a, const char *b)
{
    struct stat sa, sb; if (stat(a, &sa) || stat(b, &sb)) return (stat(a, &sa) != 0) == (stat(b, &sb) != 0) ? 1 : 0;
    if (sa.st_size != sb.st_size) return 0;
    int fa = open(a, O_RDONLY), fb = open(b, O_RDONLY); char ba[4096], bb[4096]; ssize_t n; int ok = 1;
    while ((n = read(fa, ba, sizeof ba)) > 0) { if (read(fb, bb, n) != n || memcmp(ba, bb, n)) { ok = 0; break; } }
    close(fa); close(fb); return ok;
}

static int run(wl_t w, const char *fn, long k, int stk, long *cnt, char *what)
{
    int p[2]; if (pipe(p)) exit(99);
    pid_t pid = fork();
    if (pid == 0) {
        close(p[0]); alarm(20);
        ncalls = 0; failat = k; sticky = stk; armed = 1;
        int r = w(fn);
        armed = 0;
        struct { long n; char w[64]; } m; m.n = ncalls; memcpy(m.w, lastfail, 64);
        if (write(p[1], &m, sizeof m) < 0) {}
        _exit(r);
    }
    close(p[1]);
    struct { long n; char w[64]; } m; memset(&m, 0, sizeof m);
    if (read(p[0], &m, sizeof m) < 0) {}
    close(p[0]);
    int st; waitpid(pid, &st, 0);
    if (cnt) *cnt = m.n;
    if (what) memcpy(what, m.w, 64);
    if (WIFSIGNALED(st)) return 100 + WTERMSIG(st);
    return WEXITSTATUS(st);
}

int main(int argc, char **argv)
{
    int viol = 0;
    if (argc > 3) { /* fh name k sticky : run one faulty run in-process, verbose */
        for (int i = 0; wls[i].name; i++) if (!strcmp(argv[1], wls[i].name)) {
            const char *tgt = "one.hdf";
            if (wls[i].prep) { wls[i].prep("rd.hdf"); tgt = "rd.hdf"; } else { unlink("one.hdf"); unlink("one.hdf.ext"); }
            setenv("FH_V", "1", 1); setenv("FH_T", "1", 1);
            ncalls = 0; failat = atol(argv[2]); sticky = atoi(argv[3]); armed = 1;
            int r = wls[i].fn(tgt); armed = 0;
            fprintf(stderr, "result %d, failed op: %s\n", r, lastfail); HEprint(stderr, 0);
            return r;
        }
        return 9;
    }
    for (int i = 0; wls[i].name; i++) {
        if (argc > 1 && strcmp(argv[1], wls[i].name)) continue;
        char ref[64], ext[80]; const char *out = "work.hdf", *oext = "work.hdf.ext";
        snprintf(ref, sizeof ref, "ref_%s.hdf", wls[i].name); snprintf(ext, sizeof ext, "%s.ext", ref);
        long n = 0; char what[64];
        unlink(out); unlink(oext); unlink(ref); unlink(ext);
        if (wls[i].prep) { pid_t pp = fork(); if (pp == 0) { wls[i].prep("rd.hdf"); _exit(0); } waitpid(pp, NULL, 0); }
        const char *tgt = wls[i].prep ? "rd.hdf" : out;
        int r = run(wls[i].fn, tgt, 0, 0, &n, what);
        if (r) { printf("%s: fault-free run failed r=%d\n", wls[i].name, r); viol++; continue; }
        rename(out, ref); rename(oext, ext);
        int nv = 0;
        for (int stk = 0; stk < 2; stk++)
            for (long k = 1; k <= n; k++) {
                unlink(out); unlink(oext);
                r = run(wls[i].fn, tgt, k, stk, NULL, what);
                if (wls[i].prep) { if (r == 2) { printf("%s: k=%ld sticky=%d (%s): all calls OK but WRONG DATA read\n", wls[i].name, k, stk, what); nv++; } else if (r >= 100) { printf("%s: k=%ld sticky=%d (%s): CRASH sig %d\n", wls[i].name, k, stk, what, r - 100); nv++; } continue; }
                if (r >= 100) { printf("%s: k=%ld sticky=%d (%s): CRASH sig %d\n", wls[i].name, k, stk, what, r - 100); nv++; }
                else if (r == 0 && (!same(ref, out) || !same(ext, oext))) { printf("%s: k=%ld sticky=%d (%s): all calls OK but file differs\n", wls[i].name, k, stk, what); nv++; }
            }
        printf("%s: %ld stdio calls, %d violations\n", wls[i].name, n, nv);
        viol += nv;
    }
    return viol ? 1 : 0;
}
