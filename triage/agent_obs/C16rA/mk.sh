#!/bin/sh
cc -g -I/tmp/wt/RAC16/hdf/src -I/tmp/wt/RAC16/mfhdf/src -I/tmp/wt/RAC16/_build ${1:-fh}.c -o ${1:-fh} /tmp/wt/RAC16/_build/bin/libmfhdf.a /tmp/wt/RAC16/_build/bin/libhdf.a -ljpeg -lz -lm -rdynamic -Wl,--wrap=fread,--wrap=fwrite,--wrap=fseek,--wrap=fflush,--wrap=fclose
