#include <stdio.h>
#include <string.h>
#include "hdf.h"
#include "mfhdf.h"
#define FN "p2.hdf"
int main(void){
 remove(FN);
 int32 sd=SDstart(FN,DFACC_CREATE);
 int32 d1[2]={SD_UNLIMITED,3}, d2[2]={SD_UNLIMITED,2}, d3[3]={2,3,4};
 int32 a=SDcreate(sd,"A",DFNT_INT32,2,d1), b=SDcreate(sd,"B",DFNT_FLOAT64,2,d2), c=SDcreate(sd,"C",DFNT_INT16,3,d3);
 int32 A[5][3]; float64 B[2][2]; int16 C[2][3][4]; int i;
 for(i=0;i<15;i++)((int32*)A)[i]=i*7; for(i=0;i<4;i++)((float64*)B)[i]=i*1.5; for(i=0;i<24;i++)((int16*)C)[i]=(int16)(i*3);
 int32 st[3]={0,0,0}, e1[2]={5,3}, e2[2]={2,2};
 if(SDwritedata(a,st,NULL,e1,A)==FAIL)return 2; if(SDwritedata(b,st,NULL,e2,B)==FAIL)return 2; if(SDwritedata(c,st,NULL,d3,C)==FAIL)return 2;
 int ra=SDidtoref(a), rb=SDidtoref(b), rc=SDidtoref(c);
 SDendaccess(a);SDendaccess(b);SDendaccess(c);SDend(sd);
 printf("refs %d %d %d\n",ra,rb,rc);
 int rank; int32 d[5]; DFSDrestart();
 while(DFSDgetdims(FN,&rank,d,5)!=FAIL){ int32 nt; DFSDgetNT(&nt); printf("DFSD: ref %d rank %d nt %d dims",DFSDlastref(),rank,nt); for(i=0;i<rank;i++)printf(" %d",d[i]); printf("\n");
  char buf[1024]; memset(buf,0,sizeof buf); int r=DFSDgetdata(FN,rank,d,buf); printf("  getdata rc %d first vals: ",r);
  if(nt==DFNT_INT32)for(i=0;i<6;i++)printf("%d ",((int32*)buf)[i]); if(nt==DFNT_FLOAT64)for(i=0;i<4;i++)printf("%g ",((float64*)buf)[i]); if(nt==DFNT_INT16)for(i=0;i<6;i++)printf("%d ",((int16*)buf)[i]); printf("\n"); }
 return 0;}
