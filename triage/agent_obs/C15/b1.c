#include <stdio.h>
#include <string.h>
#include "hdf.h"
#include "mfhdf.h"
int main(void){ int32 dims[2]={3,4}; float32 d[12]={0}; char l[64]="",u[64]="",f[64]=""; int rank; int32 dz[2];
 remove("b1.hdf"); DFSDclear(); DFSDsetdims(2,dims); DFSDsetdimstrs(1,"time","s","F5.1"); DFSDadddata("b1.hdf",2,dims,d);
 DFSDrestart(); DFSDgetdims("b1.hdf",&rank,dz,2); DFSDgetdimstrs(1,l,u,f); printf("DFSD dim1: '%s' '%s' '%s'\n",l,u,f);
 int32 sd=SDstart("b1.hdf",DFACC_READ), sds=SDselect(sd,SDreftoindex(sd,DFSDlastref())), dim=SDgetdimid(sds,0); l[0]=u[0]=f[0]=0;
 int rc=SDgetdimstrs(dim,l,u,f,64); printf("SD   dim0: rc %d '%s' '%s' '%s'\n",rc,l,u,f); SDend(sd); return strcmp(l,"time")!=0; }
