#include <stdio.h>
#include "hdf.h"
int main(int argc,char**argv){ int rank; int32 d[5]; DFSDrestart(); 
 while(DFSDgetdims(argv[1],&rank,d,5)!=FAIL){ printf("rank %d ref %d:",rank,DFSDlastref()); for(int i=0;i<rank;i++)printf(" %d",d[i]); printf("\n");
 for(int i=1;i<=rank;i++){char l[64]="",u[64]="",f[64]=""; int rc=DFSDgetdimstrs(i,l,u,f); printf(" dim %d rc %d '%s' '%s' '%s'\n",i,rc,l,u,f);}
 {char l[64]="",u[64]="",f[64]="",c[64]=""; int rc=DFSDgetdatastrs(l,u,f,c); printf(" data rc %d '%s' '%s' '%s' '%s'\n",rc,l,u,f,c);} }
 return 0;}
