/* C15 demo: 24-bit image written by GR in a non-pixel interlace, read back by DF24 */
#include <stdio.h>
#include <string.h>
#include "hdf.h"

#define FN "c15_d2.hdf"
#define XD 5
#define YD 4

static uint8 pix[YD][XD][3];   /* reference, pixel interlace */

static void to_il(int il, uint8 *out)
{
    int x, y, c;
    for (y = 0; y < YD; y++)
        for (x = 0; x < XD; x++)
            for (c = 0; c < 3; c++) {
                size_t o;
                if (il == 0) o = ((size_t)y * XD + x) * 3 + c;
                else if (il == 1) o = ((size_t)y * 3 + c) * XD + x;
                else o = ((size_t)c * YD + y) * XD + x;
                out[o] = pix[y][x][c];
            }
}

int main(void)
{
    int   x, y, c, bad = 0, wil, ril;
    uint8 buf[YD * XD * 3], got[YD * XD * 3], exp[YD * XD * 3];

    for (y = 0; y < YD; y++)
        for (x = 0; x < XD; x++)
            for (c = 0; c < 3; c++)
                pix[y][x][c] = (uint8)(1 + 60 * c + 10 * y + x);

    for (wil = 0; wil < 3; wil++) {
        int32 fid, gr, ri, dims[2] = {XD, YD}, start[2] = {0, 0};
        int32 xd, yd; int il;
        remove(FN);
        fid = Hopen(FN, DFACC_CREATE, 0);
        gr = GRstart(fid);
        ri = GRcreate(gr, "img", 3, DFNT_UINT8, wil, dims);
        if (ri == FAIL) return 2;
        to_il(wil, buf);
        if (GRwriteimage(ri, start, NULL, dims, buf) == FAIL) return 2;
        GRendaccess(ri); GRend(gr); Hclose(fid);

        for (ril = -1; ril < 3; ril++) {
            int eff;
            if (DF24restart() == FAIL) return 2;
            if (DF24getdims(FN, &xd, &yd, &il) == FAIL) { printf("DF24getdims failed wil %d ril %d\n",wil,ril); HEprint(stdout,0); return 2; }
            if (xd != XD || yd != YD) { printf("wil %d: DF24 dims %d x %d\n", wil, (int)xd, (int)yd); bad = 1; }
            if (ril >= 0) { DF24reqil(ril); eff = ril; } else eff = il;
            memset(got, 0, sizeof got);
            if (DF24getimage(FN, got, XD, YD) == FAIL) { printf("DF24getimage failed\n"); return 2; }
            to_il(eff, exp);
            if (memcmp(got, exp, sizeof got)) {
                printf("GR wrote il=%d; DF24 (stored il reported %d, requested %d) returns different pixels\n", wil, il, ril);
                bad = 1;
            }
        }
        /* reset the request for next pass: DFGR keeps it; use reported interlace */
    }
    remove(FN);
    printf(bad ? "C15 VIOLATED\n" : "C15 holds\n");
    return bad;
}
