#include <stdio.h>
#include <string.h>
#include "hdf.h"
#define XD 5
#define YD 4
static uint8 pix[YD][XD][3];
static void to_il(int il, uint8 *out){int x,y,c;for(y=0;y<YD;y++)for(x=0;x<XD;x++)for(c=0;c<3;c++){size_t o; if(il==0)o=((size_t)y*XD+x)*3+c; else if(il==1)o=((size_t)y*3+c)*XD+x; else o=((size_t)c*YD+y)*XD+x; out[o]=pix[y][x][c];}}
int main(void){
 int x,y,c,wil,ril; uint8 buf[60],got[60],exp[60];
 for(y=0;y<YD;y++)for(x=0;x<XD;x++)for(c=0;c<3;c++)pix[y][x][c]=(uint8)(1+60*c+10*y+x);
 for(wil=0;wil<3;wil++){
  char fn[32]; sprintf(fn,"p1_%d.hdf",wil); remove(fn);
  DF24setil(wil); DF24setdims(XD,YD); to_il(wil,buf);
  if(DF24addimage(fn,buf,XD,YD)==FAIL){printf("add fail\n");return 2;}
  int32 fid=Hopen(fn,DFACC_READ,0), gr=GRstart(fid); int32 n,na; GRfileinfo(gr,&n,&na);
  printf("wil %d: GR sees %d images\n",wil,n);
  for(int i=0;i<n;i++){ 
   for(ril=0;ril<3;ril++){
   int32 ri=GRselect(gr,i); char nm[64]; int32 nc,nt,il,d[2],a; GRgetiminfo(ri,nm,&nc,&nt,&il,d,&a);
   if(ril==0)printf("  img %d ncomp %d nt %d il %d dims %d %d\n",i,nc,nt,il,d[0],d[1]);
   GRreqimageil(ri,ril); int32 st[2]={0,0}; memset(got,0,60);
   if(GRreadimage(ri,st,NULL,d,got)==FAIL)printf("  read fail\n");
   to_il(ril,exp); printf("   req il %d: %s\n",ril,memcmp(got,exp,60)?"DIFF":"same");
   GRendaccess(ri);}
  }
  GRend(gr);Hclose(fid);
 }
 return 0;}
