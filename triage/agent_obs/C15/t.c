#include <stdio.h>
#include <string.h>
#include "hdf.h"
#include "mfhdf.h"
int main(int argc,char**argv){
 int32 sd=SDstart(argv[1],DFACC_READ); int32 n,na; SDfileinfo(sd,&n,&na);
 for(int i=0;i<n;i++){int32 s=SDselect(sd,i); char nm[128]; int32 r,d[10],nt,a; SDgetinfo(s,nm,&r,d,&nt,&a);
  printf("%d %s rank %d nt %d nattr %d iscoord %d\n",i,nm,r,nt,a,SDiscoordvar(s));
  for(int k=0;k<r;k++){int32 di=SDgetdimid(s,k); char dn[128]; int32 sz,dnt,dna; SDdiminfo(di,dn,&sz,&dnt,&dna);
   char l[64]="",u[64]="",f[64]=""; int rc=SDgetdimstrs(di,l,u,f,64);
   printf("   dim %d %s size %d nt %d nattr %d strs rc=%d '%s' '%s' '%s'\n",k,dn,sz,dnt,dna,rc,l,u,f);}
 }
 return 0;}
