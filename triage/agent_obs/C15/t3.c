#include <stdio.h>
#include "hdf.h"
int main(int argc,char**argv){ int32 x,y; int nc,il; 
 int rc=DFGRIgetdims(argv[1],&x,&y,&nc,&il,1); printf("rc %d %d %d nc %d il %d\n",rc,x,y,nc,il); HEprint(stdout,0);
 rc=DFGRIgetdims(argv[1],&x,&y,&nc,&il,1); printf("rc %d %d %d nc %d il %d\n",rc,x,y,nc,il);
 return 0;}
