#include <stdio.h>
#include "hdf.h"
#include "mfhdf.h"
int main(void){ int32 dims[2]={3,4}; float32 d[12]={1,2,3}; int32 n,na; int rank; int32 dz[2]; int cnt=0;
 remove("b5.hdf"); int32 sd=SDstart("b5.hdf",DFACC_CREATE), s=SDcreate(sd,"A",DFNT_FLOAT32,2,dims); int32 st[2]={0,0}; SDwritedata(s,st,NULL,dims,d); SDendaccess(s); SDend(sd);
 DFSDclear(); DFSDsetdims(2,dims); if(DFSDadddata("b5.hdf",2,dims,d)==FAIL)printf("DFSDadddata failed\n");
 DFSDrestart(); while(DFSDgetdims("b5.hdf",&rank,dz,2)!=FAIL)cnt++; 
 sd=SDstart("b5.hdf",DFACC_READ); SDfileinfo(sd,&n,&na); printf("DFSD sees %d data sets, SD sees %d\n",cnt,n); SDend(sd); return cnt!=n; }
