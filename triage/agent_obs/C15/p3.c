#include <stdio.h>
#include <string.h>
#include "hdf.h"
#define FN "p3.hdf"
#define XD 7
#define YD 5
int main(void){
 uint8 img[YD][XD], img2[YD][XD], pal[768], pal2[768], id8[4], *p; int i,j;
 for(i=0;i<YD;i++)for(j=0;j<XD;j++){img[i][j]=(uint8)(i*XD+j+1); img2[i][j]=(uint8)(200-i*XD-j);} 
 for(i=0;i<768;i++){pal[i]=(uint8)(i*7+3); pal2[i]=(uint8)(255-i);}
 remove(FN);
 int32 f=Hopen(FN,DFACC_CREATE,0);
 id8[0]=0; id8[1]=XD; id8[2]=0; id8[3]=YD; (void)p;
 /* image ref 5: with palette; image ref 9: without palette */
 Hputelement(f,DFTAG_ID8,5,id8,4); Hputelement(f,DFTAG_IP8,5,pal,768); Hputelement(f,DFTAG_RI8,5,(uint8*)img,XD*YD);
 Hputelement(f,DFTAG_ID8,9,id8,4); Hputelement(f,DFTAG_RI8,9,(uint8*)img2,XD*YD);
 Hclose(f);
 /* DFR8 view */
 int32 x,y; int ispal; uint8 g[YD][XD], gp[768];
 DFR8restart();
 while(DFR8getdims(FN,&x,&y,&ispal)!=FAIL){ memset(gp,0,768); int rc=DFR8getimage(FN,(uint8*)g,XD,YD,gp); printf("DFR8: ref %d dims %d %d ispal %d rc %d img %s pal %s\n",DFR8lastref(),x,y,ispal,rc, !memcmp(g,img,35)?"=img1":!memcmp(g,img2,35)?"=img2":"??", !memcmp(gp,pal,768)?"=pal":"other"); }
 /* GR view */
 f=Hopen(FN,DFACC_READ,0); int32 gr=GRstart(f),n,na; GRfileinfo(gr,&n,&na); printf("GR: %d images\n",n);
 for(i=0;i<n;i++){int32 ri=GRselect(gr,i); char nm[64]; int32 nc,nt,il,d[2],a; GRgetiminfo(ri,nm,&nc,&nt,&il,d,&a); int32 st[2]={0,0}; memset(g,0,35); int rc=GRreadimage(ri,st,NULL,d,g);
  int32 lut=GRgetlutid(ri,0); int32 lnc=-9,lnt=-9,lil=-9,lne=-9; int rl=GRgetlutinfo(lut,&lnc,&lnt,&lil,&lne); memset(gp,0,768); int rr=(lne>0)?GRreadlut(lut,gp):-2;
  printf("GR: %s ref %d nc %d nt %d dims %d %d rc %d img %s | lut rc %d ncomp %d nt %d nent %d read %d pal %s\n",nm,GRidtoref(ri),nc,nt,d[0],d[1],rc,!memcmp(g,img,35)?"=img1":!memcmp(g,img2,35)?"=img2":"??",rl,lnc,lnt,lne,rr,!memcmp(gp,pal,768)?"=pal":"other"); GRendaccess(ri);}
 GRend(gr);Hclose(f); return 0;}
