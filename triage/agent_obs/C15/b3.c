#include <stdio.h>
#include "hdf.h"
int main(void){ uint8 img[4][5]={{1}}; int32 dims[2]={5,4}, st[2]={0,0}, x,y; int ip;
 remove("b3.hdf"); int32 f=Hopen("b3.hdf",DFACC_CREATE,0), gr=GRstart(f), ri=GRcreate(gr,"i",1,DFNT_UINT8,MFGR_INTERLACE_PIXEL,dims);
 GRwriteimage(ri,st,NULL,dims,img); GRendaccess(ri); GRend(gr); Hclose(f);
 int rc=DFR8getdims("b3.hdf",&x,&y,&ip); printf("DFR8getdims on GR-written uint8 image: rc %d\n",rc); if(rc<0)HEprint(stdout,0); return rc<0; }
