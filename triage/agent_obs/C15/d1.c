/* C15 demo 1: DFSD-written dimension scales must be seen identically by SD. */
#include <stdio.h>
#include <string.h>
#include "hdf.h"
#include "mfhdf.h"

#define FN "c15_d1.hdf"
#define D0 3
#define D1 4
#define D2 5

int main(void)
{
    int32   dims[3] = {D0, D1, D2};
    float32 data[D0][D1][D2];
    float32 sc1[D1] = {10.5f, 20.5f, 30.5f, 40.5f};
    float32 sc2[D2] = {-1.f, -2.f, -3.f, -4.f, -5.f};
    float32 rd[D0][D1][D2], got[8], ref[8];
    int     i, j, k, bad = 0;
    int32   sd, sds, dimid, rank, dsz[3], nt, nattr, start[3] = {0, 0, 0};
    int32   size, dnt, dnattr;
    char    name[128];

    for (i = 0; i < D0; i++)
        for (j = 0; j < D1; j++)
            for (k = 0; k < D2; k++)
                data[i][j][k] = (float32)(100 * i + 10 * j + k);

    remove(FN);
    if (DFSDclear() == FAIL) return 2;
    if (DFSDsetNT(DFNT_FLOAT32) == FAIL) return 2;
    if (DFSDsetdims(3, dims) == FAIL) return 2;
    /* dimension 1: strings only, no scale; dimensions 2 and 3: scales */
    if (DFSDsetdimstrs(1, "time", "s", "F5.1") == FAIL) return 2;
    if (DFSDsetdimscale(2, D1, sc1) == FAIL) return 2;
    if (DFSDsetdimscale(3, D2, sc2) == FAIL) return 2;
    if (DFSDadddata(FN, 3, dims, data) == FAIL) return 2;

    /* what the single-file interface itself reports */
    if (DFSDrestart() == FAIL) return 2;
    if (DFSDgetdims(FN, &rank, dsz, 3) == FAIL) return 2;
    if (DFSDgetdimscale(2, D1, ref) == FAIL) return 2;
    if (memcmp(ref, sc1, sizeof sc1)) { printf("DFSD itself disagrees on scale 2\n"); return 2; }
    if (DFSDgetdimscale(3, D2, ref) == FAIL) return 2;
    if (memcmp(ref, sc2, sizeof sc2)) { printf("DFSD itself disagrees on scale 3\n"); return 2; }

    /* multi-file view */
    sd = SDstart(FN, DFACC_READ);
    if (sd == FAIL) return 2;
    sds = SDselect(sd, SDreftoindex(sd, DFSDlastref()) );
    if (sds == FAIL) { printf("SDselect failed\n"); return 2; }
    if (SDgetinfo(sds, name, &rank, dsz, &nt, &nattr) == FAIL) return 2;
    if (rank != 3 || dsz[0] != D0 || dsz[1] != D1 || dsz[2] != D2 || nt != DFNT_FLOAT32) {
        printf("SD: rank/dims/type differ\n"); bad = 1;
    }
    int32 edges[3] = {D0, D1, D2};
    if (SDreaddata(sds, start, NULL, edges, rd) == FAIL) return 2;
    if (memcmp(rd, data, sizeof data)) { printf("SD: data differ\n"); bad = 1; }

    dimid = SDgetdimid(sds, 1);
    if (SDdiminfo(dimid, name, &size, &dnt, &dnattr) == FAIL) return 2;
    if (size != D1 || dnt != DFNT_FLOAT32) { printf("SD: dim 1 info differs (size %d nt %d)\n", (int)size, (int)dnt); bad = 1; }
    memset(got, 0, sizeof got);
    if (SDgetdimscale(dimid, got) == FAIL) { printf("SDgetdimscale(1) failed\n"); bad = 1; }
    for (i = 0; i < D1; i++)
        if (got[i] != sc1[i]) { printf("SD: scale of dim 1 [%d] = %g, DFSD wrote %g\n", i, got[i], sc1[i]); bad = 1; }

    dimid = SDgetdimid(sds, 2);
    if (SDdiminfo(dimid, name, &size, &dnt, &dnattr) == FAIL) return 2;
    if (size != D2 || dnt != DFNT_FLOAT32) { printf("SD: dim 2 info differs\n"); bad = 1; }
    memset(got, 0, sizeof got);
    if (SDgetdimscale(dimid, got) == FAIL) { printf("SDgetdimscale(2) failed\n"); bad = 1; }
    for (i = 0; i < D2; i++)
        if (got[i] != sc2[i]) { printf("SD: scale of dim 2 [%d] = %g, DFSD wrote %g\n", i, got[i], sc2[i]); bad = 1; }

    /* dim 0 has strings but no scale */
    {
        char l[64] = "", u[64] = "", f[64] = "";
        dimid = SDgetdimid(sds, 0);
        if (SDgetdimstrs(dimid, l, u, f, 64) == FAIL) { printf("SDgetdimstrs failed\n"); bad = 1; }
        if (strcmp(l, "time") || strcmp(u, "s") || strcmp(f, "F5.1")) { printf("SD: dim 0 strings differ: %s %s %s\n", l, u, f); bad = 1; }
    }
    SDendaccess(sds);
    SDend(sd);
    printf(bad ? "C15 VIOLATED\n" : "C15 holds\n");
    return bad;
}
