#include "hdf.h"
#include <stdio.h>
#include <string.h>
int main(void){
  int32 fid,grid,riid,dims[2]={2,2},start[2]={0,0}; uint8 img[4]={1,2,3,4};
  int32 a5[5]={1,2,3,4,5}, a2[2]={9,8}, nt,cnt; char nm[300];
  /* GR: replace with smaller count */
  fid=Hopen("g.hdf",DFACC_CREATE,0); grid=GRstart(fid); riid=GRcreate(grid,"i",1,DFNT_UINT8,MFGR_INTERLACE_PIXEL,dims);
  GRwriteimage(riid,start,NULL,dims,img); GRsetattr(riid,"a",DFNT_INT32,5,a5); GRendaccess(riid); GRend(grid); Hclose(fid);
  fid=Hopen("g.hdf",DFACC_RDWR,0); grid=GRstart(fid); riid=GRselect(grid,0);
  printf("GR shrink set rc=%d\n",GRsetattr(riid,"a",DFNT_INT32,2,a2)); GRattrinfo(riid,0,nm,&nt,&cnt); printf("GR same-session count=%d\n",cnt);
  GRendaccess(riid); GRend(grid); Hclose(fid);
  fid=Hopen("g.hdf",DFACC_READ,0); grid=GRstart(fid); riid=GRselect(grid,0); GRattrinfo(riid,0,nm,&nt,&cnt); printf("GR after reopen count=%d (last set 2)\n",cnt);
  GRendaccess(riid); GRend(grid); Hclose(fid);
  /* Vsetattr long name twice */
  { char ln[81]; memset(ln,'x',80); ln[80]=0; int32 v1=1,v2=2,vg; 
    fid=Hopen("v.hdf",DFACC_CREATE,0); Vstart(fid); vg=Vattach(fid,-1,"w"); Vsetname(vg,"g");
    printf("Vsetattr long #1 rc=%d\n",Vsetattr(vg,ln,DFNT_INT32,1,&v1)); printf("Vsetattr long #2 rc=%d\n",Vsetattr(vg,ln,DFNT_INT32,1,&v2));
    printf("Vnattrs=%d (expected 1) Vfindattr(full name)=%d\n",Vnattrs(vg),Vfindattr(vg,ln)); Vdetach(vg); Vend(fid); Hclose(fid);}
  return 0;
}
