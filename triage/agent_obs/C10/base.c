#include "mfhdf.h"
#include <stdio.h>
#include <string.h>
#define CK(x) do{ if((x)==FAIL){printf("FAIL line %d: %s\n",__LINE__,#x);} }while(0)
int main(void){
  int32 sd,sds,sds2,dim; int32 dims[2]={3,4}; char l[100],u[100],f[100]; char nm[300]; int32 sz,nt,na,cnt;
  /* 1. dimname after dimstrs */
  sd=SDstart("b1.hdf",DFACC_CREATE); sds=SDcreate(sd,"d",DFNT_INT32,2,dims);
  dim=SDgetdimid(sds,0); CK(SDsetdimstrs(dim,"lab","un","fm")); CK(SDsetdimname(dim,"Xdim"));
  CK(SDgetdimstrs(dim,l,u,f,100)); printf("1 same-session: '%s' '%s' '%s'\n",l,u,f);
  SDendaccess(sds); SDend(sd);
  sd=SDstart("b1.hdf",DFACC_READ); sds=SDselect(sd,0); dim=SDgetdimid(sds,0);
  CK(SDdiminfo(dim,nm,&sz,&nt,&na)); CK(SDgetdimstrs(dim,l,u,f,100)); printf("1 reopen: name=%s nattr=%d '%s' '%s' '%s'\n",nm,na,l,u,f);
  SDend(sd);
  /* 2. fakeDim renumbering with shared dims */
  sd=SDstart("b2.hdf",DFACC_CREATE); sds=SDcreate(sd,"A",DFNT_INT32,2,dims); sds2=SDcreate(sd,"B",DFNT_INT32,2,dims);
  CK(SDsetdimname(SDgetdimid(sds,0),"X")); CK(SDsetdimname(SDgetdimid(sds2,0),"X"));
  dim=SDgetdimid(sds2,1); CK(SDsetdimstrs(dim,"lab2","un2","fm2"));
  SDdiminfo(dim,nm,&sz,&nt,&na); printf("2 before: name=%s nattr=%d\n",nm,na);
  SDendaccess(sds); SDendaccess(sds2); SDend(sd);
  sd=SDstart("b2.hdf",DFACC_READ); sds2=SDselect(sd,SDnametoindex(sd,"B")); dim=SDgetdimid(sds2,1);
  CK(SDdiminfo(dim,nm,&sz,&nt,&na)); CK(SDgetdimstrs(dim,l,u,f,100)); printf("2 reopen: name=%s nattr=%d '%s' '%s' '%s'\n",nm,na,l,u,f);
  SDend(sd);
  /* 4. long names */
  { char ln[101]; memset(ln,'n',100); ln[100]=0; int32 v=7;
  sd=SDstart("b4.hdf",DFACC_CREATE); CK(SDsetattr(sd,ln,DFNT_INT32,1,&v)); SDend(sd);
  sd=SDstart("b4.hdf",DFACC_READ); CK(SDattrinfo(sd,0,nm,&nt,&cnt)); printf("4 long name len after reopen=%d (set 100) find=%d\n",(int)strlen(nm),SDfindattr(sd,ln)); SDend(sd);}
  /* 6. user dim name with fakeDim prefix */
  sd=SDstart("b6.hdf",DFACC_CREATE); sds=SDcreate(sd,"A",DFNT_INT32,2,dims);
  CK(SDsetdimname(SDgetdimid(sds,1),"fakeDimension")); SDendaccess(sds); SDend(sd);
  sd=SDstart("b6.hdf",DFACC_READ); sds=SDselect(sd,0); SDdiminfo(SDgetdimid(sds,1),nm,&sz,&nt,&na); printf("6 name after reopen=%s\n",nm); SDend(sd);
  /* 5. share existing dim in reopen session only */
  sd=SDstart("b5.hdf",DFACC_CREATE); sds=SDcreate(sd,"A",DFNT_INT32,2,dims); sds2=SDcreate(sd,"B",DFNT_INT32,2,dims);
  CK(SDsetdimname(SDgetdimid(sds,0),"X")); SDendaccess(sds); SDendaccess(sds2); SDend(sd);
  sd=SDstart("b5.hdf",DFACC_RDWR); sds2=SDselect(sd,1); CK(SDsetdimname(SDgetdimid(sds2,0),"X")); SDendaccess(sds2); SDend(sd);
  sd=SDstart("b5.hdf",DFACC_READ); sds2=SDselect(sd,1); SDdiminfo(SDgetdimid(sds2,0),nm,&sz,&nt,&na); printf("5 B dim0 after reopen=%s\n",nm); SDend(sd);
  return 0;
}
