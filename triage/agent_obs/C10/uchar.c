#include "mfhdf.h"
#include <stdio.h>
#include <string.h>
int main(void){
  int32 sd=SDstart("uchar.hdf",DFACC_CREATE);
  uint8 v[5]={1,2,3,4,5};
  int32 dims[1]={4};
  int32 sds=SDcreate(sd,"d",DFNT_INT32,1,dims);
  if(SDsetattr(sds,"ua",DFNT_UCHAR8,5,v)<0) return 2;
  if(SDsetattr(sd,"ga",DFNT_UCHAR8,5,v)<0) return 2;
  SDendaccess(sds); SDend(sd);
  sd=SDstart("uchar.hdf",DFACC_READ);
  sds=SDselect(sd,0);
  char nm[100]; int32 nt,cnt; 
  SDattrinfo(sds,0,nm,&nt,&cnt); printf("%s nt=%d cnt=%d\n",nm,nt,cnt);
  int rc = !(nt==DFNT_UCHAR8 && cnt==5);
  SDattrinfo(sd,0,nm,&nt,&cnt); printf("%s nt=%d cnt=%d\n",nm,nt,cnt);
  SDend(sd);
  return rc;
}
