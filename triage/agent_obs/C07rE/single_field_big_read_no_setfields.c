/* baseline check (a): single-field vdata, read >1MB without VSsetfields */
#include "hdf.h"
#include <stdio.h>
#include <stdlib.h>
#define N 300000
int main(void){
    int32 f, vs, ref, i, n; int32 *buf = malloc(N*4), *rb = calloc(N,4);
    for(i=0;i<N;i++) buf[i]=i*7+1;
    f=Hopen("b1.hdf",DFACC_CREATE,0); Vstart(f);
    vs=VSattach(f,-1,"w"); VSfdefine(vs,"A",DFNT_INT32,1); VSsetfields(vs,"A");
    n=VSwrite(vs,(uint8*)buf,N,FULL_INTERLACE); printf("wrote %d\n",n);
    ref=VSQueryref(vs); VSdetach(vs); Vend(f); Hclose(f);
    f=Hopen("b1.hdf",DFACC_READ,0); Vstart(f);
    vs=VSattach(f,ref,"r");
    n=VSread(vs,(uint8*)rb,N,FULL_INTERLACE); printf("read %d\n",n);
    int bad=0; for(i=0;i<N;i++) if(rb[i]!=buf[i]){ if(!bad) printf("first mismatch at %d: %d vs %d\n",i,rb[i],buf[i]); bad++; }
    printf("bad=%d\n",bad);
    VSdetach(vs); Vend(f); Hclose(f); return bad!=0;
}
