/* baseline check (b): NO_INTERLACE storage, write 10 records, read first 5 */
#include "hdf.h"
#include <stdio.h>
#include <stdlib.h>
#include <string.h>
int main(void){
    int32 f, vs, ref, i, n; int bad;
    uint8 wb[10*6], rb[10*6];
    for(i=0;i<10;i++){ int32 a=100+i; int16 b=(int16)(200+i); memcpy(wb+i*6,&a,4); memcpy(wb+i*6+4,&b,2);}    
    f=Hopen("b2.hdf",DFACC_CREATE,0); Vstart(f);
    vs=VSattach(f,-1,"w"); VSfdefine(vs,"A",DFNT_INT32,1); VSfdefine(vs,"B",DFNT_INT16,1);
    VSsetinterlace(vs,NO_INTERLACE);
    VSsetfields(vs,"A,B");
    n=VSwrite(vs,wb,10,FULL_INTERLACE); printf("wrote %d\n",n);
    ref=VSQueryref(vs); VSdetach(vs); Vend(f); Hclose(f);
    f=Hopen("b2.hdf",DFACC_READ,0); Vstart(f);
    vs=VSattach(f,ref,"r"); VSsetfields(vs,"A,B");
    n=VSread(vs,rb,10,FULL_INTERLACE); printf("read all %d cmp=%d\n",n,memcmp(rb,wb,60));
    VSseek(vs,0);
    memset(rb,0,60);
    n=VSread(vs,rb,5,FULL_INTERLACE); bad = memcmp(rb,wb,30) != 0; printf("read 5 -> %d mismatch=%d\n",n,bad);
    for(i=0;i<5;i++){int32 a; int16 b; memcpy(&a,rb+i*6,4); memcpy(&b,rb+i*6+4,2); printf("rec %d: %d %d\n",i,a,b);}
    VSdetach(vs); Vend(f); Hclose(f); return bad;
}
