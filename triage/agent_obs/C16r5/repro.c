/*
 * Baseline finding (UNMODIFIED tree): a read fault while SDstart() loads an
 * existing file is swallowed and the file is then silently corrupted.
 *
 * hdf_read_vars() (mfhdf/src/cdf.c, case DFTAG_SD) calls
 *     data_count = Hlength(handle->hdf_file, DATA_TAG, sub_id);
 * and deliberately ignores a FAIL result ("So we can't catch this error -GV").
 * For a record variable stored as a linked-block element Hlength() has to read
 * the special header (Hstartread -> HPseek/HP_read).  If that fseek/fread
 * fails, data_count is -1, the variable's record count is derived from it,
 * SDstart still succeeds, and after appending a third record SDwritedata,
 * SDendaccess and SDend all report success -- but the "Values" vdata of the
 * unlimited dimension (class DimVal0.1) still says 2 records instead of 3
 * (one byte of the file differs from the fault-free result).
 * Faulted calls: stdio call #28 (fseek) and #29 (fread) of the workload below.
 *
 * build: as the other demos (needs the --wrap link flags); exit 1 = violated.
 */
#include <errno.h>
#include <fcntl.h>
#include <signal.h>
#include <stdio.h>
#include <stdio_ext.h>
#include <stdlib.h>
#include <string.h>
#include <sys/wait.h>
#include <unistd.h>

#include "hdf.h"
#include "mfhdf.h"

/* ------------------------------------------------------------------ */
/* stdio fault injection (the library does all its file I/O through   */
/* fopen/fread/fwrite/fseek/fflush/fclose, see hfile_priv.h)           */
/* ------------------------------------------------------------------ */
static long fi_count  = 0;  /* index of the next wrapped stdio call */
static long fi_target = -1; /* index of the call that fails (-1: none) */
static int  fi_sticky = 0;  /* 1: every later call fails too */
static int  fi_hit    = 0;  /* number of faults injected so far */
static int  fi_on     = 0;  /* count/inject only while the workload runs */

FILE  *__real_fopen(const char *, const char *);
size_t __real_fread(void *, size_t, size_t, FILE *);
size_t __real_fwrite(const void *, size_t, size_t, FILE *);
int    __real_fseek(FILE *, long, int);
int    __real_fflush(FILE *);
int    __real_fclose(FILE *);

static int
fi_fail(void)
{
    long k;

    if (!fi_on)
        return 0;
    k = fi_count++;
    if (fi_target >= 0 && (k == fi_target || (fi_sticky && k > fi_target))) {
        fi_hit++;
        return 1;
    }
    return 0;
}

FILE *
__wrap_fopen(const char *p, const char *m)
{
    if (fi_fail()) {
        errno = EIO;
        return NULL;
    }
    return __real_fopen(p, m);
}

size_t
__wrap_fread(void *b, size_t s, size_t n, FILE *f)
{
    if (fi_fail()) {
        errno = EIO;
        return 0; /* short count */
    }
    return __real_fread(b, s, n, f);
}

size_t
__wrap_fwrite(const void *b, size_t s, size_t n, FILE *f)
{
    if (f != stdout && f != stderr && fi_fail()) {
        errno = ENOSPC;
        return 0; /* short count, nothing written */
    }
    return __real_fwrite(b, s, n, f);
}

int
__wrap_fseek(FILE *f, long o, int w)
{
    if (fi_fail()) {
        errno = EIO;
        return -1;
    }
    return __real_fseek(f, o, w);
}

int
__wrap_fflush(FILE *f)
{
    if (f != NULL && f != stdout && f != stderr && fi_fail()) {
        errno = ENOSPC;
        return EOF;
    }
    return __real_fflush(f);
}

int
__wrap_fclose(FILE *f)
{
    if (fi_fail()) {
        __fpurge(f); /* the still-buffered data could not be written */
        __real_fclose(f);
        errno = ENOSPC;
        return EOF;
    }
    return __real_fclose(f);
}

/* byte-wise file comparison: 0 identical, 1 different */
static int
files_differ(const char *a, const char *b)
{
    int           fa = open(a, O_RDONLY), fb = open(b, O_RDONLY);
    unsigned char ba[4096], bb[4096];
    int           r = (fa < 0 || fb < 0);

    while (!r) {
        ssize_t na = read(fa, ba, sizeof ba), nb = read(fb, bb, sizeof bb);

        if (na != nb || na < 0 || memcmp(ba, bb, (size_t)na) != 0)
            r = 1;
        if (na <= 0)
            break;
    }
    if (fa >= 0)
        close(fa);
    if (fb >= 0)
        close(fb);
    return r;
}

#define OUT "c16_out.hdf" /* every run writes this name (SD files embed their path) */
#define REF "c16_ref.hdf" /* the fault-free result, renamed */

/* the workload; returns the number of API calls that returned their failure value */
static int workload(const char *path);

/* creates the input file (no faults injected) */
static void prepare(const char *path);

/* Run the workload once in a child process with stdio call number k failing
 * (k < 0: no fault).  Returns 0 if no fault was injected or at least one API call
 * reported failure, 1 if a fault was injected and every call incl. the close
 * reported success, 2 on a crash or hang.  *ncalls gets the number of stdio calls. */
static int
run_once(long k, int sticky, long *ncalls)
{
    int   pfd[2], st;
    long  n = -1;
    pid_t pid;

    fflush(stdout);
    unlink(OUT);
    prepare(OUT);
    if (pipe(pfd) != 0)
        return 2;
    pid = fork();
    if (pid == 0) {
        int nfail;

        close(pfd[0]);
        alarm(30);
        fi_count = 0; fi_target = k; fi_sticky = sticky; fi_hit = 0;
        fi_on = 1;
        nfail = workload(OUT);
        fi_on = 0;
        if (write(pfd[1], &fi_count, sizeof fi_count) != (ssize_t)sizeof fi_count)
            _exit(2);
        _exit((fi_hit > 0 && nfail == 0) ? 1 : (k < 0 && nfail != 0) ? 3 : 0);
    }
    close(pfd[1]);
    if (read(pfd[0], &n, sizeof n) != (ssize_t)sizeof n)
        n = -1;
    close(pfd[0]);
    waitpid(pid, &st, 0);
    if (ncalls != NULL)
        *ncalls = n;
    if (!WIFEXITED(st))
        return 2;
    return WEXITSTATUS(st);
}

int
main(void)
{
    long n = 0, k;
    int  sticky, r, bad = 0, benign = 0;

    /* fault-free reference run */
    r = run_once(-1, 0, &n);
    if (r != 0 || n <= 0) {
        printf("reference run failed (%d)\n", r);
        return 2;
    }
    rename(OUT, REF);
    printf("fault-free run: %ld stdio calls\n", n);

    /* fail every stdio call in turn, once as a single fault and once as a sticky fault */
    for (sticky = 0; sticky <= 1; sticky++)
        for (k = 0; k < n; k++) {
            r = run_once(k, sticky, NULL);
            if (r == 1) { /* the fault was not reported by any call */
                if (files_differ(REF, OUT)) {
                    printf("VIOLATION: %s fault at stdio call #%ld: every call up to and including the close "
                           "reported success, but the file differs from the fault-free one\n",
                           sticky ? "sticky" : "single", k);
                    bad++;
                }
                else
                    benign++; /* e.g. a tolerated read: the result is still byte-identical */
            }
            else if (r != 0) {
                printf("VIOLATION: %s fault at stdio call #%ld: crash or hang\n", sticky ? "sticky" : "single", k);
                bad++;
            }
        }
    unlink(OUT);
    unlink(REF);
    printf("%d unreported fault(s) left the file byte-identical (harmless)\n", benign);
    printf("%s\n", bad ? "C16 VIOLATED: an I/O failure was swallowed" : "C16 holds for this workload");
    return bad ? 1 : 0;
}

static void
prepare(const char *path)
{
    int32 sd, sds, dims[2] = {SD_UNLIMITED, 3}, start[2] = {0, 0}, edges[2] = {2, 3};
    int32 buf[2][3] = {{1, 2, 3}, {4, 5, 6}};

    sd  = SDstart(path, DFACC_CREATE);
    sds = SDcreate(sd, "rec", DFNT_INT32, 2, dims);
    SDwritedata(sds, start, NULL, edges, buf);
    SDendaccess(sds);
    if (SDend(sd) == FAIL) {
        printf("prepare failed\n");
        exit(2);
    }
}

/* re-open the file and append one record */
static int
workload(const char *path)
{
    int32 sd, sds, start[2] = {2, 0}, edges[2] = {1, 3};
    int32 buf[3] = {7, 8, 9};
    int   nfail = 0;

    if ((sd = SDstart(path, DFACC_WRITE)) == FAIL)
        return 1;
    if ((sds = SDselect(sd, 0)) == FAIL)
        return 1 + (SDend(sd) == FAIL);
    if (SDwritedata(sds, start, NULL, edges, buf) == FAIL)
        nfail++;
    if (SDendaccess(sds) == FAIL)
        nfail++;
    if (SDend(sd) == FAIL)
        nfail++;
    return nfail;
}
