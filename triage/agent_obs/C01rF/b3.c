/* B3: two handles on one linked-block element, obtained through two ids of the same open file */
#include <stdio.h>
#include <string.h>
#include "hdf.h"
#include "hfile.h"
int main(void){
    uint8 buf[256]; int32 f1, f2, a, b, n, len=-1;
    remove("b3.hdf");
    f1 = Hopen("b3.hdf", DFACC_CREATE, 0);
    a = HLcreate(f1, 3000, 1, 16, 4);
    Hwrite(a, 10, "0123456789");
    f2 = Hopen("b3.hdf", DFACC_RDWR, 0);          /* second id, same file record */
    b = Hstartread(f2, 3000, 1);
    printf("f1=%d f2=%d b=%d\n",(int)f1,(int)f2,(int)b);
    Hwrite(a, 30, "abcdefghijklmnopqrstuvwxyzABCD");   /* grows to 40 via handle a */
    Hinquire(b, NULL,NULL,NULL,&len,NULL,NULL,NULL,NULL);
    memset(buf,0,sizeof buf);
    n = Hread(b, 40, buf);
    printf("handle b: length=%d read=%d \"%s\"\n", (int)len, (int)n, buf);
    Hendaccess(a); Hendaccess(b); Hclose(f2); Hclose(f1);
    return (len==40 && n==40) ? 0 : 1;
}
