#include <stdio.h>
#include <string.h>
#include "mfhdf.h"
static unsigned char img[256]; static size_t pos;
static void put32(unsigned v){img[pos++]=v>>24;img[pos++]=v>>16;img[pos++]=v>>8;img[pos++]=v;}
static void putname(const char*s){size_t n=strlen(s),i;put32(n);for(i=0;i<n;i++)img[pos++]=s[i];while(pos%4)img[pos++]=0;}
int main(void){
  FILE*fp; int32 sd; short v=7;
  img[pos++]='C';img[pos++]='D';img[pos++]='F';img[pos++]=1; put32(0);
  put32(10);put32(1);putname("x");put32(2);
  put32(12);put32(1);putname("a");put32(3);put32(1);put32(0x00050000);
  put32(11);put32(1);putname("v");put32(1);put32(0);put32(0);put32(0);put32(3);put32(4);put32(pos+4);put32(0x00010002);
  fp=fopen("r.nc","wb");fwrite(img,1,pos,fp);fclose(fp);
  sd=SDstart("r.nc",DFACC_WRITE); printf("start(write)=%d\n",(int)sd);
  printf("setattr=%d\n",SDsetattr(sd,"a",DFNT_INT16,1,&v));
  printf("end=%d\n",SDend(sd));
  sd=SDstart("r.nc",DFACC_READ); printf("start(read) after=%d\n",(int)sd);
  return sd==FAIL;}
