#include "hdf.h"
#include <stdio.h>
int main(void){
  int32 f=Hopen("t2.hdf",DFACC_CREATE,0); Vstart(f);
  int32 g=Vattach(f,-1,"w"); Vsetname(g,"victim"); Vaddtagref(g,1000,1); int32 r=VQueryref(g); Vdetach(g);
  Vend(f);Hclose(f);
  f=Hopen("t2.hdf",DFACC_RDWR,0); Vstart(f);
  g=Vattach(f,r,"w"); Vaddtagref(g,1000,2);
  printf("Vdelete=%d\n",Vdelete(f,r));
  printf("Vfind after delete=%d\n",Vfind(f,"victim"));
  printf("Vdetach stale=%d\n",Vdetach(g));
  Vend(f);Hclose(f);
  f=Hopen("t2.hdf",DFACC_READ,0); Vstart(f);
  printf("reopen: Vfind=%d Vgetid=%d\n",Vfind(f,"victim"),Vgetid(f,-1));
  Vend(f);Hclose(f);
  return 0;}
