/* baseline: first (strided) write to a new image does not fill the rows above the last written row */
#include <stdio.h>
#include <string.h>
#include "hdf.h"
int main(void)
{
    int32 dims[2] = {6, 10}, start[2] = {0, 0}, stride[2] = {2, 2}, count[2] = {2, 2}, all[2] = {6, 10};
    uint16 px[4] = {11, 12, 13, 14}, out[10][6];
    int32 fid = Hopen("b1.hdf", DFACC_CREATE, 0), grid = GRstart(fid);
    int32 riid = GRcreate(grid, "i", 1, DFNT_UINT16, MFGR_INTERLACE_PIXEL, dims);
    int i, j, bad = 0, r;
    { uint16 fv = 7; GRsetattr(riid, FILL_ATTR, DFNT_UINT16, 1, &fv); }
    if (GRwriteimage(riid, start, stride, count, px) == FAIL) { puts("write fail"); return 2; }
    memset(out, 0xEE, sizeof out);
    start[0] = start[1] = 0;
    r = GRreadimage(riid, start, NULL, all, out);
    printf("GRreadimage ret=%d, Hlength=%d (image needs %d bytes)\n", r, (int)Hlength(fid, DFTAG_RI, GRidtoref(riid)), 6*10*2);
    for (j = 0; j < 10; j++) { for (i = 0; i < 6; i++) { printf("%5u ", out[j][i]);
        if (!((j==0||j==2)&&(i==0||i==2)) && out[j][i] != 7) bad = 1; } puts(""); }
    GRendaccess(riid); GRend(grid); Hclose(fid);
    return bad;
}
