/* baseline: attaching a palette in a later session to an existing uint8 1-component image:
 * GRend fails (RIG cannot be rewritten larger) and the palette is lost after reopen */
#include <stdio.h>
#include <string.h>
#include "hdf.h"
int main(void)
{
    int32 dims[2] = {4, 3}, start[2] = {0, 0};
    uint8 img[12], pal[768];
    int32 fid, grid, riid, r;
    int i;
    for (i = 0; i < 12; i++) img[i] = (uint8)i;
    for (i = 0; i < 768; i++) pal[i] = (uint8)(i * 5);
    fid = Hopen("b2.hdf", DFACC_CREATE, 0); grid = GRstart(fid);
    riid = GRcreate(grid, "i", 1, DFNT_UINT8, MFGR_INTERLACE_PIXEL, dims);
    GRwriteimage(riid, start, NULL, dims, img);
    GRendaccess(riid); GRend(grid); Hclose(fid);

    fid = Hopen("b2.hdf", DFACC_RDWR, 0); grid = GRstart(fid);
    riid = GRselect(grid, 0);
    r = GRwritelut(GRgetlutid(riid, 0), 3, DFNT_UINT8, MFGR_INTERLACE_PIXEL, 256, pal);
    printf("GRwritelut=%d\n", (int)r);
    printf("GRendaccess=%d\n", (int)GRendaccess(riid));
    r = GRend(grid);
    printf("GRend=%d\n", (int)r);
    if (r == FAIL) HEprint(stdout, 0);
    Hclose(fid);

    fid = Hopen("b2.hdf", DFACC_READ, 0); grid = GRstart(fid);
    riid = GRselect(grid, 0);
    printf("after reopen: GRgetnluts=%d\n", (int)GRgetnluts(riid));
    return (r == FAIL || GRgetnluts(riid) != 1);
}
