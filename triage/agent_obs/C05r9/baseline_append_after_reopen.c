#include <stdio.h>
#include <stdlib.h>
#include <string.h>
#include "hdf.h"
#include "hfile_priv.h"
#define TAG 1000
static void setc(comp_coder_t c,comp_info*ci,int p){memset(ci,0,sizeof*ci);if(c==COMP_CODE_SKPHUFF)ci->skphuff.skp_size=p;if(c==COMP_CODE_DEFLATE)ci->deflate.level=p;}
static int run(const char*fn,comp_coder_t c,int p,int n1,int n2,int reopen_file){
  int n=n1+n2;uint8*out=malloc(n+1),*in=malloc(n+1);int i;unsigned s=1;for(i=0;i<n;i++){s=s*1103515245+12345;out[i]=(uint8)((s>>16)%7);}
  comp_info ci;model_info mi;setc(c,&ci,p);
  int32 fid=Hopen(fn,DFACC_CREATE,0);uint16 ref=Hnewref(fid);
  int32 aid=HCcreate(fid,TAG,ref,COMP_MODEL_STDIO,&mi,c,&ci);
  if(Hwrite(aid,n1,out)!=n1){printf("w1 fail\n");return 1;}
  if(Hendaccess(aid)==FAIL){printf("end1 fail\n");return 1;}
  if(reopen_file){Hclose(fid);fid=Hopen(fn,DFACC_RDWR,0);}
  aid=Hstartwrite(fid,TAG,ref,0);if(aid==FAIL){printf("startwrite fail\n");return 1;}
  if(Hseek(aid,n1,DF_START)==FAIL){printf("seek fail\n");HEprint(stdout,0);return 1;}
  if(Hwrite(aid,n2,out+n1)!=n2){printf("w2 fail\n");HEprint(stdout,0);return 1;}
  if(Hendaccess(aid)==FAIL){printf("end2 fail\n");return 1;}
  Hclose(fid);fid=Hopen(fn,DFACC_READ,0);
  aid=Hstartread(fid,TAG,ref);int32 len;Hinquire(aid,NULL,NULL,NULL,&len,NULL,NULL,NULL,NULL);
  if(len!=n){printf("len %d != %d\n",(int)len,n);return 1;}
  if(Hread(aid,n,in)!=n){printf("read fail\n");HEprint(stdout,0);return 1;}
  if(memcmp(in,out,n)){for(i=0;in[i]==out[i];i++);printf("mismatch at %d\n",i);return 1;}
  Hendaccess(aid);Hclose(fid);return 0;}
int main(void){
  printf("none: %d\n",run("a1.hdf",COMP_CODE_NONE,0,1000,500,1));
  printf("rle: %d\n",run("a2.hdf",COMP_CODE_RLE,0,1000,500,1));
  printf("skphuff1: %d\n",run("a3.hdf",COMP_CODE_SKPHUFF,1,1000,500,1));
  printf("skphuff4: %d\n",run("a4.hdf",COMP_CODE_SKPHUFF,4,1001,500,1));
  printf("deflate: %d\n",run("a5.hdf",COMP_CODE_DEFLATE,6,1000,500,1));
  return 0;}
