#define _GNU_SOURCE
#include <dlfcn.h>
#include <errno.h>
#include <stdio.h>
#include <stdlib.h>
#include <string.h>
#include <sys/wait.h>
#include <unistd.h>

#include "hdf.h"

/* ------------------------------------------------------------------ fault injection */
static long g_calls   = 0;  /* stdio calls of the library so far */
static long g_fail_at = -1; /* index of the failing call, -1 = none */
static int  g_sticky  = 0;  /* all calls from g_fail_at on fail */
static int  g_armed   = 0;  /* count / inject only while the workload runs */
static int  g_verbose = 0;

static int
hit(const char *what)
{
    if (!g_armed)
        return 0;
    g_calls++;
    if (g_fail_at < 0)
        return 0;
    if (g_calls == g_fail_at || (g_sticky && g_calls > g_fail_at)) {
        if (g_verbose)
            fprintf(stderr, "    stdio call %ld (%s) fails\n", g_calls, what);
        return 1;
    }
    return 0;
}

typedef size_t (*fwrite_t)(const void *, size_t, size_t, FILE *);
typedef size_t (*fread_t)(void *, size_t, size_t, FILE *);
typedef int (*fseek_t)(FILE *, long, int);
typedef int (*fflush_t)(FILE *);
typedef int (*fclose_t)(FILE *);
typedef FILE *(*fopen_t)(const char *, const char *);

#define REAL(name, type)                                                                                     \
    static type real = NULL;                                                                                 \
    if (real == NULL)                                                                                        \
        real = (type)dlsym(RTLD_NEXT, name);

size_t
fwrite(const void *p, size_t s, size_t n, FILE *f)
{
    REAL("fwrite", fwrite_t)
    if (f != stderr && f != stdout && hit("fwrite")) {
        errno = ENOSPC;
        return 0;
    }
    return real(p, s, n, f);
}
size_t
fread(void *p, size_t s, size_t n, FILE *f)
{
    REAL("fread", fread_t)
    if (hit("fread")) {
        errno = EIO;
        return 0;
    }
    return real(p, s, n, f);
}
int
fseek(FILE *f, long o, int w)
{
    REAL("fseek", fseek_t)
    if (hit("fseek")) {
        errno = EIO;
        return -1;
    }
    return real(f, o, w);
}
int
fflush(FILE *f)
{
    REAL("fflush", fflush_t)
    if (f != NULL && f != stderr && f != stdout && hit("fflush")) {
        errno = EIO;
        return EOF;
    }
    return real(f);
}
int
fclose(FILE *f)
{
    REAL("fclose", fclose_t)
    if (hit("fclose")) {
        real(f);
        errno = EIO;
        return EOF;
    }
    return real(f);
}
FILE *
fopen(const char *path, const char *mode)
{
    REAL("fopen", fopen_t)
    if (hit("fopen")) {
        errno = EIO;
        return NULL;
    }
    return real(path, mode);
}


/* baseline reproducer: read failure while ANfileinfo builds the data-label tree */
int
main(int argc, char **argv)
{
    int32 fid, an, ann, nfl, nfd, ndl, ndd;
    uint8 A[8] = "AAAAAAA";
    int   i, r;

    unlink("ba.hdf");
    fid = Hopen("ba.hdf", DFACC_CREATE, 0);
    for (i = 1; i <= 3; i++)
        Hputelement(fid, 1000, (uint16)i, A, 8);
    an = ANstart(fid);
    for (i = 1; i <= 3; i++) {
        ann = ANcreate(an, 1000, (uint16)i, AN_DATA_LABEL);
        ANwriteann(ann, "label", 5);
        ANendaccess(ann);
    }
    ANend(an);
    Hclose(fid);

    fid = Hopen("ba.hdf", DFACC_READ, 0);
    an  = ANstart(fid);
    g_calls = 0; g_armed = 1; g_fail_at = argc > 1 ? atoi(argv[1]) : 3; g_sticky = 0; g_verbose = 1;
    r = ANfileinfo(an, &nfl, &nfd, &ndl, &ndd);
    g_armed = 0;
    printf("ANfileinfo = %d (stdio calls %ld)\n", r, g_calls);
    printf("ANend = %d\n", ANend(an));
    printf("Hclose = %d\n", Hclose(fid));
    return 0;
}
