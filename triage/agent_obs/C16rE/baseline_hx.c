#define _GNU_SOURCE
#include <dlfcn.h>
#include <errno.h>
#include <stdio.h>
#include <stdlib.h>
#include <string.h>
#include <sys/wait.h>
#include <unistd.h>

#include "hdf.h"
#include "hfile_priv.h"

/* ------------------------------------------------------------------ fault injection */
static long g_calls   = 0;  /* stdio calls of the library so far */
static long g_fail_at = -1; /* index of the failing call, -1 = none */
static int  g_sticky  = 0;  /* all calls from g_fail_at on fail */
static int  g_armed   = 0;  /* count / inject only while the workload runs */
static int  g_verbose = 0;

static int
hit(const char *what)
{
    if (!g_armed)
        return 0;
    g_calls++;
    if (g_fail_at < 0)
        return 0;
    if (g_calls == g_fail_at || (g_sticky && g_calls > g_fail_at)) {
        if (g_verbose)
            fprintf(stderr, "    stdio call %ld (%s) fails\n", g_calls, what);
        return 1;
    }
    return 0;
}

typedef size_t (*fwrite_t)(const void *, size_t, size_t, FILE *);
typedef size_t (*fread_t)(void *, size_t, size_t, FILE *);
typedef int (*fseek_t)(FILE *, long, int);
typedef int (*fflush_t)(FILE *);
typedef int (*fclose_t)(FILE *);
typedef FILE *(*fopen_t)(const char *, const char *);

#define REAL(name, type)                                                                                     \
    static type real = NULL;                                                                                 \
    if (real == NULL)                                                                                        \
        real = (type)dlsym(RTLD_NEXT, name);

size_t
fwrite(const void *p, size_t s, size_t n, FILE *f)
{
    REAL("fwrite", fwrite_t)
    if (f != stderr && f != stdout && hit("fwrite")) {
        errno = ENOSPC;
        return 0;
    }
    return real(p, s, n, f);
}
size_t
fread(void *p, size_t s, size_t n, FILE *f)
{
    REAL("fread", fread_t)
    if (hit("fread")) {
        errno = EIO;
        return 0;
    }
    return real(p, s, n, f);
}
int
fseek(FILE *f, long o, int w)
{
    REAL("fseek", fseek_t)
    if (hit("fseek")) {
        errno = EIO;
        return -1;
    }
    return real(f, o, w);
}
int
fflush(FILE *f)
{
    REAL("fflush", fflush_t)
    if (f != NULL && f != stderr && f != stdout && hit("fflush")) {
        errno = EIO;
        return EOF;
    }
    return real(f);
}
int
fclose(FILE *f)
{
    REAL("fclose", fclose_t)
    if (hit("fclose")) {
        real(f);
        errno = EIO;
        return EOF;
    }
    return real(f);
}
FILE *
fopen(const char *path, const char *mode)
{
    REAL("fopen", fopen_t)
    if (hit("fopen")) {
        errno = EIO;
        return NULL;
    }
    return real(path, mode);
}


/* baseline reproducer: failed open of an external element releases the access record twice */
int
main(int argc, char **argv)
{
    int32 fid, aid, a1, a2;
    uint8 buf[32], A[8] = "AAAAAAA", B[8] = "BBBBBBB";
    long  k0;

    unlink("bx.hdf");
    unlink("bx.ext");
    fid = Hopen("bx.hdf", DFACC_CREATE, 0);
    Hputelement(fid, 1000, 1, A, 8);
    Hputelement(fid, 1000, 2, B, 8);
    aid = HXcreate(fid, 1001, 1, "bx.ext", 0, 0);
    printf("HXcreate=%d\n", (int)aid);
    printf("Hwrite=%d\n", (int)Hwrite(aid, 8, A));
    printf("Hendaccess=%d\n", (int)Hendaccess(aid));
    printf("Hclose=%d\n", (int)Hclose(fid));

    fid = Hopen("bx.hdf", DFACC_READ, 0);
    /* fail the first stdio call made by Hstartread of the external element */
    g_calls = 0; g_armed = 1; g_fail_at = argc > 1 ? atoi(argv[1]) : 1; g_sticky = 0;
    aid = Hstartread(fid, 1001, 1);
    g_armed = 0;
    printf("Hstartread(ext) with a failing seek: %d (FAIL expected)\n", (int)aid);
    a1 = Hstartread(fid, 1000, 1);
    a2 = Hstartread(fid, 1000, 2);
    memset(buf, 0, sizeof buf);
    printf("a1=%d a2=%d rec1=%p rec2=%p\n", (int)a1, (int)a2, HAatom_object(a1), HAatom_object(a2));
    printf("Hread(a1) = %d ", (int)Hread(a1, 8, buf));
    printf("-> \"%s\" (element 1000/1 holds \"AAAAAAA\")\n", buf);
    Hendaccess(a1);
    Hendaccess(a2);
    printf("Hclose = %d\n", Hclose(fid));
    return 0;
}
