#include "hdf.h"
#include <stdio.h>
#include <string.h>
int main(void){
  int32 fid=Hopen("base1.hdf",DFACC_CREATE,0); comp_info c; model_info m; int i; int bad=0;
  uint8 out[64], in[64];
  memset(&c,0,sizeof c);memset(&m,0,sizeof m);
  c.nbit.nt=DFNT_UINT8;c.nbit.sign_ext=0;c.nbit.fill_one=0;c.nbit.start_bit=5;c.nbit.bit_len=6;
  for(i=0;i<64;i++)out[i]=(uint8)((i*3+1)&0x3f);
  int32 aid=HCcreate(fid,1000,2,COMP_MODEL_STDIO,&m,COMP_CODE_NBIT,&c);
  Hwrite(aid,64,out);Hendaccess(aid);
  aid=Hstartread(fid,1000,2);
  memset(in,0xEE,64);
  int32 r1=Hread(aid,8,in); int32 r2=Hread(aid,16,in+8);
  printf("r1=%d r2=%d\n",(int)r1,(int)r2);
  for(i=0;i<24;i++) if(in[i]!=out[i]){printf("nbit: byte %d wrote %02x read %02x\n",i,out[i],in[i]);bad=1;}
  Hendaccess(aid);
  /* deflate append after reopen */
  { uint8 d[3000], e[3000]; for(i=0;i<3000;i++)d[i]=(uint8)(i*7);
    memset(&c,0,sizeof c); c.deflate.level=6;
    aid=HCcreate(fid,1000,3,COMP_MODEL_STDIO,&m,COMP_CODE_DEFLATE,&c); Hwrite(aid,2000,d); Hendaccess(aid);
    aid=Hstartwrite(fid,1000,3,2000); 
    if(Hseek(aid,2000,DF_START)==FAIL)printf("deflate: seek to end failed\n");
    int32 w=Hwrite(aid,1000,d+2000); printf("deflate append write ret %d\n",(int)w); Hendaccess(aid);
    memset(e,0xEE,3000); int32 r=Hgetelement(fid,1000,3,e); printf("deflate getelement ret %d\n",(int)r);
    if(r!=3000||memcmp(d,e,3000)){int k;for(k=0;k<3000&&d[k]==e[k];k++);printf("deflate append: first diff at %d\n",k);bad|=2;}
  }
  /* rle + skphuff append after reopen */
  { int ci; comp_coder_t cs[2]={COMP_CODE_RLE,COMP_CODE_SKPHUFF};
    for(ci=0;ci<2;ci++){ uint8 d[3000], e[3000]; for(i=0;i<3000;i++)d[i]=(uint8)(i/9);
    memset(&c,0,sizeof c); c.skphuff.skp_size=2;
    aid=HCcreate(fid,1000,(uint16)(4+ci),COMP_MODEL_STDIO,&m,cs[ci],&c); Hwrite(aid,2000,d); Hendaccess(aid);
    aid=Hstartwrite(fid,1000,(uint16)(4+ci),2000);
    if(Hseek(aid,2000,DF_START)==FAIL)printf("coder %d: seek to end failed\n",ci);
    int32 w=Hwrite(aid,1000,d+2000); printf("coder %d append write ret %d\n",ci,(int)w); Hendaccess(aid);
    memset(e,0xEE,3000); int32 r=Hgetelement(fid,1000,(uint16)(4+ci),e); printf("coder %d getelement ret %d\n",ci,(int)r);
    if(r!=3000||memcmp(d,e,3000)){int k;for(k=0;k<3000&&d[k]==e[k];k++);printf("coder %d append: first diff at %d\n",ci,k);bad|=4;}
  }}
  Hclose(fid); return bad;}
