/* Baseline (unmodified tree) observations against property C01.
 * exit 0 always; prints what it sees. */
#include <stdio.h>
#include <string.h>
#include "hdf.h"
int main(void)
{
    int32 fid, aid, n, len, off; uint16 t, r;
    uint8 buf[64], w[8] = {1, 2, 3, 4, 5, 6, 7, 8};

    /* (1) HLPread over never-written blocks: wrong transfer count / position */
    fid = Hopen("c01_base.hdf", DFACC_CREATE, 0);
    aid = HLcreate(fid, 1000, 1, 8, 2);
    Hseek(aid, 20, DF_START);
    Hwrite(aid, 8, w); /* element length is now 28, bytes 0..19 are a gap */
    Hseek(aid, 0, DF_START);
    memset(buf, 0xAA, sizeof buf);
    n = Hread(aid, 28, buf);
    printf("(1) Hread(28) over gap returned %d, Htell=%d (expected 28/28); buffer[20..27]=%u..%u was filled\n",
           (int)n, (int)Htell(aid), buf[20], buf[27]);
    Hendaccess(aid);

    /* (2) Htrunc on a linked-block element: reports success, element keeps its
       length, and the 16-byte special header DD is cut to trunc_len */
    aid = Hstartaccess(fid, 1000, 1, DFACC_RDWR);
    n = Htrunc(aid, 10);
    Hinquire(aid, NULL, NULL, NULL, &len, NULL, NULL, NULL, NULL);
    printf("(2) Htrunc(10) returned %d, element length afterwards %d (expected 10)\n", (int)n, (int)len);
    Hendaccess(aid);
    t = 0; r = 0;
    if (Hfind(fid, (uint16)(1000 | 0x4000), 1, &t, &r, &off, &len, DF_FORWARD) != FAIL)
        printf("    special-header DD length is now %d (was 16)\n", (int)len);
    Hclose(fid);
    remove("c01_base.hdf");
    return 0;
}
