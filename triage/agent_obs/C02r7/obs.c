/* baseline observation: a descriptor with offset -1 / length -1 reaches the disk */
#include <stdio.h>
#include "hdf.h"
int main(void)
{
    int32 fid = Hopen("obs.hdf", DFACC_CREATE, 0);
    int32 aid = Hstartaccess(fid, 800, 1, DFACC_WRITE); /* created, never written */
    Hendaccess(aid);
    Vstart(fid);
    {
        int32 vs = VSattach(fid, -1, "w"); /* a Vdata that gets fields but no records */
        VSfdefine(vs, "a", DFNT_INT32, 1);
        VSsetfields(vs, "a");
        VSsetname(vs, "empty");
        VSdetach(vs);
    }
    Vend(fid);
    Hclose(fid);
    {
        FILE *f = fopen("obs.hdf", "rb");
        unsigned char b[4096];
        size_t n = fread(b, 1, sizeof b, f);
        int i, bad = 0, ndds = (b[4] << 8) | b[5];
        fclose(f);
        for (i = 0; i < ndds && 10 + 12 * (size_t)i + 12 <= n; i++) {
            unsigned char *p = b + 10 + 12 * i;
            unsigned tag = (p[0] << 8) | p[1], ref = (p[2] << 8) | p[3];
            int off = (int)((unsigned)p[4] << 24 | p[5] << 16 | p[6] << 8 | p[7]);
            int len = (int)((unsigned)p[8] << 24 | p[9] << 16 | p[10] << 8 | p[11]);
            if (tag == 1) continue;
            printf("DD %u/%u offset %d length %d%s\n", tag, ref, off, len, (off < 0 || len < 0) ? "   <-- negative" : "");
            if (off < 0 || len < 0) bad++;
        }
        return bad ? 1 : 0;
    }
}
