#!/bin/sh
# usage: try.sh  (assumes the source tree is already modified) -> builds and runs ctest
cd /tmp/wt/R3C05 || exit 1
git diff --stat | tail -1
ninja -C _build 2>&1 | grep -i "error\|warning: " | head
ctest --test-dir _build -j8 --timeout 900 2>&1 | grep "tests passed\|\*\*\*"
