#include <stdio.h>
#include <string.h>
#include "hdf.h"
#include "hfile_priv.h"
int main(void){
  int rc=0; uint32 v; 
  /* A: read 3 bits then write 5 bits in the middle of byte 0 */
  int32 fid=Hopen("bitmin.hdf",DFACC_CREATE,0); int32 b=Hstartbitwrite(fid,1000,1,4);
  Hbitwrite(b,8,0xA5); Hbitwrite(b,8,0x3C); Hbitwrite(b,8,0x77); Hbitwrite(b,8,0x11);
  Hbitseek(b,0,0); Hbitread(b,3,&v); printf("A: read first 3 bits = %x (expect 5)\n",v); if(v!=5)rc=1;
  Hbitwrite(b,5,0x1F);            /* bits 3..7 of byte 0 -> byte 0 becomes 0xBF */
  Hendbitaccess(b,0); Hclose(fid);
  fid=Hopen("bitmin.hdf",DFACC_READ,0); b=Hstartbitread(fid,1000,1);
  uint32 x[4]; for(int i=0;i<4;i++) Hbitread(b,8,&x[i]);
  printf("A: bytes now %02x %02x %02x %02x (expect bf 3c 77 11)\n",x[0],x[1],x[2],x[3]);
  if(x[0]!=0xbf||x[1]!=0x3c||x[2]!=0x77||x[3]!=0x11) rc=1;
  Hendbitaccess(b,0); Hclose(fid);
  /* B: write then read back in same access, not byte aligned */
  fid=Hopen("bitmin.hdf",DFACC_CREATE,0); b=Hstartbitwrite(fid,1000,1,4);
  Hbitwrite(b,8,0xA5); Hbitwrite(b,8,0x3C); Hbitwrite(b,8,0x77); Hbitwrite(b,8,0x11);
  Hbitseek(b,1,0); Hbitwrite(b,3,0x7);  /* byte1 becomes 0xFC */
  Hbitread(b,5,&v); printf("B: 5 bits after the 3 written = %x (expect 1c)\n",v); if(v!=0x1c)rc=1;
  Hbitread(b,8,&v); printf("B: next byte = %x (expect 77)\n",v); if(v!=0x77)rc=1;
  Hendbitaccess(b,0); Hclose(fid);
  remove("bitmin.hdf"); return rc; }
