#include <stdio.h>
#include <string.h>
#include "hdf.h"
#include "hfile_priv.h"
#include "hcomp.h"
int main(void){
  int rc=0; comp_info c; model_info m; memset(&c,0,sizeof c); memset(&m,0,sizeof m);
  uint8 d[64],o[64]; for(int i=0;i<64;i++) d[i]=(uint8)(i+1);
  int32 fid=Hopen("basemin.hdf",DFACC_CREATE,0);
  /* 1: coder "none", relative seek */
  int32 aid=HCcreate(fid,1000,1,COMP_MODEL_STDIO,&m,COMP_CODE_NONE,&c);
  Hwrite(aid,64,d); Hendaccess(aid);
  aid=Hstartread(fid,1000,1);
  Hread(aid,10,o);                        /* posn 10 */
  int s=Hseek(aid,5,DF_CURRENT);          /* posn 15 */
  int n=Hread(aid,4,o);
  printf("none: seek rc %d, read %d bytes: %u %u %u %u (expect 16 17 18 19)\n",s,n,o[0],o[1],o[2],o[3]);
  if(n!=4||o[0]!=16) rc|=1;
  Hendaccess(aid);
  /* same with RLE for comparison */
  aid=HCcreate(fid,1000,2,COMP_MODEL_STDIO,&m,COMP_CODE_RLE,&c);
  Hwrite(aid,64,d); Hendaccess(aid);
  aid=Hstartread(fid,1000,2); Hread(aid,10,o); Hseek(aid,5,DF_CURRENT); n=Hread(aid,4,o);
  printf("rle : read %d bytes: %u %u %u %u (expect 16 17 18 19)\n",n,o[0],o[1],o[2],o[3]);
  if(n!=4||o[0]!=16) rc|=2;
  Hendaccess(aid);
  /* 2: n-bit, sequential whole-value reads of growing size, no seeks */
  c.nbit.nt=DFNT_UINT8; c.nbit.sign_ext=0; c.nbit.fill_one=0; c.nbit.start_bit=6; c.nbit.bit_len=7;
  aid=HCcreate(fid,1000,3,COMP_MODEL_STDIO,&m,COMP_CODE_NBIT,&c);
  Hwrite(aid,64,d); Hendaccess(aid);
  aid=Hstartread(fid,1000,3);
  memset(o,0xee,64);
  Hread(aid,4,o); Hread(aid,8,o+4);
  printf("nbit: read 4 then 8:"); for(int i=0;i<12;i++) printf(" %u",o[i]); printf("  (expect 1..12)\n");
  for(int i=0;i<12;i++) if(o[i]!=d[i]) rc|=4;
  Hendaccess(aid);
  Hclose(fid); remove("basemin.hdf"); printf("rc=%d\n",rc); return rc; }
