#include <stdio.h>
#include <stdlib.h>
#define SKPHUFF_MAX_CHAR 255
#define SUCCMAX 256
#define TWICEMAX 513
#define ROOT 0
typedef unsigned char uint8;
unsigned lleft[SUCCMAX], lright[SUCCMAX]; uint8 lup[TWICEMAX];
static void splay(uint8 plain){
    unsigned a,b; uint8 c,d;
    a = (unsigned)plain + SUCCMAX;
    do { c = lup[a];
        if (c != ROOT) { d = lup[(int)c]; b = lleft[(int)d];
            if ((unsigned)c == b) { b = lright[(int)d]; lright[(int)d] = a; } else lleft[(int)d] = a;
            if (a == lleft[(int)c]) lleft[(int)c] = b; else lright[(int)c] = b;
            lup[a] = d; lup[b] = c; a = (unsigned)d; }
        else a = (unsigned)c;
    } while (a != ROOT);
}
static int depth(uint8 plain){ unsigned a = plain + SUCCMAX; int n=0; do { a = lup[a]; n++; } while (a != ROOT); return n; }
static void init(void){ int i,j; for (i=0;i<TWICEMAX;i++) lup[i]=(uint8)(i>>1); for(j=0;j<SUCCMAX;j++){lleft[j]=j<<1; lright[j]=(j<<1)+1;} }
int main(void){
    int best=0;
    /* strategy: always access... try several patterns */
    init();
    for (int rep=0; rep<50; rep++) for (int i=0;i<256;i++){ int d=depth((uint8)i); if(d>best){best=d;} splay((uint8)i);} 
    printf("ascending: max code len seen %d\n", best);
    init(); best=0;
    for (int rep=0; rep<50; rep++) for (int i=255;i>=0;i--){ int d=depth((uint8)i); if(d>best){best=d;} splay((uint8)i);} 
    printf("descending: %d\n", best);
    /* greedy adversary: at each step access the symbol that maximises max depth afterwards? cheaper: access the shallowest leaf repeatedly */
    init(); best=0;
    for (int step=0; step<200000; step++){ int md=0, mi=0; for(int i=0;i<256;i++){int d=depth((uint8)i); if(d>md){md=d;mi=i;}} if(md>best){best=md; } /* access a random leaf that is NOT the deepest */ int s; do s=rand()%256; while(s==mi); splay((uint8)s);} 
    printf("random avoiding deepest: %d\n", best);
    /* only two symbols alternate */
    init(); best=0; int md=0;
    for (int step=0; step<100000; step++){ splay((uint8)(step&1)); }
    for(int i=0;i<256;i++){int d=depth((uint8)i); if(d>md)md=d;} printf("two-symbol alternation: deepest leaf %d\n", md);
    init(); md=0;
    for (int step=0; step<100000; step++){ splay((uint8)0); }
    for(int i=0;i<256;i++){int d=depth((uint8)i); if(d>md)md=d;} printf("single symbol: deepest leaf %d\n", md);
    return 0; }
