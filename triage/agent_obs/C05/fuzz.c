#include <stdio.h>
#include <stdlib.h>
#include <string.h>
#include "hdf.h"
#include "hfile_priv.h"
#include "hcomp.h"
#define FN "fuzz.hdf"
static unsigned rs = 1;
static unsigned rnd(void){ rs = rs*1103515245u+12345u; return (rs>>8)&0xffffff; }
static void gen(uint8*d,int n,int kind){
  int i=0;
  switch(kind){
  case 0: for(i=0;i<n;i++) d[i]=(uint8)rnd(); break;
  case 1: memset(d,0,n); break;
  case 2: for(i=0;i<n;i++) d[i]=(uint8)i; break;
  case 3: while(i<n){ int run=1+rnd()%300; uint8 v=(uint8)(rnd()%4); if(rnd()%3==0){ for(;run>0&&i<n;run--) d[i++]=(uint8)rnd(); } else for(;run>0&&i<n;run--) d[i++]=v; } break;
  case 4: for(i=0;i<n;i++) d[i]=(uint8)((i%4==0)? rnd(): (i/4)%3); break;
  }
}
int main(int argc,char**argv){
  int iters = argc>1?atoi(argv[1]):200; int fails=0;
  rs = argc>2?atoi(argv[2]):1;
  for(int it=0; it<iters; it++){
    comp_coder_t coders[]={COMP_CODE_NONE,COMP_CODE_RLE,COMP_CODE_SKPHUFF,COMP_CODE_DEFLATE};
    int ci=rnd()%4; comp_info c; model_info m; memset(&c,0,sizeof c); memset(&m,0,sizeof m);
    int param=0;
    if(coders[ci]==COMP_CODE_SKPHUFF){ param=1+rnd()%9; c.skphuff.skp_size=param; }
    if(coders[ci]==COMP_CODE_DEFLATE){ param=rnd()%10; c.deflate.level=param; }
    int n = 1 + rnd()%40000; int kind=rnd()%5;
    uint8 *d=malloc(n), *o=malloc(n);
    gen(d,n,kind);
    int32 fid=Hopen(FN,DFACC_CREATE,0);
    int32 aid=HCcreate(fid,1000,1,COMP_MODEL_STDIO,&m,coders[ci],&c);
    if(aid==FAIL){printf("it %d create fail coder %d param %d\n",it,ci,param);fails++;Hclose(fid);continue;}
    int off=0; int wmode=rnd()%3; 
    while(off<n){ int k = wmode==0? n : 1+rnd()%(wmode==1?50:9000); if(k>n-off)k=n-off; if(Hwrite(aid,k,d+off)!=k){printf("it %d write fail\n",it);fails++;break;} off+=k; }
    int rewrite = rnd()%3==0;
    if(rewrite==1 && rnd()%2){ /* same AID rewrite in full */
       gen(d,n,rnd()%5);
       if(Hseek(aid,0,DF_START)==FAIL){printf("it %d seek0 fail\n",it);fails++;}
       if(Hwrite(aid,n,d)!=n){printf("it %d rewrite(same aid) fail coder %d\n",it,ci);fails++;}
       rewrite=0;
    }
    Hendaccess(aid); Hclose(fid);
    if(rewrite){
       gen(d,n,rnd()%5);
       fid=Hopen(FN,DFACC_RDWR,0); aid=Hstartwrite(fid,1000,1,n);
       if(aid==FAIL){printf("it %d startwrite fail\n",it);fails++;}
       else { if(Hwrite(aid,n,d)!=n){printf("it %d rewrite(reopen) fail coder %d\n",it,ci);fails++;} Hendaccess(aid);} Hclose(fid);
    }
    fid=Hopen(FN,DFACC_READ,0); aid=Hstartread(fid,1000,1);
    int32 len=-1; Hinquire(aid,NULL,NULL,NULL,&len,NULL,NULL,NULL,NULL);
    if(len!=n){printf("it %d len %d != %d coder %d\n",it,(int)len,n,ci);fails++;}
    int bad=0;
    for(int r=0;r<30 && !bad;r++){
      int pos=rnd()%n; int k=1+rnd()%(n-pos); if(rnd()%2 && k>100) k=1+rnd()%100;
      if(r==0){pos=0;k=n;}
      if(Hseek(aid,pos,DF_START)==FAIL){printf("it %d seek fail\n",it);bad=1;break;}
      int parts=1+rnd()%3; int p=pos;
      memset(o,0xEE,n);
      for(int q=0;q<parts && p<pos+k;q++){ int kk = q==parts-1? pos+k-p : 1+rnd()%(pos+k-p); if(Hread(aid,kk,o+p)!=kk){printf("it %d read fail coder %d param %d pos %d kk %d\n",it,ci,param,p,kk);bad=1;break;} p+=kk; }
      if(!bad && memcmp(o+pos,d+pos,k)){ int i; for(i=pos;i<pos+k&&o[i]==d[i];i++); printf("it %d MISMATCH coder %d param %d n %d kind %d wmode %d r %d pos %d k %d at %d\n",it,ci,param,n,kind,wmode,r,pos,k,i); bad=1; }
    }
    fails+=bad;
    Hendaccess(aid); Hclose(fid); free(d); free(o);
  }
  printf("fails=%d\n",fails); remove(FN); return fails!=0;
}
