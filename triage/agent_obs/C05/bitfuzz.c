#include <stdio.h>
#include <stdlib.h>
#include <string.h>
#include "hdf.h"
#include "hfile_priv.h"
#define FN "bitfuzz.hdf"
#define MAXBITS (40000*8)
static unsigned rs=1; static unsigned rnd(void){ rs=rs*1103515245u+12345u; return (rs>>8)&0xffffff; }
static uint8 model[MAXBITS]; 
int main(int argc,char**argv){
  int iters=argc>1?atoi(argv[1]):100; rs=argc>2?atoi(argv[2]):1; int allow_rw=argc>3?atoi(argv[3]):0; int allow_seek=argc>4?atoi(argv[4]):1;
  int fails=0;
  for(int it=0;it<iters;it++){
    memset(model,0,sizeof model); long pos=0,end=0; int bad=0; char log[4096]; int ll=0; log[0]=0;
    int32 fid=Hopen(FN,DFACC_CREATE,0); int32 b=Hstartbitwrite(fid,1000,1,0); Hbitappendable(b);
    int nops=5+rnd()%400; int big=rnd()%2;
    for(int op=0;op<nops&&!bad;op++){
      int what=rnd()%10;
      if(what<6 || end==0){ int c=1+rnd()%32; if(big&&rnd()%2)c=32; if(pos+c>MAXBITS)break; uint32 v=(rnd()<<8)^rnd(); if(c<32)v&=(1u<<c)-1;
        if(Hbitwrite(b,c,v)!=c){bad=1;printf("it %d write fail\n",it);} for(int i=0;i<c;i++) model[pos+i]=(v>>(c-1-i))&1; pos+=c; if(pos>end)end=pos; if(ll<4000)ll+=sprintf(log+ll,"W%d ",c); }
      else if(what<8 && allow_seek){ long lim=end/8; /* byte offset must be <= max_offset: only whole bytes known written */ long by=rnd()%(lim+1); int bi=rnd()%8; if(by*8+bi>end){bi=0;} 
        if(by*8+bi> (end/8)*8) continue;
        if(Hbitseek(b,by,bi)==FAIL){ if(ll<4000)ll+=sprintf(log+ll,"S(%ld,%d)FAIL ",by,bi); continue;} pos=by*8+bi; if(ll<4000)ll+=sprintf(log+ll,"S(%ld,%d) ",by,bi); }
      else if(allow_rw){ int c=1+rnd()%32; if(pos+c>(end/8)*8) continue; uint32 v=0; int n=Hbitread(b,c,&v); uint32 e=0; for(int i=0;i<c;i++) e=(e<<1)|model[pos+i];
        if(ll<4000)ll+=sprintf(log+ll,"R%d ",c);
        if(n!=c||v!=e){bad=1;printf("it %d inline read mismatch at bit %ld c %d got %x exp %x n %d\n  ops: %s\n",it,pos,c,v,e,n,log);} pos+=c; }
    }
    Hendbitaccess(b,0); Hclose(fid);
    fid=Hopen(FN,DFACC_READ,0); b=Hstartbitread(fid,1000,1);
    long p=0; while(p<end&&!bad){ int c=1+rnd()%32; if(p+c>end)c=end-p; uint32 v=0; int n=Hbitread(b,c,&v); uint32 e=0; for(int i=0;i<c;i++) e=(e<<1)|model[p+i];
      if(n!=c||v!=e){bad=1;printf("it %d final mismatch at bit %ld (end %ld) c %d got %x exp %x n %d\n  ops: %s\n",it,p,end,c,v,e,n,ll<600?log:"(long)");} p+=c; }
    Hendbitaccess(b,0); Hclose(fid); fails+=bad;
  }
  printf("fails=%d\n",fails); remove(FN); return fails!=0; }
