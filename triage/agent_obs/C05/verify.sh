#!/bin/bash
# verify.sh <seeddir>
W=/tmp/wt/R3C05
D=$W/_seed/$1
cd $W || exit 1
git checkout -- . ; test -z "$(git status --short | grep -v '^??')" || { echo dirty; exit 1; }
CC="cc -g -I$W/hdf/src -I$W/mfhdf/src -I$W/_build demo.c -o demo $W/_build/bin/libmfhdf.a $W/_build/bin/libhdf.a -ljpeg -lz -lm"
echo "== baseline build"; ninja -C _build 2>&1 | grep -ci "error" 
(cd $D && $CC && ./demo > baseline.out; echo "baseline demo exit=$?"; tail -1 baseline.out)
echo "== apply patch"; git apply --check $D/patch.diff && git apply $D/patch.diff && git diff --stat | tail -1
echo "== patched build"; ninja -C _build 2>&1 | grep -i "error\|warning:" ; echo "build rc=${PIPESTATUS[0]}"
echo "== ctest"; ctest --test-dir _build -j8 --timeout 900 2>&1 | grep "tests passed\|\*\*\*"
(cd $D && $CC && ./demo > patched.out; echo "patched demo exit=$?"; tail -1 patched.out)
git checkout -- . ; ninja -C _build >/dev/null 2>&1
rm -f $D/demo
