#include <stdio.h>
#include <stdlib.h>
#include <string.h>
#include "hdf.h"
#include "hfile_priv.h"
#include "hcomp.h"
#define FN "nbitfuzz.hdf"
static unsigned rs = 1;
static unsigned rnd(void){ rs = rs*1103515245u+12345u; return (rs>>8)&0xffffff; }
/* documented projection on a big-endian-stored value of 'bits' bits held in v */
static uint32 project(uint32 v,int bits,int start,int len,int sign,int fill){
  uint32 all = bits==32?0xffffffffu:((1u<<bits)-1);
  uint32 fmask = (len==32?0xffffffffu:((1u<<len)-1)) << (start-len+1);
  uint32 r = v & fmask;
  uint32 above = all & ~((start==31)?0xffffffffu:((1u<<(start+1))-1));
  uint32 below = (start-len+1)==0?0:((1u<<(start-len+1))-1);
  if(sign){ if(v & (1u<<start)) r|=above; /* else zero */ }
  else if(fill) r|=above;
  if(fill) r|=below;
  return r & all;
}
int main(int argc,char**argv){
  int iters=argc>1?atoi(argv[1]):300; rs=argc>2?atoi(argv[2]):1; int fails=0;
  int32 nts[]={DFNT_INT8,DFNT_UINT8,DFNT_INT16,DFNT_UINT16,DFNT_INT32,DFNT_UINT32};
  for(int it=0;it<iters;it++){
    int ti=rnd()%6; int sz=DFKNTsize(nts[ti]); int bits=sz*8;
    int start=rnd()%bits; int len=1+rnd()%(start+1); int sign=rnd()%2, fill=rnd()%2;
    int n=1+rnd()%3000;
    uint8 *d=malloc(n*sz),*o=malloc(n*sz),*e=malloc(n*sz);
    for(int i=0;i<n;i++){ uint32 v=(rnd()<<8)^rnd(); if(bits<32) v&=(1u<<bits)-1; uint32 p=project(v,bits,start,len,sign,fill);
       for(int b=0;b<sz;b++){ d[i*sz+b]=(uint8)(v>>(8*(sz-1-b))); e[i*sz+b]=(uint8)(p>>(8*(sz-1-b))); } }
    comp_info c; model_info m; memset(&c,0,sizeof c); memset(&m,0,sizeof m);
    c.nbit.nt=nts[ti]; c.nbit.sign_ext=sign; c.nbit.fill_one=fill; c.nbit.start_bit=start; c.nbit.bit_len=len;
    int32 fid=Hopen(FN,DFACC_CREATE,0); int32 aid=HCcreate(fid,1000,1,COMP_MODEL_STDIO,&m,COMP_CODE_NBIT,&c);
    if(aid==FAIL){printf("create fail\n");fails++;Hclose(fid);continue;}
    int wm=rnd()%2; int off=0; while(off<n){int k=wm?n:1+rnd()%200; if(k>n-off)k=n-off; Hwrite(aid,k*sz,d+off*sz); off+=k;}
    Hendaccess(aid);Hclose(fid);
    fid=Hopen(FN,DFACC_READ,0); aid=Hstartread(fid,1000,1);
    int mode=argc>3?atoi(argv[3]):0; int bad=0;
    if(mode==0){ /* one read */ if(Hread(aid,n*sz,o)!=n*sz) bad=1; else if(memcmp(o,e,n*sz)) bad=2; }
    else if(mode==1){ /* seek+read each piece */
      for(int r=0;r<20&&!bad;r++){int pos=rnd()%n; int k=1+rnd()%(n-pos); if(Hseek(aid,pos*sz,DF_START)==FAIL||Hread(aid,k*sz,o)!=k*sz)bad=1; else if(memcmp(o,e+pos*sz,k*sz))bad=2;} }
    else { /* sequential reads of random sizes without seeks */
      int p=0; while(p<n&&!bad){int k=1+rnd()%64; if(k>n-p)k=n-p; if(Hread(aid,k*sz,o+p*sz)!=k*sz)bad=1; p+=k;} if(!bad&&memcmp(o,e,n*sz))bad=2; }
    if(bad){ int i=0; if(bad==2&&mode!=1) for(i=0;i<n*sz&&o[i]==e[i];i++); printf("it %d %s nt=%d sz=%d start=%d len=%d sign=%d fill=%d n=%d mode=%d first diff byte %d\n",it,bad==1?"IOFAIL":"MISMATCH",ti,sz,start,len,sign,fill,n,mode,i); fails++; }
    Hendaccess(aid);Hclose(fid);free(d);free(o);free(e);
  }
  printf("fails=%d\n",fails); remove(FN); return fails!=0;
}
