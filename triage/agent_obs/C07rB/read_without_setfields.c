#include <stdio.h>
#include <string.h>
#include "hdf.h"
int main(void){
  int32 fid=Hopen("nosf.hdf",DFACC_CREATE,0),vs,i; Vstart(fid);
  struct {int32 a; int32 b;} w[4], r[4];
  vs=VSattach(fid,-1,"w"); VSfdefine(vs,"A",DFNT_INT32,1); VSfdefine(vs,"B",DFNT_INT32,1);
  VSsetfields(vs,"A,B");
  for(i=0;i<4;i++){w[i].a=i; w[i].b=100+i;}
  VSwrite(vs,(uint8*)w,4,FULL_INTERLACE);
  VSseek(vs,0);
  memset(r,0xEE,sizeof r);
  printf("read=%d\n",(int)VSread(vs,(uint8*)r,4,FULL_INTERLACE));
  for(i=0;i<4;i++) printf("rec %d: A=%d B=%d\n",i,(int)r[i].a,(int)r[i].b);
  VSdetach(vs); Vend(fid); Hclose(fid); return memcmp(w,r,sizeof w)!=0;
}
