/* Reproducers for C14 violations present in the UNMODIFIED tree (not seeded). */
#include <stdio.h>
#include <string.h>
#include <stdlib.h>
#include "hdf.h"
#include "mfhdf.h"
int main(void){
    int32 sd, s, dim[1] = {4}, z = 0, e = 4, buf[4] = {9, 9, 9, 9};
    /* (A) SDwritedata on an SDS without data, file opened read-only: returns SUCCEED */
    remove("b.hdf");
    sd = SDstart("b.hdf", DFACC_CREATE); s = SDcreate(sd, "nodata", DFNT_INT32, 1, dim); SDendaccess(s); SDend(sd);
    sd = SDstart("b.hdf", DFACC_READ); s = SDselect(sd, 0);
    printf("(A) SDwritedata on read-only file -> %d (expected -1); caller's buffer now %d %d %d %d\n",
           (int)SDwritedata(s, &z, NULL, &e, buf), (int)buf[0], (int)buf[1], (int)buf[2], (int)buf[3]);
    SDendaccess(s); SDend(sd);
    /* (B) file record shared between handles: DFACC_READ handle can write once the file was
           (also) opened for writing, even after that other handle is closed */
    { int32 fw = Hopen("b.hdf", DFACC_WRITE, 0), fr = Hopen("b.hdf", DFACC_READ, 0);
      Hclose(fw);
      system("cp b.hdf b.bak");
      printf("(B) Hputelement through DFACC_READ handle -> %d (expected -1)\n", (int)Hputelement(fr, 900, 1, (uint8 *)"zz", 2));
      Hclose(fr);
      printf("    file %s\n", system("cmp -s b.hdf b.bak") ? "CHANGED" : "unchanged"); }
    /* (C) ANcreatef on a read-only file returns a valid id */
    { int32 f = Hopen("b.hdf", DFACC_READ, 0), an = ANstart(f), a = ANcreatef(an, AN_FILE_DESC);
      printf("(C) ANcreatef on read-only file -> %d (expected -1)\n", (int)a);
      if (a != FAIL) ANendaccess(a);
      ANend(an); Hclose(f); }
    return 0;
}
