#include "mfhdf.h"
#include <stdio.h>
#include <string.h>
int main(void){
  /* (d) DFSD dim strings without scales -> SD */
  int32 dims[2]={3,4}; float32 d[12]; int i; for(i=0;i<12;i++)d[i]=(float32)i;
  DFSDsetdims(2,dims); DFSDsetdatastrs("dlabel","dunit","dfmt","csys");
  DFSDsetdimstrs(1,"rowlab","rowunit","rowfmt"); DFSDsetdimstrs(2,"collab","colunit","colfmt");
  float32 mx=11,mn=0; DFSDsetrange(&mx,&mn);
  DFSDsetcal(2.0,0.1,5.0,0.2,DFNT_INT16);
  printf("put %d\n",DFSDputdata("p5.hdf",2,dims,d));
  int32 sd=SDstart("p5.hdf",DFACC_READ), sds=SDselect(sd,0); char nm[64]; int32 rk,dm[4],nt,na; SDgetinfo(sds,nm,&rk,dm,&nt,&na);
  printf("SD %s rank=%d %dx%d nt=%d nattr=%d\n",nm,rk,dm[0],dm[1],nt,na);
  char l[64]="",u[64]="",f[64]="",c[64]=""; printf("getdatastrs %d",SDgetdatastrs(sds,l,u,f,c,64)); printf(" %s|%s|%s|%s\n",l,u,f,c);
  for(i=0;i<2;i++){int32 di=SDgetdimid(sds,i); l[0]=u[0]=f[0]=0; int rc=SDgetdimstrs(di,l,u,f,64); printf("dim %d strs rc=%d %s|%s|%s\n",i,rc,l,u,f);}
  float32 a,b; printf("getrange %d",SDgetrange(sds,&a,&b)); printf(" max=%g min=%g\n",a,b);
  float64 c1,c2,c3,c4; int32 cnt; printf("getcal %d",SDgetcal(sds,&c1,&c2,&c3,&c4,&cnt)); printf(" %g %g %g %g %d\n",c1,c2,c3,c4,cnt);
  SDendaccess(sds);SDend(sd);
  return 0;}
