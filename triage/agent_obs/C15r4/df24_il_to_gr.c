#include "hdf.h"
#include <stdio.h>
#include <string.h>
#define X 5
#define Y 3
int main(void){
  uint8 pix[Y][X][3], lin[Y][3][X], pla[3][Y][X], in[Y*X*3];
  int i,j,k;
  for(i=0;i<Y;i++)for(j=0;j<X;j++)for(k=0;k<3;k++){uint8 v=(uint8)(k*64+i*X+j);pix[i][j][k]=v;lin[i][k][j]=v;pla[k][i][j]=v;}
  DF24setil(DFIL_PIXEL); DF24putimage("p1.hdf",pix,X,Y);
  DF24setil(DFIL_LINE); DF24addimage("p1.hdf",lin,X,Y);
  DF24setil(DFIL_PLANE); DF24addimage("p1.hdf",pla,X,Y);
  int32 f=Hopen("p1.hdf",DFACC_READ,0), gr=GRstart(f); int32 n,na; GRfileinfo(gr,&n,&na); printf("nimages %d\n",n);
  for(i=0;i<n;i++){ int32 ri=GRselect(gr,i); char name[64]; int32 nc,nt,il,dims[2],nat; GRgetiminfo(ri,name,&nc,&nt,&il,dims,&nat);
    int32 st[2]={0,0},cnt[2]={X,Y};
    for(int r=-1;r<3;r++){ if(r>=0)GRreqimageil(ri,r); memset(in,0,sizeof in); int rc=GRreadimage(ri,st,NULL,cnt,in);
    printf("img %d il=%d nc=%d dims=%dx%d req=%d rc=%d eqpix=%d eqlin=%d eqpla=%d\n",i,il,nc,dims[0],dims[1],r,rc,!memcmp(in,pix,sizeof in),!memcmp(in,lin,sizeof in),!memcmp(in,pla,sizeof in));}
    GRendaccess(ri);}
  GRend(gr);Hclose(f);return 0;}
