#include "hdf.h"
#include <stdio.h>
#include <string.h>
int main(void){
  int rank; int32 dims[2]; char l[64],u[64],f[64];
  DFSDrestart(); DFSDgetdims("p5.hdf",&rank,dims,2);
  DFSDgetdimstrs(1,l,u,f); printf("DFSD dim1: %s|%s|%s\n",l,u,f);
  DFSDgetdimstrs(2,l,u,f); printf("DFSD dim2: %s|%s|%s\n",l,u,f);
  /* (a) DFAN cache vs AN writes */
  uint8 x[4]={1,2,3,4};
  int32 fid=Hopen("p6.hdf",DFACC_CREATE,0); Hputelement(fid,DFTAG_RI8,7,x,4); Hputelement(fid,DFTAG_RI8,8,x,4); Hclose(fid);
  printf("putlabel %d\n",DFANputlabel("p6.hdf",DFTAG_RI8,7,"first"));
  char buf[64]=""; printf("getlabel(7) %d",DFANgetlabel("p6.hdf",DFTAG_RI8,7,buf,64)); printf(" '%s'\n",buf);
  fid=Hopen("p6.hdf",DFACC_RDWR,0); int32 an=ANstart(fid); int32 a=ANcreate(an,DFTAG_RI8,8,AN_DATA_LABEL); printf("ANwriteann %d\n",ANwriteann(a,"second",6)); ANendaccess(a); ANend(an); Hclose(fid);
  buf[0]=0; int rc=DFANgetlabel("p6.hdf",DFTAG_RI8,8,buf,64); printf("DFANgetlabel(8) after AN write rc=%d '%s'\n",rc,buf);
  DFANclear(); 
  return 0;}
