#!/bin/sh
# TRIAGE ONLY (C18): an SDS with the data label "lab" (3 characters).  Before the fix hrepack's copy_an_data wrote the label with
# the terminating NUL it had added for reading, so ANannlen was 3 in the input, 4 after one repack and 5 after two.
B=${B:-/repo/_build}
T=$(mktemp -d); trap 'rm -rf $T' EXIT
cat > $T/g.c <<'C'
#include "hdf.h"
#include "mfhdf.h"
#include <stdio.h>
int main(int argc, char **argv)
{
    if (argc > 2) { /* create */
        int32 fid = Hopen(argv[1], DFACC_CREATE, 0), sd = SDstart(argv[1], DFACC_RDWR), dims[1] = {4}, v[4] = {1, 2, 3, 4}, st[1] = {0};
        int32 s = SDcreate(sd, "a", DFNT_INT32, 1, dims);
        SDwritedata(s, st, NULL, dims, v);
        int32 r = SDidtoref(s);
        SDendaccess(s);
        int32 an = ANstart(fid), a = ANcreate(an, DFTAG_NDG, (uint16)r, AN_DATA_LABEL);
        ANwriteann(a, "lab", 3);
        ANendaccess(a);
        ANend(an);
        SDend(sd);
        Hclose(fid);
        return 0;
    }
    int32 fid = Hopen(argv[1], DFACC_READ, 0), an = ANstart(fid), nfl, nfd, ndl, ndd;
    ANfileinfo(an, &nfl, &nfd, &ndl, &ndd);
    int32 a = ANselect(an, 0, AN_DATA_LABEL);
    printf("%s: %d data label(s), length %d\n", argv[1], (int)ndl, (int)ANannlen(a));
    ANend(an);
    Hclose(fid);
    return 0;
}
C
cc -g -w -I/repo/hdf/src -I/repo/mfhdf/src -I$B -I$B/hdf/src $T/g.c -o $T/g $B/bin/libmfhdf.a $B/bin/libhdf.a -ljpeg -lz -lm
cd $T && ./g in.hdf create && $B/bin/hrepack -i in.hdf -o o1.hdf >/dev/null && $B/bin/hrepack -i o1.hdf -o o2.hdf >/dev/null
./g in.hdf; ./g o1.hdf; ./g o2.hdf
