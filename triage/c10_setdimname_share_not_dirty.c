/* TRIAGE ONLY (C10): two data sets with equally sized first dimensions; in a later session the first dimension of B is
 * given the name of A's ("X"), i.e. SDsetdimname takes its 'share the existing dimension' branch, and nothing else is
 * changed.  Before the fix that branch returned without NC_HDIRTY, SDend wrote nothing, and after reopen B's dimension
 * still had its old name. */
#include "mfhdf.h"
#include <stdio.h>
#include <string.h>
int main(void)
{
    int32 sd = SDstart("c10_dimname.hdf", DFACC_CREATE), dims[1] = {4}, v[4] = {1, 2, 3, 4}, st[1] = {0};
    int32 a = SDcreate(sd, "A", DFNT_INT32, 1, dims), b = SDcreate(sd, "B", DFNT_INT32, 1, dims);
    SDwritedata(a, st, NULL, dims, v);
    SDwritedata(b, st, NULL, dims, v);
    SDsetdimname(SDgetdimid(a, 0), "X");
    SDendaccess(a);
    SDendaccess(b);
    SDend(sd);

    sd = SDstart("c10_dimname.hdf", DFACC_RDWR);
    b  = SDselect(sd, SDnametoindex(sd, "B"));
    printf("SDsetdimname(B.dim0, \"X\") = %d\n", (int)SDsetdimname(SDgetdimid(b, 0), "X"));
    SDendaccess(b);
    SDend(sd);

    sd = SDstart("c10_dimname.hdf", DFACC_READ);
    b  = SDselect(sd, SDnametoindex(sd, "B"));
    char  nm[128];
    int32 sz, nt, na;
    SDdiminfo(SDgetdimid(b, 0), nm, &sz, &nt, &na);
    printf("after reopen B.dim0 is named '%s' (expected 'X')\n", nm);
    SDend(sd);
    return strcmp(nm, "X") != 0;
}
