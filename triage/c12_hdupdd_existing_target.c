/* TRIAGE ONLY (C12): Hdupdd onto a tag/ref that already exists must fail and leave the directory alone.  Before the fix the
 * descriptor was created and written before the duplicate was noticed; the error path then destroyed the tag's live
 * ref-to-descriptor table: Hnumber(1000) went from 2 to 3 and a wildcard walk crashed in DAget_elem.
 * Expected: FAIL, Hnumber stays 2, the walk visits the same entries as before. */
#include "hdf.h"
#include <stdio.h>
static int walk(int32 fid)
{
    uint16 t = 0, r = 0;
    int32  off, len;
    int    n = 0;
    while (Hfind(fid, DFTAG_WILDCARD, DFREF_WILDCARD, &t, &r, &off, &len, DF_FORWARD) == SUCCEED && n < 100)
        n++;
    return n;
}
int main(void)
{
    uint8 buf[8] = {1, 2, 3, 4, 5, 6, 7, 8};
    int32 fid = Hopen("c12_dup.hdf", DFACC_CREATE, 4);
    Hputelement(fid, 1000, 1, buf, 4);
    Hputelement(fid, 1000, 2, buf, 6);
    int n0 = Hnumber(fid, 1000), w0 = walk(fid);
    int rc = Hdupdd(fid, 1000, 2, 1000, 1);
    int n1 = Hnumber(fid, 1000);
    printf("Hdupdd onto an existing tag/ref = %d (expected -1); Hnumber %d -> %d\n", rc, n0, n1);
    fflush(stdout);
    int w1 = walk(fid);
    printf("wildcard walk %d -> %d entries\n", w0, w1);
    Hclose(fid);
    return !(rc == FAIL && n0 == n1 && w0 == w1);
}
