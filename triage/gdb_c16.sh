#!/bin/sh
# usage: triage/gdb_c16.sh <workload> <k> <sticky>  — crash stack of one injected run (TRIAGE ONLY)
B=/repo/_build
T=$(mktemp -d)
trap 'rm -rf "$T"' EXIT
WR="-Wl,--wrap=fwrite,--wrap=fread,--wrap=fseek,--wrap=fflush,--wrap=fclose,--wrap=fopen"
cc -no-pie -g $WR -I/repo/hdf/src -I/repo/mfhdf/src -I$B -I$B/hdf/src /verif/triage/c16_sweep.c -o $T/a.out $B/bin/libmfhdf.a $B/bin/libhdf.a -ljpeg -lz -lm 2>/dev/null
cd $T
if [ -n "$VG" ]; then valgrind -q --num-callers=14 ./a.out one "$@" 2>&1 | grep -v "^INJ\|^RES" | head -${LINES_MAX:-60}
else gdb -q -batch -ex run -ex bt --args ./a.out one "$@" 2>&1 | grep -E "^#|signal|free|Assert" | head -30; fi
