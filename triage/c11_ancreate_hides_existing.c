/* TRIAGE replay (not a check): ANcreate in a fresh session, before any listing call, makes ANIaddentry start an *empty*
 * annotation tree for that type instead of loading the existing annotations from the file: for the rest of the session
 * the old annotations are invisible.  exit 0 = old and new annotation both visible */
#include <stdio.h>
#include "hdf.h"
int
main(void)
{
    int32 fid = Hopen("c11_hide.hdf", DFACC_CREATE, 0);
    int32 an  = ANstart(fid);
    int32 a   = ANcreate(an, 720, 1, AN_DATA_LABEL);
    ANwriteann(a, "first", 5);
    ANendaccess(a);
    ANend(an);
    Hclose(fid);
    fid = Hopen("c11_hide.hdf", DFACC_RDWR, 0);
    an  = ANstart(fid);
    a   = ANcreate(an, 720, 2, AN_DATA_LABEL);
    ANwriteann(a, "second", 6);
    ANendaccess(a);
    int32 n1 = ANnumann(an, AN_DATA_LABEL, 720, 1), fl, fd, dl, dd;
    ANfileinfo(an, &fl, &fd, &dl, &dd);
    printf("labels of 720/1: %d (1 exists); data labels in file: %d (2 exist)\n", (int)n1, (int)dl);
    ANend(an);
    Hclose(fid);
    return (n1 == 1 && dl == 2) ? 0 : 1;
}
