/* adding an SDS through SD to a file whose only data set was written through DFSD */
#include "mfhdf.h"
#include <stdio.h>
int main(void)
{
    int32 dims[2]={3,4}; float32 d[12]; for(int i=0;i<12;i++) d[i]=(float32)i;
    DFSDsetdims(2,dims); printf("DFSDadddata=%d\n",DFSDadddata("c15d.hdf",2,dims,d));
    int32 sd=SDstart("c15d.hdf",DFACC_RDWR); int32 nd,na; SDfileinfo(sd,&nd,&na); printf("datasets=%d\n",(int)nd);
    int32 dm[1]={5}, st[1]={0}, v[5]={1,2,3,4,5};
    int32 s=SDcreate(sd,"new",DFNT_INT32,1,dm); printf("write=%d\n",(int)SDwritedata(s,st,NULL,dm,v)); SDendaccess(s);
    intn e=SDend(sd); printf("SDend=%d\n",e); if(e==FAIL) HEprint(stdout,0);
    sd=SDstart("c15d.hdf",DFACC_READ); SDfileinfo(sd,&nd,&na); printf("datasets after=%d\n",(int)nd);
    int ok=1; for(int i=0;i<nd;i++){ s=SDselect(sd,i); char nm[64]; int32 rk,dz[4],nt,nat; SDgetinfo(s,nm,&rk,dz,&nt,&nat); printf("  %d %s rank=%d nt=%d\n",i,nm,(int)rk,(int)nt); SDendaccess(s);} 
    SDend(sd); remove("c15d.hdf"); return !(e==SUCCEED && nd==2); }
