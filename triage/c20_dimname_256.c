/* TRIAGE replay (not a check): a dimension name of exactly H4_MAX_NC_NAME (256) characters is accepted by SDsetdimname, and
 * hdf_write_dim copies it with strcpy into `char name[H4_MAX_NC_NAME]` at SDend: one byte past the buffer (ASan). */
#include <stdio.h>
#include <string.h>
#include "mfhdf.h"
int
main(void)
{
    char  nm[300];
    int32 dims[1] = {4};
    memset(nm, 'd', 256);
    nm[256]   = 0;
    int32 sd  = SDstart("c20_dimname.hdf", DFACC_CREATE);
    int32 sds = SDcreate(sd, "v", DFNT_INT8, 1, dims);
    int32 dim = SDgetdimid(sds, 0);
    printf("SDsetdimname(256 chars) -> %d\n", (int)SDsetdimname(dim, nm));
    SDendaccess(sds);
    printf("SDend -> %d\n", (int)SDend(sd));
    return 0;
}
