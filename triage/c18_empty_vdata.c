/* TRIAGE ONLY (C18): a file with one Vdata that has a field definition but no records, and one Vdata with no fields at all (both are
 * legal: VSdetach stores them).  hrepack stops with "cannot define fields for VS <empty>" / "Failed to get info for vdata" and
 * exits 1 without copying the rest.  Expected: both Vdatas are copied as they are.  Prints hrepack's exit status and the Vdatas
 * of the output. */
#include "hdf.h"
#include <stdio.h>
#include <stdlib.h>
int main(int argc, char **argv)
{
    const char *B = argc > 1 ? argv[1] : "/repo/_build";
    int         which = argc > 2 ? atoi(argv[2]) : 3;
    char        cmd[512];
    int32 f = Hopen("c18_ev_in.hdf", DFACC_CREATE, 0);
    Vstart(f);
    if (which & 1) {
        int32 vs = VSattach(f, -1, "w");
        VSsetname(vs, "empty");
        VSfdefine(vs, "a", DFNT_INT32, 1);
        VSsetfields(vs, "a");
        VSdetach(vs);
    }
    if (which & 2) {
        int32 vs = VSattach(f, -1, "w");
        VSsetname(vs, "nofields");
        VSdetach(vs);
    }
    Vend(f);
    Hclose(f);
    snprintf(cmd, sizeof cmd, "%s/bin/hrepack -i c18_ev_in.hdf -o c18_ev_out.hdf", B);
    int rc = system(cmd);
    printf("hrepack exit status %d\n", rc);
    int n = 0;
    f = Hopen("c18_ev_out.hdf", DFACC_READ, 0);
    if (f != FAIL) {
        Vstart(f);
        int32 ref = -1;
        while ((ref = VSgetid(f, ref)) != FAIL) {
            char  nm[128];
            int32 vs = VSattach(f, ref, "r");
            VSgetname(vs, nm);
            printf("  output vdata <%s> records %d\n", nm, (int)VSelts(vs));
            VSdetach(vs);
            n++;
        }
        Vend(f);
        Hclose(f);
    }
    remove("c18_ev_in.hdf");
    remove("c18_ev_out.hdf");
    return rc != 0;
}
