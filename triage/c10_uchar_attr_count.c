/* TRIAGE ONLY (C10): SDsetattr(.., DFNT_UCHAR8, 5, {1,2,3,4,5}) on a data set and on the file; after SDend/SDstart SDattrinfo
 * reported count 1 (the writer stores five records of order 1, the reader took the field order as the count for every
 * character type).  Expected: count 5 and the same five values. */
#include "mfhdf.h"
#include <stdio.h>
#include <string.h>
int main(void)
{
    int32 sd = SDstart("c10_uchar.hdf", DFACC_CREATE), dims[1] = {4};
    uint8 v[5] = {1, 2, 3, 4, 5}, r[16] = {0};
    int32 sds  = SDcreate(sd, "d", DFNT_INT32, 1, dims);
    if (SDsetattr(sds, "ua", DFNT_UCHAR8, 5, v) < 0 || SDsetattr(sd, "ga", DFNT_UCHAR8, 5, v) < 0 ||
        SDsetattr(sds, "txt", DFNT_CHAR8, 3, "abc") < 0)
        return 2;
    SDendaccess(sds);
    SDend(sd);
    sd  = SDstart("c10_uchar.hdf", DFACC_READ);
    sds = SDselect(sd, 0);
    char  nm[100];
    int32 nt, cnt;
    int   bad = 0;
    SDattrinfo(sds, 0, nm, &nt, &cnt);
    printf("%s nt=%d cnt=%d\n", nm, (int)nt, (int)cnt);
    bad |= !(nt == DFNT_UCHAR8 && cnt == 5);
    if (cnt <= 16 && SDreadattr(sds, 0, r) == 0)
        bad |= memcmp(r, v, 5) != 0;
    SDattrinfo(sds, 1, nm, &nt, &cnt);
    printf("%s nt=%d cnt=%d\n", nm, (int)nt, (int)cnt);
    bad |= !(cnt == 3);
    SDattrinfo(sd, 0, nm, &nt, &cnt);
    printf("%s nt=%d cnt=%d\n", nm, (int)nt, (int)cnt);
    bad |= !(cnt == 5);
    SDend(sd);
    return bad;
}
