/* C20 / F9b: vinsertpair increments the uint16 nvelt without a limit. 65540 Vaddtagref calls: the ones beyond 65535 must FAIL;
 * defect: all succeed and Vntagrefs wraps to 4. exit 0 ok / 1 defect */
#include "hdf.h"
#include <stdio.h>
int main(void)
{
    int32 f = Hopen("c20_vg.hdf", DFACC_CREATE, 0), vg, i, fails = 0, n;
    Vstart(f);
    vg = Vattach(f, -1, "w");
    for (i = 0; i < 65540; i++)
        if (Vaddtagref(vg, 2000 + (i >> 15), (i & 0x7fff) + 1) == FAIL) fails++;
    n = Vntagrefs(vg);
    printf("65540 inserts: %d failed, Vntagrefs=%d\n", (int)fails, (int)n);
    Vdetach(vg); Vend(f); Hclose(f); remove("c20_vg.hdf");
    return (n == 65535 && fails == 5) ? 0 : 1;
}
