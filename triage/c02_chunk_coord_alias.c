/* C02: SDgetdatainfo with a chunk coordinate outside the chunk grid must fail, not report another chunk's location */
#include "mfhdf.h"
#include <stdio.h>
int main(void)
{
    int32 dims[2]={4,4}, st[2]={0,0}; int32 d[16]; for(int i=0;i<16;i++) d[i]=i;
    int32 sd=SDstart("c02c.hdf",DFACC_CREATE); int32 s=SDcreate(sd,"v",DFNT_INT32,2,dims);
    HDF_CHUNK_DEF c; c.chunk_lengths[0]=2; c.chunk_lengths[1]=2; SDsetchunk(s,c,HDF_CHUNK);
    SDwritedata(s,st,NULL,dims,d); SDendaccess(s); SDend(sd);
    sd=SDstart("c02c.hdf",DFACC_READ); s=SDselect(sd,0);
    int32 off[1],len[1]; int32 in[2]={1,0}, out[2]={0,2};
    intn a=SDgetdatainfo(s,in,0,1,off,len); int32 o1=off[0];
    off[0]=len[0]=-7;
    intn b=SDgetdatainfo(s,out,0,1,off,len);
    printf("chunk (1,0): n=%d off=%d; chunk (0,2) [outside 2x2 grid]: n=%d off=%d len=%d\n",a,(int)o1,b,(int)off[0],(int)len[0]);
    SDendaccess(s); SDend(sd); remove("c02c.hdf");
    return !(b==FAIL); }
