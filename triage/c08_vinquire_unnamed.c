/* TRIAGE ONLY (C08): Vinquire(vg, &n, name) on a new Vgroup that has no name yet.  Before the fix Vinquire copied from the NULL
 * name pointer (SIGSEGV); Vgetname on the same Vgroup returns an empty string.  Expected: success and an empty name. */
#include "hdf.h"
#include <stdio.h>
int main(void)
{
    char  nm[VGNAMELENMAX + 1] = "x";
    int32 n = -1, fid = Hopen("c08_vinq.hdf", DFACC_CREATE, 0);
    Vstart(fid);
    int32 vg = Vattach(fid, -1, "w");
    int32 rc = Vinquire(vg, &n, nm);
    printf("Vinquire = %d, n = %d, name = '%s'\n", (int)rc, (int)n, nm);
    Vdetach(vg);
    Vend(fid);
    Hclose(fid);
    return !(rc == SUCCEED && n == 0 && nm[0] == '\0');
}
