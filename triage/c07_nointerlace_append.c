/* TRIAGE ONLY (C07, observed, not repaired): a NO_INTERLACE Vdata written with two VSwrite calls (3 + 2 records of two int32
 * fields) reads back as (1,103)(2,4)(3,5)(101,104)(102,105): every call stores its own field-major block.  The User's Guide
 * documents NO_INTERLACE Vdatas as not appendable; the API accepts the second write. */
#include "hdf.h"
#include <stdio.h>
int main(void){
  int32 fid=Hopen("ni.hdf",DFACC_CREATE,0); Vstart(fid); int32 vs=VSattach(fid,-1,"w");
  VSsetname(vs,"ni"); VSfdefine(vs,"a",DFNT_INT32,1); VSfdefine(vs,"b",DFNT_INT32,1); VSsetfields(vs,"a,b");
  VSsetinterlace(vs,NO_INTERLACE);
  int32 b1[6]={1,101,2,102,3,103}; /* record-major user buffer */
  int32 b2[4]={4,104,5,105};
  printf("w1 %d\n",VSwrite(vs,(uint8*)b1,3,FULL_INTERLACE));
  printf("w2 %d\n",VSwrite(vs,(uint8*)b2,2,FULL_INTERLACE));
  int32 ref=VSQueryref(vs); VSdetach(vs);
  vs=VSattach(fid,ref,"r"); VSsetfields(vs,"a,b"); int32 r[10]; int n=VSread(vs,(uint8*)r,5,FULL_INTERLACE);
  printf("read %d:",n); for(int i=0;i<10;i++)printf(" %d",r[i]); printf("\n");
  VSdetach(vs); Vend(fid); Hclose(fid); return 0; }
