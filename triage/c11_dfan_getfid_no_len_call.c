/* TRIAGE ONLY (C11): a file with exactly one file label, listed with DFANgetfid alone (isfirst = 1, then 0) without the optional
 * DFANgetfidlen calls.  After the only label was read there is no next one, and DFANIgetfann makes the following call fail by
 * stepping the cursor "one higher than current value" — but the cursor still holds what an earlier walk left (0 here), not the
 * ref just read, so it becomes 1 = the ref of the only label and the second call returns that label again: the listing reports
 * a label that does not exist.  Expected: the second call fails.  Exit 1 when the label is listed twice. */
#include "hdf.h"
#include <stdio.h>
int main(void)
{
    const char *fn = "c11_dfan_getfid_no_len_call.hdf";
    char        buf[64];
    int32       f = Hopen(fn, DFACC_CREATE, 0);
    DFANaddfid(f, "only label");
    Hclose(f);
    f       = Hopen(fn, DFACC_READ, 0);
    int32 a = DFANgetfid(f, buf, 64, 1);
    printf("first : %d '%s'\n", (int)a, a > 0 ? buf : "");
    int32 b = DFANgetfid(f, buf, 64, 0);
    printf("second: %d '%s'\n", (int)b, b > 0 ? buf : "");
    Hclose(f);
    remove(fn);
    return (a == 10 && b == FAIL) ? 0 : 1;
}
