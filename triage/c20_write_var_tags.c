/* TRIAGE replay (not a check): hdf_write_var collects rank + nattrs + up to 5 more tag/ref pairs into
 * tags[H4_MAX_NC_ATTRS + H4_MAX_VAR_DIMS + 2]; a rank-32 SDS with the documented maximum of attributes overruns it (ASan). */
#include <stdio.h>
#include <string.h>
#include "mfhdf.h"
int
main(int argc, char **argv)
{
    int   nattr = argc > 1 ? atoi(argv[1]) : H4_MAX_NC_ATTRS;
    int32 dims[H4_MAX_VAR_DIMS];
    for (int i = 0; i < H4_MAX_VAR_DIMS; i++)
        dims[i] = 1;
    int32 sd  = SDstart("c20_tags.hdf", DFACC_CREATE);
    int32 sds = SDcreate(sd, "v", DFNT_INT8, H4_MAX_VAR_DIMS, dims);
    int8  one = 1;
    int   ok  = 0;
    for (int i = 0; i < nattr; i++) {
        char nm[32];
        sprintf(nm, "a%d", i);
        if (SDsetattr(sds, nm, DFNT_INT8, 1, &one) == FAIL)
            break;
        ok++;
    }
    int32 st[H4_MAX_VAR_DIMS] = {0};
    SDwritedata(sds, st, NULL, dims, &one);
    printf("attributes accepted: %d\n", ok);
    SDendaccess(sds);
    printf("SDend -> %d\n", (int)SDend(sd));
    return 0;
}
