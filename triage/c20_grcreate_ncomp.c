/* TRIAGE ONLY (C20): GRcreate accepted 70000 components; the image dimension record stores the count in 16 bits, so after
 * GRend/reopen GRgetiminfo reported 4464 components (70000 mod 65536) for the same image.  Expected after the fix: refused. */
#include "hdf.h"
#include <stdio.h>
#include <stdlib.h>
int main(void)
{
    int32 nc = 70000, dims[2] = {1, 1}, st[2] = {0, 0};
    int32 f = Hopen("c20_ncomp.hdf", DFACC_CREATE, 0), gr = GRstart(f);
    int32 ri = GRcreate(gr, "big", nc, DFNT_UINT8, MFGR_INTERLACE_PIXEL, dims);
    printf("GRcreate(ncomp=%d) -> %d\n", (int)nc, (int)ri);
    if (ri == FAIL) {
        GRend(gr);
        Hclose(f);
        return 0; /* refused: fine */
    }
    uint8 *b = calloc(nc, 1);
    GRwriteimage(ri, st, NULL, dims, b);
    GRendaccess(ri);
    GRend(gr);
    Hclose(f);
    f  = Hopen("c20_ncomp.hdf", DFACC_READ, 0);
    gr = GRstart(f);
    ri = GRselect(gr, 0);
    char  nm[64];
    int32 n2, nt, il, d2[2], na;
    GRgetiminfo(ri, nm, &n2, &nt, &il, d2, &na);
    printf("reopened: ncomp=%d\n", (int)n2);
    return n2 != nc;
}
