/* TRIAGE ONLY (C15): a file of the oldest convention holding just an RLE-compressed 8-bit image (CI8 + ID8, no RIG).
 * DFR8getimage decodes it; before the fix GRreadimage returned SUCCEED with the RLE bytes as pixels and GRgetcomptype said NONE
 * (the import branch for ungrouped images never selected the compressed-raster driver).  Expected: eq=1 twice, ct=1 (RLE). */
#include "hdf.h"
#include <stdio.h>
#include <string.h>
#define X 12
#define Y 5
int main(void){
  uint8 img[Y][X], in[X*Y], cbuf[512], id8[4]={0,X,0,Y}; int i,j;
  for(i=0;i<Y;i++)for(j=0;j<X;j++)img[i][j]=(uint8)(j<6?9:i);
  DFR8putimage("p7a.hdf",img,X,Y,COMP_RLE);
  int32 f=Hopen("p7a.hdf",DFACC_READ,0); uint16 ref=DFR8lastref(); 
  uint16 t,r; int32 off,len; t=r=0; Hfind(f,DFTAG_CI8,DFREF_WILDCARD,&t,&r,&off,&len,DF_FORWARD); Hgetelement(f,t,r,cbuf); Hclose(f);
  printf("CI8 ref %d len %d (rigref %d)\n",r,len,ref);
  f=Hopen("p7.hdf",DFACC_CREATE,0); Hputelement(f,DFTAG_CI8,3,cbuf,len); Hputelement(f,DFTAG_ID8,3,id8,4); Hclose(f);
  int32 xd,yd; int ip; DFR8restart(); printf("DFR8getdims %d",DFR8getdims("p7.hdf",&xd,&yd,&ip)); printf(" %dx%d\n",xd,yd);
  memset(in,0,sizeof in); printf("DFR8getimage %d",DFR8getimage("p7.hdf",in,X,Y,NULL)); printf(" eq=%d\n",!memcmp(in,img,X*Y));
  f=Hopen("p7.hdf",DFACC_READ,0); int32 gr=GRstart(f),n,na; GRfileinfo(gr,&n,&na); printf("GR n=%d\n",n);
  int32 ri=GRselect(gr,0); int32 st[2]={0,0},dm[2]={X,Y}; memset(in,0,sizeof in); int rc=GRreadimage(ri,st,NULL,dm,in); printf("GRreadimage %d eq=%d first bytes %d %d %d %d\n",rc,!memcmp(in,img,X*Y),in[0],in[1],in[2],in[3]);
  comp_coder_t ct; printf("GRgetcomptype %d",GRgetcomptype(ri,&ct)); printf(" ct=%d\n",ct);
  GRendaccess(ri);GRend(gr);Hclose(f); return memcmp(in,img,X*Y)!=0;}
