#include <stdio.h>
#include "hdf.h"
#include "mfhdf.h"
int main(void){
    int32 dims[1]={4}; float32 d[4]={1,2,3,4};
    float64 cal=2.5,cale=0.1,off=10.0,offe=0.2; int32 ct=DFNT_INT16;
    float64 rc,rce,ro,roe; int32 rct; int32 sd,sds,n,g,k; int bad=0;
    DFSDclear(); DFSDsetNT(DFNT_NFLOAT32); DFSDsetdims(1,dims);
    DFSDsetcal(cal,cale,off,offe,ct);
    if(DFSDputdata("base.hdf",1,dims,d)==FAIL) return 2;
    sd=SDstart("base.hdf",DFACC_READ); SDfileinfo(sd,&n,&g);
    for(k=0;k<n;k++){sds=SDselect(sd,k); if(!SDiscoordvar(sds))break; SDendaccess(sds);}
    if(SDgetcal(sds,&rc,&rce,&ro,&roe,&rct)==FAIL){printf("SDgetcal failed\n");return 1;}
    printf("DFSD wrote cal=%g off=%g type=%d; SD sees cal=%g off=%g type=%d\n",cal,off,(int)ct,rc,ro,(int)rct);
    if(rc!=cal||ro!=off||rct!=ct) bad=1;
    return bad;
}
