/* TRIAGE ONLY (C20): an SD file to whose top Vgroup (class "CDF0.0") a user Vgroup with a 5000-character class was added (Vsetclass
 * and Vinsert accept it).  SDstart walks the members of that group (hdf_read_dims / hdf_read_vars / hdf_close) and read each class
 * into `char class[H4_MAX_NC_CLASS]` (128 bytes) with Vgetclass, an unbounded copy: the stack is overwritten and SDstart crashes
 * (with 300 characters it corrupts the frame silently).  Expected: SDstart succeeds and ignores the member.  Exit 0 when it does. */
#include "mfhdf.h"
#include <stdio.h>
#include <string.h>
int main(void)
{
    const char *fn = "c20_sdstart_long_member_class.hdf";
    char cls[5001]; memset(cls,0x5a,5000); cls[5000]=0;
    int32 dims[1]={2};
    int32 sd0=SDstart(fn,DFACC_CREATE); SDendaccess(SDcreate(sd0,"d",DFNT_INT32,1,dims)); SDend(sd0);
    int32 fid=Hopen(fn,DFACC_RDWR,0); Vstart(fid);
    int32 ref=Vfindclass(fid,"CDF0.0"); printf("root ref %d\n",(int)ref);
    int32 root=Vattach(fid,ref,"w");
    int32 vg=Vattach(fid,-1,"w"); Vsetname(vg,"g"); Vsetclass(vg,cls);
    printf("insert=%d ntagrefs=%d\n",(int)Vinsert(root,vg),(int)Vntagrefs(root));
    Vdetach(vg); Vdetach(root); Vend(fid); Hclose(fid);
    fid=Hopen(fn,DFACC_READ,0); Vstart(fid); root=Vattach(fid,Vfindclass(fid,"CDF0.0"),"r");
    printf("after reopen ntagrefs=%d\n",(int)Vntagrefs(root));
    for(int i=0;i<Vntagrefs(root);i++){int32 t,r;Vgettagref(root,i,&t,&r);printf(" %d/%d",(int)t,(int)r);} printf("\n");
    Vdetach(root);Vend(fid);Hclose(fid);
    int32 sd=SDstart(fn,DFACC_READ); int32 n=-1,na=-1; if(sd!=FAIL){SDfileinfo(sd,&n,&na);SDend(sd);} printf("SDstart = %d, data sets = %d\n",(int)sd,(int)n); remove(fn);
    return !(sd!=FAIL && n==1);
}

