/* C18: -c "*:16x16" (applies to rank-2 objects only) with -t "B:GZIP 6" on a rank-1 SDS B that is chunked+RLE in the input:
   B must come out GZIP-compressed */
#include "mfhdf.h"
#include <stdio.h>
#include <stdlib.h>
int main(int argc,char**argv)
{
    const char *hrepack = argc>1?argv[1]:"/repo/_build/bin/hrepack";
    int32 dims[1]={2048}, st[1]={0}; static int32 d[2048]; for(int i=0;i<2048;i++) d[i]=i%5;
    int32 sd=SDstart("c18in.hdf",DFACC_CREATE); int32 s=SDcreate(sd,"B",DFNT_INT32,1,dims);
    HDF_CHUNK_DEF c; c.comp.chunk_lengths[0]=512; c.comp.comp_type=COMP_CODE_RLE; SDsetchunk(s,c,HDF_CHUNK|HDF_COMP);
    SDwritedata(s,st,NULL,dims,d); SDendaccess(s);
    int32 d2[2]={32,32}, s2[2]={0,0}; s=SDcreate(sd,"A",DFNT_INT32,2,d2); SDwritedata(s,s2,NULL,d2,d); SDendaccess(s); SDend(sd);
    char cmd[512]; snprintf(cmd,sizeof cmd,"%s -i c18in.hdf -o c18out.hdf -c '*:16x16' -t 'B:GZIP 6' >/dev/null",hrepack);
    int rc=system(cmd); printf("hrepack rc=%d\n",rc);
    sd=SDstart("c18out.hdf",DFACC_READ); s=SDselect(sd,SDnametoindex(sd,"B"));
    comp_coder_t ct=COMP_CODE_INVALID; comp_info ci; SDgetcompinfo(s,&ct,&ci);
    printf("output B: comp_type=%d (GZIP=%d, RLE=%d)\n",(int)ct,(int)COMP_CODE_DEFLATE,(int)COMP_CODE_RLE);
    SDendaccess(s); SDend(sd); remove("c18in.hdf"); remove("c18out.hdf");
    return !(rc==0 && ct==COMP_CODE_DEFLATE); }
