/* TRIAGE ONLY (C03): a rank-0 (scalar) data set read with a non-NULL stride array.  Before the fix SDreaddata's stride validation
 * read var->shape[0] although a scalar variable has no shape (NULL): SIGSEGV.  With a NULL stride the same read works.
 * Expected: the value 7 is read back. */
#include "mfhdf.h"
#include <stdio.h>
int main(void)
{
    int32 st[1] = {0}, ct[1] = {1}, sr[1] = {1}, v = 7, o = 0;
    int32 sd = SDstart("c03_rank0.hdf", DFACC_CREATE), s = SDcreate(sd, "s", DFNT_INT32, 0, NULL);
    SDwritedata(s, st, NULL, ct, &v);
    int rc = SDreaddata(s, st, sr, ct, &o);
    printf("SDreaddata(stride) = %d, value %d (expected 0, 7)\n", rc, (int)o);
    SDendaccess(s);
    SDend(sd);
    return !(rc == 0 && o == 7);
}
