/* TRIAGE ONLY (C16/C13) — KEPT AS A RECORD OF A WITHDRAWN REPAIR, see DESIGN 11.5.  The behaviour shown here (Hclose fails with
 * DFE_OPENAID after a failed release) is what keeps an unnoticed Hendaccess failure visible; detaching on the failure exit was
 * tried (6a4e2fc) and taken back (f1070b2) because the C16 lemma ATTACH showed it would hide such failures.
 * Original note: the release of an external element fails (its external file cannot take the buffered bytes: the data start
 * 1 MiB into the external file and RLIMIT_FSIZE is 64 KiB, SIGXFSZ ignored).  Hendaccess reports FAIL and the access id is gone —
 * but the special end-access routine left through its failure exit without detaching from the file: `file_rec->attach` stays 1
 * and Hclose fails with DFE_OPENAID for ever, so the descriptors of everything else written in the session are never flushed.
 * Expected: after the failed release Hclose succeeds and the two ordinary elements are in the file.  Exit 1 otherwise. */
#include <signal.h>
#include <stdio.h>
#include <string.h>
#include <sys/resource.h>
#include "hdf.h"
int main(void)
{
    const char   *fn = "c16_fea.hdf", *ext = "c16_fea.ext";
    struct rlimit rl;
    signal(SIGXFSZ, SIG_IGN);
    remove(fn);
    remove(ext);
    int32 fid = Hopen(fn, DFACC_CREATE, 0);
    Hputelement(fid, 1000, 1, (const uint8 *)"AAAAAAAA", 8);
    int32 x     = HXcreate(fid, 2000, 1, ext, 1024 * 1024, 0);
    rl.rlim_cur = rl.rlim_max = 64 * 1024;
    setrlimit(RLIMIT_FSIZE, &rl);
    Hwrite(x, 8, "XXXXXXXX");
    int r = Hendaccess(x);
    printf("Hendaccess(external element) = %d (expected to fail)\n", r);
    Hputelement(fid, 1001, 1, (const uint8 *)"BBBBBBBB", 8);
    int c = Hclose(fid);
    printf("Hclose = %d\n", c);
    if (c == FAIL)
        HEprint(stdout, 0);
    int bad = (r != FAIL) ? 2 : (c == FAIL);
    fid     = Hopen(fn, DFACC_READ, 0);
    if (fid != FAIL) {
        printf("after reopen: Hlength(1000/1) = %d, Hlength(1001/1) = %d\n", (int)Hlength(fid, 1000, 1), (int)Hlength(fid, 1001, 1));
        if (Hlength(fid, 1001, 1) != 8)
            bad = bad ? bad : 1;
        Hclose(fid);
    }
    remove(fn);
    remove(ext);
    return bad;
}
