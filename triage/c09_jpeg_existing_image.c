/* TRIAGE ONLY (C09, known finding F3c:GRsetcompress:ri_ptr): an image created (without data) in one session; in the next
 * session GRsetcompress(COMP_CODE_JPEG), GRwriteimage, GRend all return success, but the JPEG tag GRsetcompress stored in the
 * in-memory dimension record is never written (meta_modified is not set), and after reopen the image reports no compression
 * and GRreadimage returns the raw JPEG stream as pixels.  In a single session (meta_modified still set by GRcreate) it works. */
#include "hdf.h"
#include <stdio.h>
#include <stdlib.h>
int main(void){
  int32 dims[2]={16,16}, st[2]={0,0};
  int32 f=Hopen("jp.hdf",DFACC_CREATE,0), gr=GRstart(f);
  int32 ri=GRcreate(gr,"img",1,DFNT_UINT8,MFGR_INTERLACE_PIXEL,dims);
  GRendaccess(ri); GRend(gr); Hclose(f);
  f=Hopen("jp.hdf",DFACC_RDWR,0); gr=GRstart(f); ri=GRselect(gr,0);
  comp_info ci; ci.jpeg.quality=90; ci.jpeg.force_baseline=1;
  printf("setcompress %d\n", GRsetcompress(ri, COMP_CODE_JPEG, &ci));
  uint8 b[256]; for(int i=0;i<256;i++) b[i]=(uint8)(i/16*10);
  printf("write %d\n", GRwriteimage(ri,st,NULL,dims,b));
  GRendaccess(ri); printf("GRend %d\n",GRend(gr)); Hclose(f);
  f=Hopen("jp.hdf",DFACC_READ,0); gr=GRstart(f); ri=GRselect(gr,0);
  uint8 r[256]={0}; int rc=GRreadimage(ri,st,NULL,dims,r); comp_coder_t ct; GRgetcomptype(ri,&ct);
  printf("read %d comptype %d: %d %d %d ... %d\n",rc,(int)ct,r[0],r[16],r[32],r[255]);
  int bad=0; for(int i=0;i<256;i++) if(abs((int)r[i]-(int)b[i])>12) bad++;
  printf("bad %d\n",bad); return bad!=0; }
