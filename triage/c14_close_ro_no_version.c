/* TRIAGE ONLY (C14): a file without a version element (here: removed with Hdeldd; files written by very old libraries have none)
 * is opened with DFACC_READ and one element is read.  The first access notes that the version element should be written; before
 * the fix Hclose then tried to write it, failed with DFE_DENIED and returned FAIL, leaving the read-only file open for good.
 * Expected: Hclose returns 0 and the file's bytes are unchanged. */
#include "hdf.h"
#include <stdio.h>
int main(void){
  uint8 b[4]={1,2,3,4}, r[4];
  int32 f=Hopen("nv.hdf",DFACC_CREATE,0); Hputelement(f,1000,1,b,4); Hdeldd(f,DFTAG_VERSION,1); Hclose(f);
  f=Hopen("nv.hdf",DFACC_READ,0); printf("open %d\n",(int)f);
  printf("get %d\n",(int)Hgetelement(f,1000,1,r));
  int rc=Hclose(f); printf("Hclose %d\n",rc); if(rc<0) HEprint(stdout,0);
  return rc<0; }
