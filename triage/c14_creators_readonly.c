/* C14: calls that create a stored object are refused through a read-only handle */
#include "mfhdf.h"
#include <stdio.h>
int main(void)
{
    int32 sd=SDstart("c14c.hdf",DFACC_CREATE); int32 dims[1]={2}; int32 s=SDcreate(sd,"v",DFNT_INT32,1,dims); int32 st[1]={0},d[2]={1,2}; SDwritedata(s,st,NULL,dims,d); SDendaccess(s); SDend(sd);
    int bad=0;
    int32 f=Hopen("c14c.hdf",DFACC_READ,0); Vstart(f); int32 an=ANstart(f), gr=GRstart(f);
    int32 a1=ANcreatef(an,AN_FILE_LABEL), a2=ANcreate(an,DFTAG_NDG,2,AN_DATA_LABEL);
    int32 vg=Vattach(f,-1,"w"), vs=VSattach(f,-1,"w"); int32 gd[2]={2,2}; int32 ri=GRcreate(gr,"i",1,DFNT_UINT8,MFGR_INTERLACE_PIXEL,gd);
    printf("ANcreatef=%d ANcreate=%d Vattach(-1,w)=%d VSattach(-1,w)=%d GRcreate=%d\n",(int)a1,(int)a2,(int)vg,(int)vs,(int)ri);
    if(a1!=FAIL||a2!=FAIL||vg!=FAIL||vs!=FAIL||ri!=FAIL) bad=1;
    GRend(gr); ANend(an); Vend(f); Hclose(f);
    sd=SDstart("c14c.hdf",DFACC_READ); s=SDcreate(sd,"w",DFNT_INT32,1,dims); printf("SDcreate=%d\n",(int)s); if(s!=FAIL) bad=1; SDend(sd);
    remove("c14c.hdf"); return bad; }
