/* TRIAGE replay (not a check): SD file ids are positions in the _cdfs table; SDreset_maxopenfiles compacts the table, so with a
 * hole in it every id above the hole changes meaning: a valid id is rejected and a closed one designates another file.
 * exit 0 = ids keep their meaning */
#include <stdio.h>
#include "mfhdf.h"
int
main(void)
{
    int32 dims[1] = {3}, n, na;
    char  nm[3][16] = {"c13_a.hdf", "c13_b.hdf", "c13_c.hdf"};
    int32 sd[3];
    for (int i = 0; i < 3; i++) {
        sd[i]     = SDstart(nm[i], DFACC_CREATE);
        int32 sds = SDcreate(sd[i], i == 2 ? "only_in_c" : "x", DFNT_INT8, 1, dims);
        SDendaccess(sds);
    }
    SDend(sd[1]);              /* hole in the middle */
    SDreset_maxopenfiles(40);  /* re-allocates the table */
    int  bad = 0;
    intn r2  = SDfileinfo(sd[2], &n, &na);
    printf("valid id of file c: SDfileinfo -> %d\n", (int)r2);
    if (r2 == FAIL)
        bad = 1;
    intn r1 = SDfileinfo(sd[1], &n, &na);
    printf("closed id of file b: SDfileinfo -> %d%s\n", (int)r1, r1 != FAIL ? "  (accepted!)" : "");
    if (r1 != FAIL)
        bad = 1;
    SDend(sd[0]);
    if (r2 != FAIL)
        SDend(sd[2]);
    return bad;
}
