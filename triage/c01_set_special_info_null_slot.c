/* C01 / F7a: HDset_special_info dispatches special_func->reset without a NULL test; only ext_funcs has a reset function.
 * On a linked-block element the call must fail cleanly; defect: NULL function pointer call (SIGSEGV). */
#include "hdf.h"
#include "hfile_priv.h"
#include <stdio.h>
#include <string.h>
int main(void)
{
    int32 f = Hopen("c01_ssi.hdf", DFACC_CREATE, 0), aid, r;
    sp_info_block_t info;
    memset(&info, 0, sizeof info);
    aid = HLcreate(f, 1000, 1, 64, 4);
    Hwrite(aid, 8, "abcdefgh");
    r = HDset_special_info(aid, &info);
    printf("HDset_special_info on a linked-block element -> %d\n", (int)r);
    Hendaccess(aid); Hclose(f); remove("c01_ssi.hdf");
    return r == FAIL ? 0 : 1;
}
