/* TRIAGE ONLY (never part of a check's verdict): fault-injection sweep used to decide whether a
 * static F4 report (dropped / swallowed I/O result) is a genuine defect.  For each workload and each
 * index k of a stdio call in the fault-free run, the k-th call fails (single or sticky); a defect is a
 * run in which every API call reported success although the file differs from the fault-free one, or a
 * crash.  Build: triage/run_c16.sh   (links with --wrap on the stdio entry points).               */
#define _GNU_SOURCE
#include <errno.h>
#include <execinfo.h>
#include <stdio.h>
#include <stdio_ext.h>
#include <stdlib.h>
#include <string.h>
#include <sys/wait.h>
#include <unistd.h>

#include "hdf.h"
#include "mfhdf.h"

static long  g_count, g_fail_at = -1;
static int   g_sticky, g_armed;
static void *g_bt[64];
static int   g_btn;
static char  g_what[32];
static int   g_fd = 2;

static int
hit(const char *what)
{
    if (!g_armed)
        return 0;
    long me = g_count++;
    if (g_fail_at < 0)
        return 0;
    if (me == g_fail_at || (g_sticky && me > g_fail_at)) {
        if (me == g_fail_at) {
            g_btn = backtrace(g_bt, 64);
            strncpy(g_what, what, sizeof g_what - 1);
            char buf[2048];
            int  n = snprintf(buf, sizeof buf, "INJ %s", what);
            for (int i = 0; i < g_btn && n < 1900; i++)
                n += snprintf(buf + n, sizeof buf - n, " %p", g_bt[i]);
            buf[n++] = '\n';
            if (write(g_fd, buf, n) < 0)
                _exit(3);
        }
        errno = EIO;
        return 1;
    }
    return 0;
}

size_t __real_fwrite(const void *, size_t, size_t, FILE *);
size_t __real_fread(void *, size_t, size_t, FILE *);
int    __real_fseek(FILE *, long, int);
int    __real_fflush(FILE *);
int    __real_fclose(FILE *);
FILE  *__real_fopen(const char *, const char *);

static int
is_std(FILE *f)
{
    return f == stdout || f == stderr || f == stdin;
}

size_t
__wrap_fwrite(const void *p, size_t s, size_t n, FILE *f)
{
    if (!is_std(f) && hit("fwrite")) {
        /* short count: half of the data goes out */
        if (n > 1)
            return __real_fwrite(p, s, n / 2, f);
        return 0;
    }
    return __real_fwrite(p, s, n, f);
}
size_t
__wrap_fread(void *p, size_t s, size_t n, FILE *f)
{
    if (!is_std(f) && hit("fread"))
        return 0;
    return __real_fread(p, s, n, f);
}
int
__wrap_fseek(FILE *f, long o, int w)
{
    if (!is_std(f) && hit("fseek"))
        return -1;
    return __real_fseek(f, o, w);
}
int
__wrap_fflush(FILE *f)
{
    if (f && !is_std(f) && hit("fflush")) {
        __fpurge(f); /* the buffered bytes never reach the file (ENOSPC at flush time) */
        return EOF;
    }
    return __real_fflush(f);
}
int
__wrap_fclose(FILE *f)
{
    if (!is_std(f) && hit("fclose")) {
        __fpurge(f); /* the buffered bytes never reach the file (ENOSPC at close time) */
        __real_fclose(f);
        return EOF;
    }
    return __real_fclose(f);
}
FILE *
__wrap_fopen(const char *n, const char *m)
{
    if (hit("fopen"))
        return NULL;
    return __real_fopen(n, m);
}

/* ---- workloads: return number of API calls that reported failure ---- */
static int nfail;
#define CK(x)                                                                                                \
    do {                                                                                                     \
        if ((x) == FAIL) {                                                                                   \
            nfail++;                                                                                         \
            if (g_fail_at < 0 && g_armed)                                                                    \
                fprintf(stderr, "fault-free failure at line %d\n", __LINE__);                                \
        }                                                                                                    \
    } while (0)

static unsigned char big[40000];
static unsigned char rbuf[40000];
static unsigned long g_digest = 1469598103934665603UL;
static void
dg(const void *p, size_t n)
{
    const unsigned char *c = p;
    while (n--)
        g_digest = (g_digest ^ *c++) * 1099511628211UL;
}
/* run a block with fault injection switched off (set-up of read workloads) */
#define QUIET(...)                                                                                          \
    do {                                                                                                     \
        int a_ = g_armed;                                                                                    \
        g_armed = 0;                                                                                         \
        __VA_ARGS__;                                                                                         \
        g_armed = a_;                                                                                        \
    } while (0)

static void
w_hlevel(const char *fn)
{
    int32 fid = Hopen(fn, DFACC_CREATE, 4);
    if (fid == FAIL) {
        nfail++;
        return;
    }
    int32 aid = Hstartwrite(fid, 1000, 1, 100);
    if (aid == FAIL)
        nfail++;
    else {
        CK(Hwrite(aid, 100, big));
        CK(Hendaccess(aid));
    }
    CK(Hputelement(fid, 1000, 2, big + 7, 300));
    aid = HLcreate(fid, 1001, 1, 64, 2);
    if (aid == FAIL)
        nfail++;
    else {
        CK(Hwrite(aid, 1000, big));
        CK(Hendaccess(aid));
    }
    for (int i = 0; i < 8; i++)
        CK(Hputelement(fid, 1002, (uint16)(i + 1), big + i, 10));
    CK(Hclose(fid));
}

static void
w_linked_append(const char *fn)
{
    int32 fid = Hopen(fn, DFACC_CREATE, 0);
    if (fid == FAIL) {
        nfail++;
        return;
    }
    int32 a1 = Hstartwrite(fid, 1000, 1, 10);
    if (a1 == FAIL) {
        nfail++;
    }
    else {
        CK(Hwrite(a1, 10, big));
        CK(Hendaccess(a1));
    }
    CK(Hputelement(fid, 1000, 2, big, 20));
    /* append to element 1: promoted to linked blocks */
    a1 = Hstartaccess(fid, 1000, 1, DFACC_RDWR | DFACC_APPENDABLE);
    if (a1 == FAIL)
        nfail++;
    else {
        CK(Hseek(a1, 10, DF_START));
        CK(Hwrite(a1, 5000, big + 10));
        CK(Hendaccess(a1));
    }
    CK(Hclose(fid));
}

static void
w_vdata(const char *fn)
{
    int32 fid = Hopen(fn, DFACC_CREATE, 0);
    if (fid == FAIL) {
        nfail++;
        return;
    }
    CK(Vstart(fid));
    int32 vs = VSattach(fid, -1, "w");
    if (vs == FAIL)
        nfail++;
    else {
        CK(VSfdefine(vs, "A", DFNT_INT32, 1));
        CK(VSfdefine(vs, "B", DFNT_FLOAT32, 2));
        CK(VSsetfields(vs, "A,B"));
        CK(VSsetname(vs, "tab"));
        CK(VSwrite(vs, big, 100, FULL_INTERLACE));
        int32 at = 7;
        CK(VSsetattr(vs, _HDF_VDATA, "att", DFNT_INT32, 1, &at));
    }
    int32 vg = Vattach(fid, -1, "w");
    if (vg == FAIL)
        nfail++;
    else {
        CK(Vsetname(vg, "grp"));
        if (vs != FAIL)
            CK(Vinsert(vg, vs));
        CK(Vaddtagref(vg, 1000, 1));
    }
    if (vs != FAIL)
        CK(VSdetach(vs));
    if (vg != FAIL)
        CK(Vdetach(vg));
    CK(Vend(fid));
    CK(Hclose(fid));
}

static void
w_sd(const char *fn, int mode)
{
    int32 sd = SDstart(fn, DFACC_CREATE);
    if (sd == FAIL) {
        nfail++;
        return;
    }
    int32 dims[2] = {20, 30};
    int32 sds     = SDcreate(sd, "data", DFNT_INT16, 2, dims);
    if (sds == FAIL)
        nfail++;
    else {
        if (mode == 1) {
            comp_info ci;
            ci.deflate.level = 6;
            CK(SDsetcompress(sds, COMP_CODE_DEFLATE, &ci));
        }
        if (mode == 2 || mode == 3) {
            HDF_CHUNK_DEF cd;
            memset(&cd, 0, sizeof cd);
            cd.chunk_lengths[0] = 5;
            cd.chunk_lengths[1] = 10;
            if (mode == 3) {
                cd.comp.chunk_lengths[0] = 5;
                cd.comp.chunk_lengths[1] = 10;
                cd.comp.comp_type        = COMP_CODE_RLE;
            }
            CK(SDsetchunk(sds, cd, mode == 3 ? (HDF_CHUNK | HDF_COMP) : HDF_CHUNK));
        }
        if (mode == 4) {
            CK(SDsetnbitdataset(sds, 0, 7, FALSE, FALSE));
        }
        int32 st[2] = {0, 0};
        CK(SDwritedata(sds, st, NULL, dims, big));
        int32 at = 5;
        CK(SDsetattr(sds, "a", DFNT_INT32, 1, &at));
        CK(SDendaccess(sds));
    }
    CK(SDsetattr(sd, "g", DFNT_CHAR8, 3, "abc"));
    CK(SDend(sd));
}
static void w_sd0(const char *fn) { w_sd(fn, 0); }
static void w_sd1(const char *fn) { w_sd(fn, 1); }
static void w_sd2(const char *fn) { w_sd(fn, 2); }
static void w_sd3(const char *fn) { w_sd(fn, 3); }
static void w_sd4(const char *fn) { w_sd(fn, 4); }

static void
w_sd_unlimited(const char *fn)
{
    int32 sd = SDstart(fn, DFACC_CREATE);
    if (sd == FAIL) {
        nfail++;
        return;
    }
    int32 dims[2] = {SD_UNLIMITED, 30};
    int32 sds     = SDcreate(sd, "u", DFNT_INT16, 2, dims);
    int32 sd2     = SDcreate(sd, "v", DFNT_INT8, 1, dims + 1);
    if (sds == FAIL || sd2 == FAIL)
        nfail++;
    else {
        int32 st[2] = {0, 0}, ed[2] = {3, 30};
        CK(SDwritedata(sds, st, NULL, ed, big));
        CK(SDwritedata(sd2, st + 1, NULL, ed + 1, big));
        st[0] = 3;
        CK(SDwritedata(sds, st, NULL, ed, big + 100)); /* append after another object: linked blocks */
        CK(SDendaccess(sds));
        CK(SDendaccess(sd2));
    }
    CK(SDend(sd));
}

static void
w_gr(const char *fn, int comp)
{
    int32 fid = Hopen(fn, DFACC_CREATE, 0);
    if (fid == FAIL) {
        nfail++;
        return;
    }
    int32 gr = GRstart(fid);
    if (gr == FAIL)
        nfail++;
    else {
        int32 dims[2] = {17, 23};
        int32 ri      = GRcreate(gr, "img", 3, DFNT_UINT8, MFGR_INTERLACE_PIXEL, dims);
        if (ri == FAIL)
            nfail++;
        else {
            if (comp) {
                comp_info ci;
                ci.deflate.level = 5;
                if (comp == 3) {
                    ci.jpeg.quality        = 80;
                    ci.jpeg.force_baseline = 1;
                }
                CK(GRsetcompress(ri, comp == 1 ? COMP_CODE_DEFLATE : comp == 3 ? COMP_CODE_JPEG : COMP_CODE_RLE, &ci));
            }
            int32 st[2] = {0, 0};
            CK(GRwriteimage(ri, st, NULL, dims, big));
            int32 pal = GRgetlutid(ri, 0);
            if (pal == FAIL)
                nfail++;
            else
                CK(GRwritelut(pal, 3, DFNT_UINT8, MFGR_INTERLACE_PIXEL, 256, big));
            int32 at = 1;
            CK(GRsetattr(ri, "ia", DFNT_INT32, 1, &at));
            CK(GRendaccess(ri));
        }
        CK(GRend(gr));
    }
    CK(Hclose(fid));
}
static void w_gr0(const char *fn) { w_gr(fn, 0); }
static void w_gr1(const char *fn) { w_gr(fn, 1); }
static void w_gr2(const char *fn) { w_gr(fn, 2); }
static void w_gr3(const char *fn) { w_gr(fn, 3); }

static void
w_ext(const char *fn)
{
    int32 fid = Hopen(fn, DFACC_CREATE, 0);
    if (fid == FAIL) {
        nfail++;
        return;
    }
    int32 aid = HXcreate(fid, 1000, 1, "c16_ext.dat", 0, 0);
    if (aid == FAIL)
        nfail++;
    else {
        CK(Hwrite(aid, 500, big));
        CK(Hendaccess(aid));
    }
    CK(Hclose(fid));
}

static void
w_an(const char *fn)
{
    int32 fid = Hopen(fn, DFACC_CREATE, 0);
    if (fid == FAIL) {
        nfail++;
        return;
    }
    CK(Hputelement(fid, 1000, 1, big, 10));
    int32 an = ANstart(fid);
    if (an == FAIL)
        nfail++;
    else {
        int32 a = ANcreate(an, 1000, 1, AN_DATA_LABEL);
        if (a == FAIL)
            nfail++;
        else {
            CK(ANwriteann(a, "label text", 10));
            CK(ANendaccess(a));
        }
        a = ANcreatef(an, AN_FILE_DESC);
        if (a == FAIL)
            nfail++;
        else {
            CK(ANwriteann(a, "file description", 16));
            CK(ANendaccess(a));
        }
        CK(ANend(an));
    }
    CK(Hclose(fid));
}

static void __attribute__((unused))
w_bits(const char *fn)
{
    int32 fid = Hopen(fn, DFACC_CREATE, 0);
    if (fid == FAIL) {
        nfail++;
        return;
    }
    int32 b = Hstartbitwrite(fid, 1000, 1, 0);
    if (b == FAIL)
        nfail++;
    else {
        for (int i = 0; i < 5000; i++)
            if (Hbitwrite(b, 13, (uint32)i) == FAIL) {
                nfail++;
                break;
            }
        CK(Hendbitaccess(b, 0));
    }
    CK(Hclose(fid));
}

static void
w_bits2(const char *fn)
{
    int32 fid = Hopen(fn, DFACC_CREATE, 0);
    if (fid == FAIL) {
        nfail++;
        return;
    }
    int32 b = Hstartbitwrite(fid, 1000, 1, 40000);
    if (b == FAIL)
        nfail++;
    else {
        for (int i = 0; i < 20000; i++)
            if (Hbitwrite(b, 13, (uint32)i) == FAIL) {
                nfail++;
                break;
            }
        CK(Hendbitaccess(b, 0));
    }
    CK(Hclose(fid));
}

static void
w_sd_nbit_big(const char *fn)
{
    int32 sd = SDstart(fn, DFACC_CREATE);
    if (sd == FAIL) {
        nfail++;
        return;
    }
    int32 dims[2] = {100, 90};
    int32 sds     = SDcreate(sd, "data", DFNT_INT16, 2, dims);
    if (sds == FAIL)
        nfail++;
    else {
        CK(SDsetnbitdataset(sds, 0, 9, FALSE, FALSE));
        int32 st[2] = {0, 0};
        CK(SDwritedata(sds, st, NULL, dims, big));
        CK(SDendaccess(sds));
    }
    CK(SDend(sd));
}

static void
w_gr_two(const char *fn)
{
    /* two partial writes into a compressed image, then a read back before the end of access */
    int32 fid = Hopen(fn, DFACC_CREATE, 0);
    if (fid == FAIL) {
        nfail++;
        return;
    }
    int32 gr = GRstart(fid);
    if (gr == FAIL)
        nfail++;
    else {
        int32 dims[2] = {40, 50};
        int32 ri      = GRcreate(gr, "img", 1, DFNT_UINT8, MFGR_INTERLACE_PIXEL, dims);
        if (ri == FAIL)
            nfail++;
        else {
            comp_info ci;
            ci.deflate.level = 5;
            CK(GRsetcompress(ri, COMP_CODE_DEFLATE, &ci));
            int32 st[2] = {0, 0};
            CK(GRwriteimage(ri, st, NULL, dims, big));
            CK(GRendaccess(ri));
        }
        ri = GRcreate(gr, "ext", 1, DFNT_UINT8, MFGR_INTERLACE_PIXEL, dims);
        if (ri == FAIL)
            nfail++;
        else {
            int32 st[2] = {0, 0};
            CK(GRwriteimage(ri, st, NULL, dims, big));
            CK(GRsetexternalfile(ri, "c16_ext.dat", 0));
            CK(GRwriteimage(ri, st, NULL, dims, big + 5));
            CK(GRendaccess(ri));
        }
        CK(GRend(gr));
    }
    CK(Hclose(fid));
}

static void
w_vs_ext(const char *fn)
{
    int32 fid = Hopen(fn, DFACC_CREATE, 0);
    if (fid == FAIL) {
        nfail++;
        return;
    }
    CK(Vstart(fid));
    int32 vs = VSattach(fid, -1, "w");
    if (vs == FAIL)
        nfail++;
    else {
        CK(VSfdefine(vs, "A", DFNT_INT32, 1));
        CK(VSsetfields(vs, "A"));
        CK(VSwrite(vs, big, 50, FULL_INTERLACE));
        CK(VSsetexternalfile(vs, "c16_ext.dat", 0));
        CK(VSseek(vs, 50));
        CK(VSwrite(vs, big + 200, 50, FULL_INTERLACE));
        CK(VSdetach(vs));
    }
    CK(Vend(fid));
    CK(Hclose(fid));
}

static void __attribute__((unused))
w_buffered(const char *fn)
{
    int32 fid = Hopen(fn, DFACC_CREATE, 0);
    if (fid == FAIL) {
        nfail++;
        return;
    }
    CK(Hputelement(fid, 1000, 1, big + 50, 600));
    int32 aid = Hstartaccess(fid, 1000, 1, DFACC_RDWR);
    if (aid == FAIL)
        nfail++;
    else {
        CK(HBconvert(aid));
        CK(Hwrite(aid, 600, big));
        CK(Hseek(aid, 100, DF_START));
        CK(Hwrite(aid, 300, big + 1000));
        CK(Hendaccess(aid));
    }
    CK(Hclose(fid));
}

static void
w_sd_clobber(const char *fn)
{
    QUIET(w_sd(fn, 0));
    w_sd(fn, 1); /* DFACC_CREATE over an existing HDF file */
}

static void
w_sd_update(const char *fn)
{
    /* re-open a file holding compressed, chunked and n-bit data and overwrite part of each */
    QUIET({
        int32 sd      = SDstart(fn, DFACC_CREATE);
        int32 dims[2] = {20, 30};
        for (int m = 0; m < 3; m++) {
            int32 sds = SDcreate(sd, m == 0 ? "defl" : m == 1 ? "chunk" : "plain", DFNT_INT16, 2, dims);
            if (m == 0) {
                comp_info ci;
                ci.deflate.level = 6;
                SDsetcompress(sds, COMP_CODE_DEFLATE, &ci);
            }
            if (m == 1) {
                HDF_CHUNK_DEF cd;
                memset(&cd, 0, sizeof cd);
                cd.comp.chunk_lengths[0] = 5;
                cd.comp.chunk_lengths[1] = 10;
                cd.comp.comp_type        = COMP_CODE_RLE;
                SDsetchunk(sds, cd, HDF_CHUNK | HDF_COMP);
            }
            int32 st[2] = {0, 0};
            SDwritedata(sds, st, NULL, dims, big);
            SDendaccess(sds);
        }
        SDend(sd);
    });
    int32 sd = SDstart(fn, DFACC_RDWR);
    if (sd == FAIL) {
        nfail++;
        return;
    }
    for (int m = 0; m < 3; m++) {
        int32 sds = SDselect(sd, m);
        if (sds == FAIL) {
            nfail++;
            continue;
        }
        int32 st[2] = {2, 3}, ed[2] = {7, 11};
        if (m == 0) { /* deflate: sequential rewrite of the whole array */
            st[0] = st[1] = 0;
            ed[0]         = 20;
            ed[1]         = 30;
        }
        CK(SDwritedata(sds, st, NULL, ed, big + 300));
        st[0] = 0;
        st[1] = 0;
        ed[0] = 20;
        ed[1] = 30;
        if (SDreaddata(sds, st, NULL, ed, rbuf) == FAIL)
            nfail++;
        else
            dg(rbuf, 1200);
        CK(SDendaccess(sds));
    }
    CK(SDend(sd));
}


static void
w_ci8_read(const char *fn)
{
    /* an ungrouped RLE-compressed 8-bit image of the oldest convention (CI8 + ID8), read through GR under faults */
    QUIET({
        uint8 img[5][12], cbuf[512], id8[4] = {0, 12, 0, 5};
        for (int i = 0; i < 5; i++)
            for (int j = 0; j < 12; j++)
                img[i][j] = (uint8)(j < 6 ? 9 : i);
        unlink("c16_tmp8.hdf");
        DFR8putimage("c16_tmp8.hdf", img, 12, 5, COMP_RLE);
        int32  f = Hopen("c16_tmp8.hdf", DFACC_READ, 0);
        uint16 t = 0, r = 0;
        int32  off, len = 0;
        Hfind(f, DFTAG_CI8, DFREF_WILDCARD, &t, &r, &off, &len, DF_FORWARD);
        Hgetelement(f, t, r, cbuf);
        Hclose(f);
        unlink("c16_tmp8.hdf");
        f = Hopen(fn, DFACC_CREATE, 0);
        Hputelement(f, DFTAG_CI8, 3, cbuf, len);
        Hputelement(f, DFTAG_ID8, 3, id8, 4);
        Hclose(f);
    });
    int32 fid = Hopen(fn, DFACC_READ, 0);
    if (fid == FAIL) {
        nfail++;
        return;
    }
    int32 gr = GRstart(fid);
    if (gr == FAIL)
        nfail++;
    else {
        int32 ri = GRselect(gr, 0);
        if (ri == FAIL)
            nfail++;
        else {
            int32 st[2] = {0, 0}, dims[2] = {12, 5};
            memset(rbuf, 0, 60);
            if (GRreadimage(ri, st, NULL, dims, rbuf) == FAIL)
                nfail++;
            else
                dg(rbuf, 60);
            CK(GRendaccess(ri));
        }
        CK(GRend(gr));
    }
    CK(Hclose(fid));
}

static void
w_read_all(const char *fn)
{
    /* fault-free creation, then a read-only pass under faults; the digest of everything read is the observable */
    QUIET({
        w_sd(fn, 3);
        int32 fid = Hopen(fn, DFACC_RDWR, 0);
        int32 aid = HLcreate(fid, 1001, 1, 64, 2);
        Hwrite(aid, 1000, big);
        Hendaccess(aid);
        int32 gr      = GRstart(fid);
        int32 dims[2] = {17, 23};
        int32 ri      = GRcreate(gr, "img", 3, DFNT_UINT8, MFGR_INTERLACE_PIXEL, dims);
        comp_info ci;
        ci.deflate.level = 5;
        GRsetcompress(ri, COMP_CODE_DEFLATE, &ci);
        int32 st[2] = {0, 0};
        GRwriteimage(ri, st, NULL, dims, big);
        GRendaccess(ri);
        GRend(gr);
        Vstart(fid);
        int32 vs = VSattach(fid, -1, "w");
        VSfdefine(vs, "A", DFNT_INT32, 1);
        VSsetfields(vs, "A");
        VSsetname(vs, "tab");
        VSwrite(vs, big, 100, FULL_INTERLACE);
        VSdetach(vs);
        Vend(fid);
        int32 an = ANstart(fid);
        int32 a  = ANcreatef(an, AN_FILE_DESC);
        ANwriteann(a, "file description", 16);
        ANendaccess(a);
        ANend(an);
        Hclose(fid);
    });
    int32 sd = SDstart(fn, DFACC_READ);
    if (sd == FAIL)
        nfail++;
    else {
        int32 sds = SDselect(sd, 0);
        if (sds == FAIL)
            nfail++;
        else {
            int32 st[2] = {0, 0}, ed[2] = {20, 30};
            if (SDreaddata(sds, st, NULL, ed, rbuf) == FAIL)
                nfail++;
            else
                dg(rbuf, 1200);
            comp_coder_t ct = COMP_CODE_INVALID;
            if (SDgetcomptype(sds, &ct) == FAIL)
                nfail++;
            else
                dg(&ct, sizeof ct);
            CK(SDendaccess(sds));
        }
        CK(SDend(sd));
    }
    int32 fid = Hopen(fn, DFACC_READ, 0);
    if (fid == FAIL) {
        nfail++;
        return;
    }
    int32 n = Hgetelement(fid, 1001, 1, rbuf);
    if (n == FAIL)
        nfail++;
    else
        dg(rbuf, (size_t)n);
    int32 gr = GRstart(fid);
    if (gr == FAIL)
        nfail++;
    else {
        int32 ri = GRselect(gr, 0);
        if (ri == FAIL)
            nfail++;
        else {
            int32 st[2] = {0, 0}, dims[2] = {17, 23};
            if (GRreadimage(ri, st, NULL, dims, rbuf) == FAIL)
                nfail++;
            else
                dg(rbuf, 17 * 23 * 3);
            intn mapped = -1, created = -1;
            if (GR2bmapped(ri, &mapped, &created) == FAIL)
                nfail++;
            else
                dg(&mapped, sizeof mapped);
            CK(GRendaccess(ri));
        }
        CK(GRend(gr));
    }
    if (Vstart(fid) == FAIL)
        nfail++;
    else {
        int32 ref = VSfind(fid, "tab");
        int32 vs  = ref > 0 ? VSattach(fid, ref, "r") : FAIL;
        if (vs == FAIL)
            nfail++;
        else {
            if (VSsetfields(vs, "A") == FAIL || VSread(vs, rbuf, 100, FULL_INTERLACE) == FAIL)
                nfail++;
            else
                dg(rbuf, 400);
            CK(VSdetach(vs));
        }
        CK(Vend(fid));
    }
    int32 an = ANstart(fid);
    if (an == FAIL)
        nfail++;
    else {
        int32 nfl, nfd, ndl, ndd;
        if (ANfileinfo(an, &nfl, &nfd, &ndl, &ndd) == FAIL)
            nfail++;
        else {
            dg(&nfd, sizeof nfd);
            int32 a = ANselect(an, 0, AN_FILE_DESC);
            if (a == FAIL)
                nfail++;
            else {
                memset(rbuf, 0, 64);
                if (ANreadann(a, (char *)rbuf, 32) == FAIL)
                    nfail++;
                else
                    dg(rbuf, 32);
                CK(ANendaccess(a));
            }
        }
        CK(ANend(an));
    }
    CK(Hclose(fid));
}

static void
w_oldatt(const char *fn)
{
    /* DFSD-era file with label/unit/format strings, inspected through the SD interface */
    QUIET({
        int32   dims[2] = {4, 5};
        DFSDsetdims(2, dims);
        DFSDsetNT(DFNT_INT16);
        DFSDsetdatastrs("the label", "the unit", "F7.2", "cartesian");
        DFSDadddata(fn, 2, dims, big);
    });
    int32 sd = SDstart(fn, DFACC_READ);
    if (sd == FAIL) {
        nfail++;
        return;
    }
    int32 sds = SDselect(sd, 2); /* indices 0,1 are the fake dimension variables */
    if (sds == FAIL)
        nfail++;
    else {
        int32 off = -1, len = -1;
        intn  r   = SDgetoldattdatainfo(0, sds, "long_name", &off, &len);
        if (r == FAIL)
            nfail++;
        else {
            dg(&off, sizeof off);
            dg(&len, sizeof len);
        }
        CK(SDendaccess(sds));
    }
    CK(SDend(sd));
}

static void
w_bits_rw(const char *fn)
{
    int32 fid = Hopen(fn, DFACC_CREATE, 0);
    if (fid == FAIL) {
        nfail++;
        return;
    }
    int32 b = Hstartbitwrite(fid, 1000, 1, 40000);
    if (b == FAIL)
        nfail++;
    else {
        uint32 v = 0;
        for (int i = 0; i < 3000; i++)
            if (Hbitwrite(b, 11, (uint32)i) == FAIL) {
                nfail++;
                break;
            }
        CK(Hbitseek(b, 0, 0));
        if (Hbitread(b, 11, &v) == FAIL) /* write -> read switch flushes */
            nfail++;
        else
            dg(&v, sizeof v);
        CK(Hbitseek(b, 4125, 0));
        for (int i = 0; i < 3000; i++) /* read -> write switch */
            if (Hbitwrite(b, 7, (uint32)i) == FAIL) {
                nfail++;
                break;
            }
        CK(HDflush(fid));
        CK(Hendbitaccess(b, 0));
    }
    CK(Hclose(fid));
}

static void
w_ext_dir(const char *fn)
{
    int32 fid = Hopen(fn, DFACC_CREATE, 0);
    if (fid == FAIL) {
        nfail++;
        return;
    }
    int32 aid = HXcreate(fid, 1000, 1, "c16_ext.dat", 0, 0);
    if (aid == FAIL)
        nfail++;
    else {
        CK(Hwrite(aid, 500, big));
        CK(HXsetdir(".")); /* forces HXPwrite / HXPread to close and re-open the external file */
        CK(Hwrite(aid, 500, big + 500));
        CK(HXsetdir("./"));
        CK(Hseek(aid, 0, DF_START));
        if (Hread(aid, 1000, rbuf) == FAIL)
            nfail++;
        else
            dg(rbuf, 1000);
        CK(Hendaccess(aid));
    }
    CK(Hclose(fid));
}

static void
w_gr_map(const char *fn)
{
    QUIET({
        int32 fid     = Hopen(fn, DFACC_CREATE, 0);
        int32 gr      = GRstart(fid);
        int32 dims[2] = {20, 20};
        int32 ri      = GRcreate(gr, "img8", 1, DFNT_UINT8, MFGR_INTERLACE_PIXEL, dims);
        comp_info ci;
        ci.deflate.level = 5;
        GRsetcompress(ri, COMP_CODE_DEFLATE, &ci);
        int32 st[2] = {0, 0};
        GRwriteimage(ri, st, NULL, dims, big);
        GRendaccess(ri);
        GRend(gr);
        Hclose(fid);
    });
    int32 fid = Hopen(fn, DFACC_READ, 0);
    if (fid == FAIL) {
        nfail++;
        return;
    }
    int32 gr = GRstart(fid);
    if (gr == FAIL)
        nfail++;
    else {
        int32 ri = GRselect(gr, 0);
        if (ri == FAIL)
            nfail++;
        else {
            intn mapped = -1, created = -1;
            if (GR2bmapped(ri, &mapped, &created) == FAIL)
                nfail++;
            else
                dg(&mapped, sizeof mapped);
            CK(GRendaccess(ri));
        }
        CK(GRend(gr));
    }
    CK(Hclose(fid));
}

static void
w_flush(const char *fn)
{
    int32 fid = Hopen(fn, DFACC_CREATE, 0);
    if (fid == FAIL) {
        nfail++;
        return;
    }
    CK(Hputelement(fid, 1000, 1, big, 300));
    CK(HDflush(fid));
    CK(Hclose(fid));
}

static void
w_nbit_read(const char *fn)
{
    QUIET({
        int32 sd      = SDstart(fn, DFACC_CREATE);
        int32 dims[2] = {100, 90};
        int32 sds     = SDcreate(sd, "data", DFNT_INT16, 2, dims);
        SDsetnbitdataset(sds, 0, 9, TRUE, FALSE); /* sign extension on */
        int32 st[2] = {0, 0};
        SDwritedata(sds, st, NULL, dims, big);
        SDendaccess(sds);
        SDend(sd);
    });
    int32 sd = SDstart(fn, DFACC_READ);
    if (sd == FAIL) {
        nfail++;
        return;
    }
    int32 sds = SDselect(sd, 0);
    if (sds == FAIL)
        nfail++;
    else {
        int32 st[2] = {0, 0}, dims[2] = {100, 90};
        if (SDreaddata(sds, st, NULL, dims, rbuf) == FAIL)
            nfail++;
        else
            dg(rbuf, 18000);
        CK(SDendaccess(sds));
    }
    CK(SDend(sd));
}

static void
w_sd_meta(const char *fn)
{
    int32 sd = SDstart(fn, DFACC_CREATE);
    if (sd == FAIL) {
        nfail++;
        return;
    }
    int32   dims[2] = {6, 5}, st[2] = {0, 0};
    float32 sc[6]   = {0, 1, 2, 3, 4, 5};
    CK(SDsetattr(sd, "glob", DFNT_CHAR8, 5, "hello"));
    int32 sds = SDcreate(sd, "var", DFNT_INT32, 2, dims);
    if (sds == FAIL)
        nfail++;
    else {
        CK(SDwritedata(sds, st, NULL, dims, big));
        CK(SDsetattr(sds, "units", DFNT_CHAR8, 2, "mm"));
        int32 dim = SDgetdimid(sds, 0);
        if (dim == FAIL)
            nfail++;
        else {
            CK(SDsetdimname(dim, "y"));
            CK(SDsetdimscale(dim, 6, DFNT_FLOAT32, sc));
        }
        CK(SDendaccess(sds));
    }
    CK(SDend(sd));
}

static void
w_sd_agent(const char *fn)
{
    /* workload of the round-2 seeding agent's exploration harness, reproduced to get the injection stacks */
    int32   sd, sds, dim;
    int32   dims[2] = {6, 5}, start[2] = {0, 0}, edges[2] = {6, 5};
    int32   data[30];
    float32 sc[6];
    for (int i = 0; i < 30; i++)
        data[i] = i * 5;
    for (int i = 0; i < 6; i++)
        sc[i] = (float32)i;
    sd = SDstart(fn, DFACC_CREATE);
    if (sd == FAIL) {
        nfail++;
        return;
    }
    CK(SDsetattr(sd, "glob", DFNT_CHAR8, 5, "hello"));
    sds = SDcreate(sd, "var", DFNT_INT32, 2, dims);
    if (sds == FAIL)
        nfail++;
    else {
        CK(SDwritedata(sds, start, NULL, edges, data));
        CK(SDsetattr(sds, "units", DFNT_CHAR8, 2, "mm"));
        dim = SDgetdimid(sds, 0);
        if (dim == FAIL)
            nfail++;
        else {
            CK(SDsetdimname(dim, "y"));
            CK(SDsetdimscale(dim, 6, DFNT_FLOAT32, sc));
        }
        CK(SDendaccess(sds));
    }
    dims[0] = SD_UNLIMITED;
    sds     = SDcreate(sd, "rec", DFNT_INT32, 2, dims);
    if (sds == FAIL)
        nfail++;
    else {
        edges[0] = 3;
        CK(SDwritedata(sds, start, NULL, edges, data));
        start[0] = 3;
        CK(SDwritedata(sds, start, NULL, edges, data));
        CK(SDendaccess(sds));
    }
    CK(SDend(sd));
}

static void
w_reopen_after_fault(const char *fn)
{
    /* whatever the faulted session left behind must be readable (or refused) without a crash */
    {
        int32 fid = Hopen(fn, DFACC_CREATE, 0);
        if (fid == FAIL) {
            nfail++;
            return;
        }
        int32 aid = HLcreate(fid, 1001, 1, 64, 2);
        if (aid == FAIL)
            nfail++;
        else {
            CK(Hwrite(aid, 1000, big));
            CK(Hendaccess(aid));
        }
        aid = HXcreate(fid, 1002, 1, "c16_ext.dat", 0, 0);
        if (aid == FAIL)
            nfail++;
        else {
            CK(Hwrite(aid, 100, big));
            CK(Hendaccess(aid));
        }
        comp_info  ci;
        model_info mi;
        ci.deflate.level = 6;
        aid = HCcreate(fid, 1003, 1, COMP_MODEL_STDIO, &mi, COMP_CODE_DEFLATE, &ci);
        if (aid == FAIL)
            nfail++;
        else {
            CK(Hwrite(aid, 2000, big));
            CK(Hendaccess(aid));
        }
        CK(Vstart(fid));
        int32 vs = VSattach(fid, -1, "w");
        if (vs == FAIL)
            nfail++;
        else {
            CK(VSfdefine(vs, "A", DFNT_INT32, 1));
            CK(VSsetfields(vs, "A"));
            CK(VSsetname(vs, "tab"));
            CK(VSwrite(vs, big, 600, FULL_INTERLACE));
            CK(VSdetach(vs));
        }
        CK(Vend(fid));
        CK(Hclose(fid));
    }
    int a = g_armed;
    g_armed = 0; /* the second session runs fault free */
    {
        int32 fid = Hopen(fn, DFACC_READ, 0);
        if (fid != FAIL) {
            for (uint16 t = 1001; t <= 1003; t++) {
                int32 n = Hlength(fid, t, 1);
                if (n > 0 && n <= (int32)sizeof rbuf)
                    (void)Hgetelement(fid, t, 1, rbuf);
            }
            if (Vstart(fid) != FAIL) {
                int32 ref = VSfind(fid, "tab");
                if (ref > 0) {
                    int32 vs = VSattach(fid, ref, "r");
                    if (vs != FAIL) {
                        if (VSsetfields(vs, "A") != FAIL)
                            (void)VSread(vs, rbuf, 600, FULL_INTERLACE);
                        VSdetach(vs);
                    }
                }
                Vend(fid);
            }
            Hclose(fid);
        }
    }
    g_armed = a;
    if (nfail == 0)
        nfail = 0;
}

static struct {
    const char *name;
    void (*fn)(const char *);
} W[] = {{"hlevel", w_hlevel},   {"linkapp", w_linked_append}, {"vdata", w_vdata}, {"sd", w_sd0},
         {"sd_deflate", w_sd1}, {"sd_chunk", w_sd2},          {"sd_chunk_rle", w_sd3}, {"sd_nbit", w_sd4},
         {"sd_unlim", w_sd_unlimited}, {"gr", w_gr0},         {"gr_deflate", w_gr1}, {"gr_rle", w_gr2}, {"gr_jpeg", w_gr3},
         {"ext", w_ext},        {"an", w_an},                 {"bits", w_bits2},
         {"sd_nbit_big", w_sd_nbit_big}, {"gr_two", w_gr_two}, {"vs_ext", w_vs_ext}, 
         {"sd_clobber", w_sd_clobber}, {"sd_update", w_sd_update}, {"read_all", w_read_all}, {"ci8_read", w_ci8_read}, {"oldatt", w_oldatt}, {"bits_rw", w_bits_rw}, {"ext_dir", w_ext_dir}, {"gr_map", w_gr_map}, {"flush", w_flush}, {"nbit_read", w_nbit_read}, {"sd_meta", w_sd_meta}, {"sd_agent", w_sd_agent}, {"reopen", w_reopen_after_fault}};

static unsigned long
hash_file(const char *fn, long *len)
{
    FILE *f = __real_fopen(fn, "rb");
    *len    = -1;
    if (!f)
        return 0;
    unsigned long h = 1469598103934665603UL;
    int           c;
    long          n = 0;
    while ((c = getc(f)) != EOF) {
        h = (h ^ (unsigned)c) * 1099511628211UL;
        n++;
    }
    __real_fclose(f);
    *len = n;
    return h;
}

/* child: run workload w with fault k; write "nfail count hash len what bt..." to fd */
static void
child(int w, long k, int sticky, int fd)
{
    const char *fn = "c16_sweep.hdf";
    unlink(fn);
    unlink("c16_ext.dat");
    g_fail_at = k;
    g_fd      = fd;
    g_sticky  = sticky;
    g_count   = 0;
    g_armed   = 1;
    alarm(20);
    W[w].fn(fn);
    g_armed = 0;
    long          len, len2;
    unsigned long h = hash_file(fn, &len) ^ (hash_file("c16_ext.dat", &len2) * 31) ^ (g_digest * 131);
    char          buf[2048];
    int           n = snprintf(buf, sizeof buf, "RES %d %ld %lx %ld\n", nfail, g_count, h, len);
    if (write(fd, buf, n) < 0)
        _exit(3);
    _exit(0);
}

static int
run(int w, long k, int sticky, char *out, size_t outsz)
{
    int p[2];
    if (pipe(p))
        exit(2);
    pid_t pid = fork();
    if (pid == 0) {
        close(p[0]);
        child(w, k, sticky, p[1]);
    }
    close(p[1]);
    size_t  tot = 0;
    ssize_t n;
    while (tot < outsz - 1 && (n = read(p[0], out + tot, outsz - 1 - tot)) > 0)
        tot += (size_t)n;
    out[tot] = 0;
    close(p[0]);
    int st;
    waitpid(pid, &st, 0);
    if (WIFSIGNALED(st))
        return -WTERMSIG(st);
    return 0;
}

int
main(int argc, char **argv)
{
    for (unsigned i = 0; i < sizeof big; i++)
        big[i] = (unsigned char)(i * 7 + (i >> 8));
    const char *only = argc > 1 ? argv[1] : NULL;
    if (argc == 5 && !strcmp(argv[1], "one")) { /* one <workload> <k> <sticky>: run in-process (for gdb/valgrind) */
        for (unsigned w = 0; w < sizeof W / sizeof W[0]; w++)
            if (!strcmp(argv[2], W[w].name))
                child((int)w, atol(argv[3]), atoi(argv[4]), 1);
        return 2;
    }
    for (unsigned w = 0; w < sizeof W / sizeof W[0]; w++) {
        if (only && strcmp(only, W[w].name))
            continue;
        char base[4096], out[4096];
        if (run(w, -1, 0, base, sizeof base) != 0) {
            printf("BASE-CRASH %s\n", W[w].name);
            continue;
        }
        int           bf;
        long          total, blen;
        unsigned long bh;
        sscanf(base, "RES %d %ld %lx %ld", &bf, &total, &bh, &blen);
        printf("WORKLOAD %s calls=%ld basefail=%d len=%ld\n", W[w].name, total, bf, blen);
        for (int sticky = 0; sticky < 2; sticky++)
            for (long k = 0; k < total; k++) {
                int   rc  = run(w, k, sticky, out, sizeof out);
                char *inj = strstr(out, "INJ ");
                char *res = strstr(out, "RES ");
                char *eol = inj ? strchr(inj, '\n') : NULL;
                if (eol)
                    *eol = 0;
                if (rc != 0 || !res) {
                    printf("CRASH %s k=%ld sticky=%d sig=%d bt=%s\n", W[w].name, k, sticky, -rc, inj ? inj + 4 : "?");
                    continue;
                }
                int           nf;
                long          cnt, len;
                unsigned long h;
                sscanf(res, "RES %d %ld %lx %ld", &nf, &cnt, &h, &len);
                if (getenv("C16_LIST") && !sticky)
                    printf("LIST %s k=%ld sticky=%d sig=0 bt=%s\n", W[w].name, k, sticky, inj ? inj + 4 : "?");
                if (nf == 0 && h != bh)
                    printf("SILENT %s k=%ld sticky=%d sig=0 bt=%s\n", W[w].name, k, sticky, inj ? inj + 4 : "?");
            }
    }
    return 0;
}
