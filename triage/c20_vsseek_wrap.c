/* TRIAGE ONLY (C20): VSseek computes the byte offset eltpos * ivsize in 32 bits.  A record number whose byte offset is beyond
 * 2^31-1 wraps: VSseek(vs, 0x40000000) on a 4-byte record "succeeds" and positions at record 0, VSseek(vs, 0x40000003) at
 * record 3.  Expected: FAIL (an offset the format cannot represent).  Exit 1 when the wrap is observed. */
#include "hdf.h"
#include <stdio.h>
int main(void)
{
    const char *fn = "c20_vsseek_wrap.hdf";
    int32 f = Hopen(fn, DFACC_CREATE, 0), v[10], got = -1, bad = 0;
    Vstart(f);
    int32 vs = VSattach(f, -1, "w");
    VSfdefine(vs, "a", DFNT_INT32, 1);
    VSsetfields(vs, "a");
    for (int i = 0; i < 10; i++)
        v[i] = 100 + i;
    VSwrite(vs, (uint8 *)v, 10, FULL_INTERLACE);
    int32 ref = VSQueryref(vs);
    VSdetach(vs);
    vs = VSattach(f, ref, "r");
    VSsetfields(vs, "a");
    int32 r = VSseek(vs, 0x40000003);
    printf("VSseek(0x40000003) = %d\n", (int)r);
    if (r != FAIL) {
        bad = 1;
        if (VSread(vs, (uint8 *)&got, 1, FULL_INTERLACE) == 1)
            printf("  VSread after it returns %d (record 3 holds 103)\n", (int)got);
    }
    r = VSseek(vs, 9);
    printf("VSseek(9) = %d\n", (int)r);
    if (r != 9 || VSread(vs, (uint8 *)&got, 1, FULL_INTERLACE) != 1 || got != 109)
        bad = 1;
    VSdetach(vs);
    Vend(f);
    Hclose(f);
    remove(fn);
    return bad;
}
