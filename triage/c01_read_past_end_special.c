/* TRIAGE ONLY (C01): the position of an element is moved past its end with Hseek (allowed) and a read is attempted there, for
 * four kinds of element: 0 external, 1 buffered (HBconvert), 2 deflate-compressed (read handle), 3 plain appendable.  Every read
 * routine clamped the request to `length - posn` without looking at the sign: the buffered element memcpy-ed with a negative
 * size (invalid reads under valgrind), the compressed one returned -14 as a transfer count for Hread(aid, 0, ..), the plain and
 * external ones handed a negative size to read(2).  Expected: FAIL from every read.  Usage: ./t <kind>, run under valgrind. */
#include "hdf.h"
#include <stdio.h>
#include <string.h>
int main(int argc,char**argv)
{
    const char *fn = "t3.hdf";
    uint8 pat[16], buf[64];
    for (int i = 0; i < 16; i++) pat[i] = (uint8)(i + 1);
    int32 f = Hopen(fn, DFACC_CREATE, 0);
    int which = argc>1 ? atoi(argv[1]) : 0;
    int32 aid=-1;
    if (which==0) { aid = HXcreate(f, 1000, 1, "t3.ext", 0, 0); Hwrite(aid,16,pat); }
    if (which==1) { aid = Hstartwrite(f, 1000, 1, 16); Hwrite(aid,16,pat); HBconvert(aid);}
    if (which==2) { comp_info ci; model_info mi; ci.deflate.level=6; aid = HCcreate(f, 1000, 1, COMP_MODEL_STDIO, &mi, COMP_CODE_DEFLATE, &ci); Hwrite(aid,16,pat); Hendaccess(aid); aid=Hstartread(f,1000,1);}
    if (which==3) { aid = Hstartwrite(f, 1000, 1, 16); Hwrite(aid,16,pat); Hendaccess(aid); aid=Hstartaccess(f,1000,1,DFACC_RDWR|DFACC_APPENDABLE);} 
    int32 s = Hseek(aid, 30, DF_START);
    printf("case %d: Hseek(30) = %d\n", which, (int)s); fflush(stdout);
    int32 r = Hread(aid, 4, buf);
    printf("Hread(4) = %d\n", (int)r); fflush(stdout);
    r = Hread(aid, 0, buf);
    printf("Hread(0) = %d\n", (int)r);
    Hendaccess(aid);
    Hclose(f);
    remove(fn); remove("t3.ext");
    return 0;
}
