/* C20 / F9c: vpackvg encodes (uint16)strlen(vgname) but Vsetname accepts any length.
 * a 70000-char name must be rejected (or stored whole); defect: accepted, and after reopen the name length is 70000 mod 65536. */
#include "hdf.h"
#include <stdio.h>
#include <stdlib.h>
#include <string.h>
int main(void)
{
    int32 f = Hopen("c20_vn.hdf", DFACC_CREATE, 0), vg, ref, r; uint16 l = 0;
    char *nm = malloc(70001); memset(nm, 'n', 70000); nm[70000] = 0;
    Vstart(f); vg = Vattach(f, -1, "w");
    r = Vsetname(vg, nm); ref = VQueryref(vg);
    Vdetach(vg); Vend(f); Hclose(f);
    if (r == FAIL) { printf("Vsetname(70000 chars) rejected\n"); remove("c20_vn.hdf"); return 0; }
    f = Hopen("c20_vn.hdf", DFACC_READ, 0); Vstart(f); vg = Vattach(f, ref, "r");
    Vgetnamelen(vg, &l); printf("Vsetname accepted 70000 chars; after reopen name length=%u\n", l);
    Vdetach(vg); Vend(f); Hclose(f); remove("c20_vn.hdf");
    return l == 70000 ? 0 : 1;
}
