/* C04: SDreadchunk / SDwritechunk with an origin outside the chunk grid must fail, not touch another chunk */
#include "mfhdf.h"
#include <stdio.h>
#include <string.h>
int main(void)
{
    int32 dims[2]={4,4}, st[2]={0,0}; int32 d[16], r[16], c4[4]={-1,-1,-1,-1}; for(int i=0;i<16;i++) d[i]=i;
    int32 sd=SDstart("c04o.hdf",DFACC_CREATE); int32 s=SDcreate(sd,"v",DFNT_INT32,2,dims);
    HDF_CHUNK_DEF c; c.chunk_lengths[0]=2; c.chunk_lengths[1]=2; SDsetchunk(s,c,HDF_CHUNK);
    SDwritedata(s,st,NULL,dims,d);
    int32 out[2]={0,2}; int32 buf[4]={0,0,0,0};
    intn rr=SDreadchunk(s,out,buf); printf("SDreadchunk(0,2)=%d -> %d %d %d %d\n",rr,buf[0],buf[1],buf[2],buf[3]);
    intn ww=SDwritechunk(s,out,c4); printf("SDwritechunk(0,2)=%d\n",ww);
    SDendaccess(s); SDend(sd);
    sd=SDstart("c04o.hdf",DFACC_READ); s=SDselect(sd,0); SDreaddata(s,st,NULL,dims,r);
    int same=memcmp(d,r,sizeof d)==0; printf("data intact after the out-of-grid write: %d\n",same);
    SDendaccess(s); SDend(sd); remove("c04o.hdf");
    return !(rr==FAIL && ww==FAIL && same); }
