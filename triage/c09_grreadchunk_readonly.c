/* TRIAGE ONLY (C09/C14): a chunked 4x4 uint8 image is written, the file closed and opened again read-only.  GRreadimage returns the
 * pixels; GRreadchunk fails, because it asks for an access element with DFACC_WRITE ("use write access") and the file has none to
 * give.  Expected: GRreadchunk returns the chunk on a read-only file too.  Exit 1 when it fails. */
#include "hdf.h"
#include <stdio.h>
#include <string.h>
int main(void)
{
    const char   *fn = "c09_grreadchunk_ro.hdf";
    int32         dims[2] = {4, 4}, st[2] = {0, 0}, org[2] = {0, 0};
    uint8         px[16], got[16], ch[4];
    HDF_CHUNK_DEF cd;
    for (int i = 0; i < 16; i++)
        px[i] = (uint8)(i + 1);
    memset(&cd, 0, sizeof cd);
    cd.chunk_lengths[0] = 2;
    cd.chunk_lengths[1] = 2;
    int32 f = Hopen(fn, DFACC_CREATE, 0), gr = GRstart(f);
    int32 ri = GRcreate(gr, "img", 1, DFNT_UINT8, MFGR_INTERLACE_PIXEL, dims);
    GRsetchunk(ri, cd, HDF_CHUNK);
    GRwriteimage(ri, st, NULL, dims, px);
    GRendaccess(ri);
    GRend(gr);
    Hclose(f);
    f     = Hopen(fn, DFACC_READ, 0);
    gr    = GRstart(f);
    ri    = GRselect(gr, 0);
    int b = GRreadchunk(ri, org, ch); /* first access of the session */
    int a = GRreadimage(ri, st, NULL, dims, got);
    printf("read-only file: GRreadchunk (first) = %d, GRreadimage = %d\n", b, a);
    GRendaccess(ri);
    GRend(gr);
    Hclose(f);
    remove(fn);
    return b == FAIL;
}
